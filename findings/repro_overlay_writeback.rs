// D21 (C12, obligations C12.ovl.open.writeback_negotiated / C12.ovl.create.writeback_negotiated, unit `ovlinit`): OverlayFs::open and
// OverlayFs::create applied the writeback-cache rewriting of the open flags (O_WRONLY -> O_RDWR, O_APPEND removed) whenever the
// CONFIGURATION asked for writeback, not when the feature was NEGOTIATED (the `writeback` switch that OverlayFs::init sets only if the
// client offered FUSE_WRITEBACK_CACHE; PassthroughFs uses its switch).  With a client that did not offer the feature, the kernel does not
// do the appending itself, and the host file is opened read-write and without O_APPEND behind its back.  Seen from outside on an
// append-only file (chattr +a, the usual protection of log files): open(O_WRONLY | O_APPEND) through the overlay fails with EPERM although
// the same open on the host succeeds.  (Needs root and a host file system with inode flags, e.g. ext4 under /var/tmp; skipped otherwise.)
// Place as tests/repro_overlay_writeback.rs in a checkout of fuse-backend-rs and run `cargo test --offline --test repro_overlay_writeback`.
// The first test fails on a tree with the defect; the second (feature negotiated: the rewriting is the configured behaviour) documents the other side.
use std::ffi::CString;
use std::fs;
use std::path::Path;
use std::sync::Arc;

use fuse_backend_rs::abi::fuse_abi::FsOptions;
use fuse_backend_rs::api::filesystem::{Context, FileSystem, Layer};
use fuse_backend_rs::overlayfs::config::Config;
use fuse_backend_rs::overlayfs::OverlayFs;
use fuse_backend_rs::passthrough::{self, PassthroughFs};
use vmm_sys_util::tempdir::TempDir;

const ROOT_ID: u64 = 1;
type BoxedLayer = Box<dyn Layer<Inode = u64, Handle = u64> + Send + Sync>;

fn layer(dir: &Path) -> Arc<BoxedLayer> {
    let mut config = passthrough::Config::default();
    config.root_dir = dir.to_string_lossy().to_string();
    config.xattr = true;
    config.do_import = true;
    let fs = Box::new(PassthroughFs::<()>::new(config).unwrap());
    fs.import().unwrap();
    Arc::new(fs as BoxedLayer)
}

// an overlay configured for writeback, initialised by a client offering `capable`
fn overlay(upper: &Path, lower: &Path, capable: FsOptions) -> OverlayFs {
    let mut config = Config::default();
    config.do_import = true;
    config.writeback = true;
    let fs = OverlayFs::new(Some(layer(upper)), vec![layer(lower)], config).unwrap();
    let enabled = fs.init(capable).unwrap();
    assert_eq!(enabled.contains(FsOptions::WRITEBACK_CACHE), capable.contains(FsOptions::WRITEBACK_CACHE));
    fs
}

fn chattr(flag: &str, p: &Path) -> bool {
    std::process::Command::new("chattr").arg(flag).arg(p).status().map(|s| s.success()).unwrap_or(false)
}

// open `log` (append-only on the host) O_WRONLY | O_APPEND through the overlay
fn open_append_only(capable: FsOptions) -> Option<std::io::Result<()>> {
    let (up, low) = (TempDir::new_in(Path::new("/var/tmp")).unwrap(), TempDir::new_in(Path::new("/var/tmp")).unwrap());
    let log = up.as_path().join("log");
    fs::write(&log, b"AAAA").unwrap();
    if !chattr("+a", &log) {
        return None;
    }
    // the host agrees: appending is what this file allows
    assert!(fs::OpenOptions::new().append(true).open(&log).is_ok());
    let fs = overlay(up.as_path(), low.as_path(), capable);
    let ctx = Context::default();
    let ino = fs.lookup(&ctx, ROOT_ID, &CString::new("log").unwrap()).unwrap().inode;
    let flags = (libc::O_WRONLY | libc::O_APPEND) as u32;
    let r = fs.open(&ctx, ino, flags, 0).map(|(h, _, _)| {
        fs.release(&ctx, ino, flags, h.unwrap(), false, false, None).unwrap();
    });
    chattr("-a", &log);
    Some(r)
}

#[test]
fn append_only_file_opens_when_writeback_was_not_negotiated() {
    match open_append_only(FsOptions::empty()) {
        None => eprintln!("skipped: no inode flags here"),
        Some(r) => assert!(r.is_ok(), "the client did not negotiate the writeback cache, yet the open flags were rewritten for it: {:?}", r),
    }
}

#[test]
fn negotiated_writeback_rewrites_the_open_flags() {
    match open_append_only(FsOptions::WRITEBACK_CACHE) {
        None => eprintln!("skipped: no inode flags here"),
        // with the writeback cache negotiated and configured the file is opened O_RDWR without O_APPEND: the host refuses that on an append-only file
        Some(r) => assert_eq!(r.unwrap_err().raw_os_error(), Some(libc::EPERM)),
    }
}
