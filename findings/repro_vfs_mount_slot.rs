// Reproduction of finding D6 (property C14) against the real crate, public API only.
// Place as tests/repro_vfs_mount_slot.rs in a checkout of fuse-backend-rs and run `cargo test --offline --test repro_vfs_mount_slot`.
//
// C14: "Each mount uses its own mapping if it was given one and the global mapping otherwise."
// Over-mounting a path vacates the slot of the previous mount without clearing that slot's per-mount id mapping, and
// mount_with_id_mapping(.., None) does not overwrite the mapping of the slot it is given: a later mount WITHOUT a mapping that
// receives the vacated slot (the index counter wraps around after 255 allocations) inherits the stale mapping.
use std::any::Any;
use std::ffi::CStr;
use std::io::Result;

use fuse_backend_rs::abi::fuse_abi::ROOT_ID;
use fuse_backend_rs::api::filesystem::{Context, Entry, FileSystem};
use fuse_backend_rs::api::{BackendFileSystem, Vfs, VfsOptions};

struct Backend {
    root_uid: u32,
}
impl FileSystem for Backend {
    type Inode = u64;
    type Handle = u64;
}
impl BackendFileSystem for Backend {
    fn mount(&self) -> Result<(Entry, u64)> {
        let mut e = Entry { inode: 1, ..Default::default() };
        e.attr.st_uid = self.root_uid;
        e.attr.st_gid = self.root_uid;
        Ok((e, 100))
    }
    fn as_any(&self) -> &dyn Any { self }
}

#[test]
fn d6_mount_without_mapping_uses_the_global_mapping() {
    let vfs = Vfs::new(VfsOptions::default()); // no global mapping
    // a mount with its own mapping ...
    let first = vfs.mount_with_id_mapping(Box::new(Backend { root_uid: 5 }), "/a", Some((0, 200000, 65536))).unwrap();
    // ... is over-mounted: its slot is vacated
    vfs.mount(Box::new(Backend { root_uid: 5 }), "/a").unwrap();
    // mount / umount elsewhere until the vacated slot is handed out again
    let mut idx = 0;
    for _ in 0..600 {
        idx = vfs.mount(Box::new(Backend { root_uid: 5 }), "/x").unwrap();
        if idx == first {
            break;
        }
        vfs.umount("/x").unwrap();
    }
    assert_eq!(idx, first, "the vacated slot was never handed out again");
    // "/x" was mounted without a mapping and there is no global one: the client must see the internal ids unchanged
    let ctx = Context { uid: 0, gid: 0, pid: 1 };
    let e = vfs.lookup(&ctx, ROOT_ID.into(), CStr::from_bytes_with_nul(b"x\0").unwrap()).unwrap();
    assert_eq!((e.attr.st_uid, e.attr.st_gid), (5, 5), "mount without id mapping shows ids translated with the stale mapping of an over-mounted mount");
}
