// Reproduction of finding D8 (property C12, VFS part) against the real crate, public API only.
// Place as tests/repro_vfs_init.rs in a checkout of fuse-backend-rs and run `cargo test --offline --test repro_vfs_init`.
use fuse_backend_rs::api::filesystem::{FileSystem, FsOptions};
use fuse_backend_rs::api::{Vfs, VfsOptions};

// D8: no-open / no-opendir behaviour must only be in force if ZERO_MESSAGE_OPEN / ZERO_MESSAGE_OPENDIR is part of the
// negotiated set returned by INIT.  With a VFS configured with `no_open: true` but `out_opts` not announcing
// ZERO_MESSAGE_OPEN, the VFS answered every OPEN with ENOSYS although the feature was never negotiated.
#[test]
fn d8_no_open_only_if_negotiated() {
    let vfs = Vfs::new(VfsOptions {
        no_open: true,
        no_opendir: true,
        out_opts: FsOptions::ASYNC_READ | FsOptions::BIG_WRITES,
        ..Default::default()
    });
    let negotiated = vfs.init(FsOptions::all()).unwrap();
    assert!(!negotiated.contains(FsOptions::ZERO_MESSAGE_OPEN));
    assert!(!negotiated.contains(FsOptions::ZERO_MESSAGE_OPENDIR));
    let o = vfs.options();
    assert!(!o.no_open, "no_open in force although ZERO_MESSAGE_OPEN was not negotiated ({:?})", negotiated);
    assert!(!o.no_opendir, "no_opendir in force although ZERO_MESSAGE_OPENDIR was not negotiated ({:?})", negotiated);
}
