// Reproduction of finding D3 (property C04) against the real crate, public API only.
// Place as tests/repro_file_buf.rs in a checkout of fuse-backend-rs and run `cargo test --offline --test repro_file_buf`.
use fuse_backend_rs::file_buf::FileVolatileSlice;
use vm_memory::Bytes;

// D3: FileVolatileSlice::read_slice must copy FROM the slice into the caller's buffer and leave the memory unchanged;
// it delegated to VolatileSlice::write_slice and overwrote the memory with the caller's buffer instead.
#[test]
fn d3_read_slice_reads() {
    let mut mem = [1u8, 2, 3, 4];
    let s = unsafe { FileVolatileSlice::from_raw_ptr(mem.as_mut_ptr(), mem.len()) };
    let mut out = [9u8, 9];
    s.read_slice(&mut out, 1).unwrap();
    assert_eq!(out, [2, 3], "read_slice did not return the bytes at the offset");
    assert_eq!(mem, [1, 2, 3, 4], "read_slice modified the memory it was supposed to read");
}
