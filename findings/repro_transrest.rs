// Demonstration for unit `transrest` (NOT a defect of an in-tree caller: every handler of src/api/server reads its request before it
// uses the writer - obligation C04.get_request.alias.handlers).  It shows on the real crate that the caller rule stated next to
// `lemma_alias_rule` in /verif/vx/units/transrest.py is tight: FuseChannel::get_request hands out a Reader and a FuseDevWriter over the
// SAME memory; a buffered store into offsets [a, b) of the writer's space followed by a read of the Reader that has consumed c bytes
// returns the stored bytes instead of the request bytes unless b <= c (or a >= len).
//
// Run in a scratch export of the repo:  cp this file tests/repro_transrest.rs && cargo test --offline --features fusedev --test repro_transrest
use std::io::{Read, Write};

use fuse_backend_rs::transport::{FuseBuf, FuseDevWriter, Reader};

fn channel_pair(chan: &mut Vec<u8>, len: usize) -> (Reader<'_, ()>, FuseDevWriter<'_, ()>) {
    // exactly the statements of FuseChannel::get_request after read(2) returned `len`
    let buf = unsafe { std::slice::from_raw_parts_mut(chan.as_mut_ptr(), chan.len()) };
    let reader = Reader::from_fuse_buffer(FuseBuf::new(&mut chan[..len])).unwrap();
    let writer = FuseDevWriter::new(-1, buf).unwrap();
    (reader, writer)
}

#[test]
fn store_beyond_consumed_corrupts_the_request() {
    let mut chan = vec![0u8; 256];
    for i in 0..160 {
        chan[i] = i as u8; // a 160 byte "request"
    }
    let (mut reader, mut writer) = channel_pair(&mut chan, 160);
    let mut head = [0u8; 80];
    reader.read_exact(&mut head).unwrap(); // consumed c = 80 (in header + write-in of a WRITE request)
    let mut data = writer.split_at(16).unwrap(); // buffered child writer at offset 16
    data.write_all(&[0xffu8; 128]).unwrap(); // store into [16, 144): b = 144 > c = 80, a = 16 < len
    let mut rest = [0u8; 80];
    reader.read_exact(&mut rest).unwrap(); // "the next 80 request bytes"
    let expected: Vec<u8> = (80..160).map(|i| i as u8).collect();
    assert!(rest[..64].iter().all(|b| *b == 0xff), "offsets 80..144 now hold the stored bytes");
    assert_eq!(&rest[64..], &expected[64..]);
    assert_ne!(&rest[..], &expected[..]);
}

#[test]
fn store_within_consumed_is_harmless() {
    let mut chan = vec![0u8; 256];
    for i in 0..160 {
        chan[i] = i as u8;
    }
    let (mut reader, mut writer) = channel_pair(&mut chan, 160);
    let mut head = [0u8; 80];
    reader.read_exact(&mut head).unwrap();
    let mut data = writer.split_at(16).unwrap();
    data.write_all(&[0xffu8; 64]).unwrap(); // store into [16, 80): b = 80 <= c = 80
    let mut rest = [0u8; 80];
    reader.read_exact(&mut rest).unwrap();
    let expected: Vec<u8> = (80..160).map(|i| i as u8).collect();
    assert_eq!(&rest[..], &expected[..]);
}
