// Reproduction (property C05) against the real crate, public API only.
// Place as tests/repro_pt_creds.rs in a checkout of fuse-backend-rs and run as root:
//   cargo test --offline --test repro_pt_creds -- --test-threads=1
//
// C05: "... each reply (success or errno ...) equals what the corresponding system call yields on the exported directory ... Objects
// created for a non-root caller are owned by that caller ... under every open/opendir/inode-handle/inode-numbering/cache configuration."
//
// mkdir() and symlink() obtain the parent's descriptor (`data.get_file()`) AFTER set_creds() has switched the thread's effective ids to the
// caller's.  With `inode_file_handles` the parent is kept as a file handle and get_file() is open_by_handle_at(2), which needs
// CAP_DAC_READ_SEARCH; a thread whose effective uid has just left 0 has an empty effective capability set (capabilities(7)), so the
// request of a NON-ROOT caller fails with EPERM although mkdirat(2)/symlinkat(2) under the caller's ids succeeds (mknod() and the creating
// open of create() fetch the descriptor BEFORE switching and work).  The same holds for the re-open of an EXISTING file in create()
// (`open_inode` inside the credential scope of the `reopen` closure = open_by_handle_at under the caller's ids).
// Observed on the pinned tree (run as root, tmpfs): (mknod, mkdir, symlink, create-of-existing) = (Ok, Err(EPERM), Err(EPERM), Err(EPERM))
// with inode_file_handles, (Ok, Ok, Ok, Ok) without.  Failing obligations of unit ptops (vx/units/ptops.py): C05.creds.getfile_privileged
// at mkdir and at symlink, C05.creds.reopen_privileged at create's `reopen` closure.
use std::ffi::CString;
use std::fs;
use std::os::unix::fs::{MetadataExt, PermissionsExt};

use fuse_backend_rs::api::filesystem::{Context, FileSystem};
use fuse_backend_rs::passthrough::{Config, PassthroughFs};
use vmm_sys_util::tempdir::TempDir;

const ROOT_ID: u64 = 1;

fn new_fs(dir: &TempDir, handles: bool) -> PassthroughFs<()> {
    let cfg = Config { root_dir: dir.as_path().to_string_lossy().to_string(), do_import: true, inode_file_handles: handles, ..Default::default() };
    let fs = PassthroughFs::<()>::new(cfg).unwrap();
    fs.import().unwrap();
    fs
}

fn ctx(uid: u32, gid: u32) -> Context {
    let mut c = Context::default();
    c.uid = uid;
    c.gid = gid;
    c
}

fn shared_subdir(dir: &TempDir) -> std::path::PathBuf {
    let p = dir.as_path().join("sub");
    fs::create_dir(&p).unwrap();
    fs::set_permissions(&p, fs::Permissions::from_mode(0o777)).unwrap();
    p
}

fn run(handles: bool) -> (Result<(), i32>, Result<(), i32>, Result<(), i32>, Result<(), i32>, Vec<(String, u32, u32)>) {
    assert_eq!(unsafe { libc::geteuid() }, 0, "run as root");
    let dir = TempDir::new().unwrap();
    let sub = shared_subdir(&dir);
    let fs_ = new_fs(&dir, handles);
    let root = Context::default();
    let parent = fs_.lookup(&root, ROOT_ID, &CString::new("sub").unwrap()).unwrap().inode;
    let c = ctx(1000, 1000);
    let e = |r: std::io::Result<fuse_backend_rs::api::filesystem::Entry>| r.map(|_| ()).map_err(|e| e.raw_os_error().unwrap_or(-1));
    let r_mknod = e(fs_.mknod(&c, parent, &CString::new("n").unwrap(), libc::S_IFREG | 0o644, 0, 0));
    let r_mkdir = e(fs_.mkdir(&c, parent, &CString::new("d").unwrap(), 0o755, 0));
    let r_symlink = e(fs_.symlink(&c, &CString::new("target").unwrap(), parent, &CString::new("l").unwrap()));
    // CREATE (without O_EXCL) of the name that now exists: the re-open of the inode happens under the caller's ids as well
    let args = fuse_backend_rs::abi::fuse_abi::CreateIn { flags: (libc::O_CREAT | libc::O_RDWR) as u32, mode: 0o644, umask: 0, fuse_flags: 0 };
    let r_create = fs_.create(&c, parent, &CString::new("n").unwrap(), args).map(|_| ()).map_err(|e| e.raw_os_error().unwrap_or(-1));
    let mut owners = vec![];
    for ent in fs::read_dir(&sub).unwrap() {
        let ent = ent.unwrap();
        let m = fs::symlink_metadata(ent.path()).unwrap();
        owners.push((ent.file_name().to_string_lossy().to_string(), m.uid(), m.gid()));
    }
    owners.sort();
    // the serving thread's ids are what they were before
    assert_eq!(unsafe { (libc::geteuid(), libc::getegid()) }, (0, 0), "credentials not restored");
    (r_mknod, r_mkdir, r_symlink, r_create, owners)
}

#[test]
fn creating_ops_for_non_root_caller_plain_fds() {
    let (n, d, l, c, owners) = run(false);
    assert_eq!((n, d, l, c), (Ok(()), Ok(()), Ok(()), Ok(())));
    assert_eq!(owners, vec![("d".into(), 1000, 1000), ("l".into(), 1000, 1000), ("n".into(), 1000, 1000)]);
}

#[test]
fn creating_ops_for_non_root_caller_file_handles() {
    let (n, d, l, c, owners) = run(true);
    // expected: all four succeed, as they do with plain O_PATH descriptors and as mkdirat/symlinkat/open do for uid 1000 on the host
    assert_eq!((n, d, l, c), (Ok(()), Ok(()), Ok(()), Ok(())), "(mknod, mkdir, symlink, create-of-existing) for uid 1000 under inode_file_handles; Err(1) = EPERM");
    assert_eq!(owners, vec![("d".into(), 1000, 1000), ("l".into(), 1000, 1000), ("n".into(), 1000, 1000)]);
}
