// Reproductions of the FuseDevWriter findings of unit `fusedevw` / `asyncdevw` (properties C04, C20, C01) against the real crate,
// public API only.  Place as tests/repro_fusedevw.rs in a checkout of fuse-backend-rs and run
//     cargo test --offline --test repro_fusedevw                          (F1)
//     cargo test --offline --features async-io --test repro_fusedevw      (F1 + F2)
// Each test fails on a tree that has the defect and passes once it is repaired.
use std::io::{Read, Seek, SeekFrom, Write};
use std::os::unix::io::AsRawFd;

use fuse_backend_rs::transport::FuseDevWriter;
use vmm_sys_util::tempfile::TempFile;

// F1 (C04 "bytes placed are exactly the concatenation written", C01 "never crash"): FuseDevWriter::write_all_from on a writer that was
// NOT split (unbuffered: every write goes straight to /dev/fuse).  When the file delivers the data in more than one read - here: it is
// shorter than `count` - the first chunk is sent to the device as a message of its own, and the second round trips
// `assert!(self.buffered || self.buf.is_empty())` in check_available_space: a panic instead of the WriteZero error a buffered writer returns.
// Obligation: [C04.fdw.write_all_from.buffered_only] (the precondition the function needs to be verified at all).
#[test]
fn f1_write_all_from_unbuffered_short_read_must_not_panic() {
    let dev = TempFile::new().unwrap().into_file(); // stands for /dev/fuse
    let mut src = TempFile::new().unwrap().into_file();
    src.write_all(&[0xabu8; 16]).unwrap();
    src.seek(SeekFrom::Start(0)).unwrap();

    let mut mem = vec![0u8; 64];
    let fd = dev.as_raw_fd();
    let res = std::panic::catch_unwind(std::panic::AssertUnwindSafe(|| {
        let mut w = FuseDevWriter::<()>::new(fd, &mut mem).unwrap();
        w.write_all_from(&mut src, 32) // 32 bytes asked, the file has 16
    }));
    let mut on_device = Vec::new();
    let mut d = dev.try_clone().unwrap();
    d.seek(SeekFrom::Start(0)).unwrap();
    d.read_to_end(&mut on_device).unwrap();
    assert!(res.is_ok(), "write_all_from panicked on an unbuffered writer after a short read ({} bytes already on the device)", on_device.len());
    assert!(res.unwrap().is_err(), "write_all_from must fail: the file is shorter than the amount asked for");
    assert!(on_device.is_empty(), "a failed write_all_from left a partial message of {} bytes on the device", on_device.len());
}

// F2 (C20 "the async path behaves like the sync path", C04 "appended at the end, in order"): FuseDevWriter::async_write_from_at hands the
// file a window that starts at the START of the writer's buffer (`from_raw_ptr(self.buf.as_mut_ptr(), 0, count)`), the sync write_from_at
// one that starts behind the bytes already written (`as_mut_ptr().add(self.buf.len())`).  A second transfer into the same writer therefore
// overwrites the first one, and the bytes it accounts for are whatever the buffer held.
// Obligation: [C04.fdw.write_from.behind_accounted] at async_write_from_at (unit asyncdevw).  Repaired in /repo by 29eee25.
#[cfg(feature = "async-io")]
#[test]
fn f2_async_write_from_at_appends_like_the_sync_twin() {
    use fuse_backend_rs::async_file::File;
    use fuse_backend_rs::async_runtime;

    let dir = vmm_sys_util::tempdir::TempDir::new().unwrap();
    let path = dir.as_path().to_path_buf().join("data");
    let data: Vec<u8> = (0u8..64).collect();
    std::fs::write(&path, &data).unwrap();

    let run = |use_async: bool| -> Vec<u8> {
        let dev = TempFile::new().unwrap().into_file();
        let mut mem = vec![0xeeu8; 64];
        let mem_static = unsafe { std::mem::transmute::<&mut [u8], &'static mut [u8]>(&mut mem[..]) };
        let mut w = FuseDevWriter::<()>::new(dev.as_raw_fd(), mem_static).unwrap();
        let mut data_w = w.split_at(0).unwrap(); // buffered data writer, as the READ handler uses it
        if use_async {
            async_runtime::block_on(async {
                let f = File::async_open(&path, true, false).await.unwrap();
                assert_eq!(data_w.async_write_from_at(&f, 8, 0).await.unwrap(), 8);
                assert_eq!(data_w.async_write_from_at(&f, 8, 32).await.unwrap(), 8);
            });
        } else {
            let mut f = std::fs::File::open(&path).unwrap();
            assert_eq!(data_w.write_from_at(&mut f, 8, 0).unwrap(), 8);
            assert_eq!(data_w.write_from_at(&mut f, 8, 32).unwrap(), 8);
        }
        assert_eq!(data_w.bytes_written(), 16);
        w.commit(Some(&data_w.into())).unwrap();
        let mut out = Vec::new();
        let mut d = dev.try_clone().unwrap();
        d.seek(SeekFrom::Start(0)).unwrap();
        d.read_to_end(&mut out).unwrap();
        out
    };
    let want: Vec<u8> = data[0..8].iter().chain(data[32..40].iter()).copied().collect();
    assert_eq!(run(false), want, "sync path: the two transfers are not concatenated");
    assert_eq!(run(true), want, "async path: the second transfer did not land behind the first one");
}
