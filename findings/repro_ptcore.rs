// Reproduction of the finding of unit `ptcore` (P1 of that unit; property C05) against the real crate, public API only.
// Place as tests/repro_ptcore.rs in a checkout of fuse-backend-rs and run `cargo test --offline --test repro_ptcore` (as root, like the other reproductions).
//
// Failing obligations on the unchanged tree (python3 tools_run_unit.py ptcore):
//     C05.core.reopen.never_creates      at  src/passthrough/util.rs  reopen_fd_through_proc   (postcondition)
//     C05.core.openat.mode_when_needed   at  src/passthrough/util.rs  reopen_fd_through_proc   (precondition of its call of openat)
//
// C05: "... Objects created for a non-root caller are owned by that caller ..." and "(special files are looked up but never opened for I/O)" -
// OPEN is not one of the operations that create an object.  reopen_fd_through_proc() turns the inode's O_PATH descriptor into an I/O descriptor with
//     openat(proc_self_fd, "<fd>", flags & !O_NOFOLLOW & !O_CREAT)            // 3 arguments: no mode
// where `flags` are the flags of the client's OPEN request (open_inode passes them on, only O_DIRECT and the writeback bits are looked at).  O_CREAT is
// cleared ("nothing is created through /proc/self/fd, and no mode is passed"), but O_TMPFILE is not: open(2) - "The mode argument must be supplied if
// O_CREAT or O_TMPFILE is specified in flags; if it is not supplied, some arbitrary bytes from the stack will be applied as the file mode."
//
// History: a client with uid 1000 sends OPEN(nodeid = a directory it may not even write, flags = O_TMPFILE | O_RDWR).  The kernel FUSE client never does that
// (it has FUSE_TMPFILE), a virtio-fs guest or any raw /dev/fuse client can.  The server answers with a handle on a NEW anonymous regular file in the exported
// file system that is owned by root:root (the server's ids: OPEN does not switch credentials) and whose permission bits are whatever was in the register
// (0o002 on the test machine) - the client can write to it without any quota or permission check of its own ids applying.
use std::os::unix::fs::PermissionsExt;

use fuse_backend_rs::api::filesystem::{Context, FileSystem};
use fuse_backend_rs::passthrough::{Config, PassthroughFs};
use vmm_sys_util::tempdir::TempDir;

const ROOT_ID: u64 = 1;
// descriptor counts are per process: the tests of this file must not overlap
static SERIAL: std::sync::Mutex<()> = std::sync::Mutex::new(());
fn serial() -> std::sync::MutexGuard<'static, ()> {
    SERIAL.lock().unwrap_or_else(|e| e.into_inner())
}

fn open_fds() -> usize {
    std::fs::read_dir("/proc/self/fd").unwrap().count()
}

fn new_fs(dir: &TempDir, inode_file_handles: bool) -> PassthroughFs<()> {
    let cfg = Config {
        root_dir: dir.as_path().to_string_lossy().to_string(),
        do_import: true,
        inode_file_handles,
        ..Default::default()
    };
    let fs = PassthroughFs::<()>::new(cfg).unwrap();
    fs.import().unwrap();
    fs
}

// FAILS on the unchanged tree (HEAD cde656c)
#[test]
fn p1_open_with_o_tmpfile_creates_a_root_owned_object() {
    let _g = serial();
    let dir = TempDir::new().unwrap();
    // the export root is not writable for the caller: a host open(dir, O_TMPFILE | O_RDWR, mode) by uid 1000 would be refused with EACCES
    std::fs::set_permissions(dir.as_path(), std::fs::Permissions::from_mode(0o755)).unwrap();
    let fs = new_fs(&dir, false);
    let ctx = Context { uid: 1000, gid: 1000, ..Default::default() };

    let r = fs.open(&ctx, ROOT_ID, (libc::O_TMPFILE | libc::O_RDWR) as u32, 0);
    match r {
        Err(_) => {} // refused: nothing was created
        Ok((Some(h), _, _)) => {
            let (st, _) = fs.getattr(&ctx, ROOT_ID, Some(h)).unwrap();
            let is_new_object = st.st_mode & libc::S_IFMT == libc::S_IFREG && st.st_nlink == 0;
            assert!(
                !is_new_object,
                "OPEN(directory, O_TMPFILE | O_RDWR) by uid 1000 returned a handle on a NEW anonymous regular file: owner {}:{} (caller 1000:1000), mode {:o} (no mode was passed to openat)",
                st.st_uid, st.st_gid, st.st_mode & 0o7777
            );
        }
        Ok((None, _, _)) => {}
    }
}

// The remaining tests PASS: they confirm on the real crate what the unit's ownership model (A-own) says about descriptors.
// import() twice: the root entry is replaced and the first root descriptor is closed - no descriptor is left behind
#[test]
fn ok_import_twice_replaces_the_root_without_leak() {
    let _g = serial();
    let dir = TempDir::new().unwrap();
    let fs = new_fs(&dir, false);
    let n1 = open_fds();
    fs.import().unwrap();
    fs.import().unwrap();
    assert_eq!(open_fds(), n1, "a second import must close the descriptor of the root object it replaces");
    // the root still resolves
    assert!(fs.getattr(&Context::default(), ROOT_ID, None).is_ok());
}

// destroy(): every descriptor owned by an inode or a handle is closed; afterwards the server holds what a freshly started and imported one holds
#[test]
fn ok_destroy_leaves_what_a_fresh_server_holds() {
    let _g = serial();
    for handles in [false, true] {
        let dir = TempDir::new().unwrap();
        std::fs::write(dir.as_path().join("a"), b"x").unwrap();
        std::fs::create_dir(dir.as_path().join("d")).unwrap();
        let fs = new_fs(&dir, handles);
        let fresh = open_fds();
        let ctx = Context::default();
        let a = fs.lookup(&ctx, ROOT_ID, &std::ffi::CString::new("a").unwrap()).unwrap();
        let _d = fs.lookup(&ctx, ROOT_ID, &std::ffi::CString::new("d").unwrap()).unwrap();
        let _h = fs.open(&ctx, a.inode, libc::O_RDONLY as u32, 0).unwrap();
        fs.destroy();
        assert_eq!(open_fds(), fresh, "inode_file_handles = {}: descriptors after destroy vs. a freshly imported server", handles);
        assert!(fs.getattr(&ctx, a.inode, None).is_err(), "inode numbers of the previous session do not resolve after destroy");
        assert!(fs.getattr(&ctx, ROOT_ID, None).is_ok(), "the root is re-imported");
    }
}

// readlinkat_proc_file reads exactly the link of the inode's own descriptor
#[test]
fn ok_readlinkat_proc_file_names_the_inode() {
    let _g = serial();
    let dir = TempDir::new().unwrap();
    std::fs::write(dir.as_path().join("a"), b"x").unwrap();
    let fs = new_fs(&dir, false);
    let ctx = Context::default();
    let a = fs.lookup(&ctx, ROOT_ID, &std::ffi::CString::new("a").unwrap()).unwrap();
    let before = open_fds();
    let p = fs.readlinkat_proc_file(a.inode).unwrap();
    assert_eq!(p, std::fs::canonicalize(dir.as_path().join("a")).unwrap());
    assert_eq!(open_fds(), before);
    assert!(fs.readlinkat_proc_file(a.inode + 1000).is_err());
}
