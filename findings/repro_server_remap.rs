// D20 (C01, obligation C01.handle_message.answered, unit `server`): a request whose caller ids the filesystem cannot translate
// (FileSystem::id_remap / id_remap_with_nodeid returns Err - the trait makes that a legal outcome) got NO reply: handle_message left
// through `self.remap_ctx_ids(&mut ctx)?` before anything was written, so the client waited for ever.  Public API only.
// Place as tests/repro_server_remap.rs in a checkout of fuse-backend-rs and run
//     cargo test --offline --test repro_server_remap
// (async_handle_message has the same prologue and got the same repair; unit asyncsrv checks it against the same contract)
// The tests fail on a tree with the defect and pass once it is fixed.
use std::io::{self, Read, Seek, SeekFrom};
use std::os::unix::io::AsRawFd;
use std::sync::Arc;

use fuse_backend_rs::abi::fuse_abi::*;
use fuse_backend_rs::api::filesystem::{Context, FileSystem};
use fuse_backend_rs::api::server::Server;
use fuse_backend_rs::transport::{FuseBuf, FuseDevWriter, Reader};
use vm_memory::ByteValued;

struct Strict;
impl FileSystem for Strict {
    type Inode = u64;
    type Handle = u64;
    // only uid 0..1000 can be translated
    fn id_remap(&self, ctx: &mut Context) -> io::Result<()> {
        if ctx.uid >= 1000 {
            return Err(io::Error::from_raw_os_error(libc::EOVERFLOW));
        }
        Ok(())
    }
}

fn run(opcode: u32, uid: u32, body: &[u8]) -> (Vec<u8>, bool) {
    let server = Server::new(Arc::new(Strict));
    let hdr = InHeader { len: 40 + body.len() as u32, opcode, unique: 0x77, nodeid: 1, uid, gid: 0, pid: 1, padding: 0 };
    let mut req = hdr.as_slice().to_vec();
    req.extend_from_slice(body);
    let mut file = vmm_sys_util::tempfile::TempFile::new().unwrap().into_file();
    let mut wbuf = vec![0u8; 8192];
    let reader = Reader::<()>::from_fuse_buffer(FuseBuf::new(&mut req)).unwrap();
    let writer = FuseDevWriter::<()>::new(file.as_raw_fd(), &mut wbuf).unwrap();
    let ret = server.handle_message(reader, writer.into(), None, None);
    let mut dev = Vec::new();
    file.seek(SeekFrom::Start(0)).unwrap();
    file.read_to_end(&mut dev).unwrap();
    (dev, ret.is_ok())
}

#[test]
fn getattr_from_an_untranslatable_uid_is_answered() {
    let body = GetattrIn { flags: 0, dummy: 0, fh: 0 };
    let (dev, _) = run(Opcode::Getattr as u32, 5000, body.as_slice());
    assert_eq!(dev.len(), 16, "exactly one error reply (a bare fuse_out_header) must reach the device");
    let out = OutHeader::from_slice(&dev).unwrap();
    assert_eq!((out.len, out.unique), (16, 0x77));
    assert!(out.error < 0, "error reply");
}

#[test]
fn forget_from_an_untranslatable_uid_stays_silent() {
    let body = ForgetIn { nlookup: 1 };
    let (dev, _) = run(Opcode::Forget as u32, 5000, body.as_slice());
    assert!(dev.is_empty(), "FORGET never gets a reply");
}

#[test]
fn translatable_uid_is_unaffected() {
    let body = GetattrIn { flags: 0, dummy: 0, fh: 0 };
    let (dev, ok) = run(Opcode::Getattr as u32, 10, body.as_slice());
    assert!(ok);
    assert_eq!(dev.len(), 16); // ENOSYS from the default getattr
    assert_eq!(OutHeader::from_slice(&dev).unwrap().error, -libc::ENOSYS);
}
