// Reproduction of the findings of unit ovl_bk (property C10: "... updated by each operation as an ordinary filesystem would be") against the real crate,
// public API only.  Place as tests/repro_overlay_bk.rs in a checkout of fuse-backend-rs and run `cargo test --offline --test repro_overlay_bk` (as root).
// Every k1 / k2 / k3 test FAILS on a tree that has the deviation and passes once it is repaired; k0 (sanity) passes.  On b095594 (/repo HEAD): k1a, k1b, k2, k3 fail.
//
// K1  [C10.bk.do_mkdir.parent_link] (and .do_mknod / .do_create / .do_symlink / .do_link / .do_rm .parent_link)
//     A node made at run time (do_mkdir, do_create, do_mknod, do_symlink, do_link, the whiteout node of do_rm) is entered into its parent's children
//     table and into the store, but its `parent` link is never set: OverlayInode::new_from_real_inode leaves `Weak::new()`, only load_directory sets the
//     link.  The live view shows it where the link is read: READDIR / READDIRPLUS of a directory made by MKDIR lists ".." with the attributes of the ROOT
//     (do_readdir: `parent.upgrade()` else root_node()): the d_ino of ".." is the root's, READDIRPLUS hands out the root's inode number 1 for "..".
//     An ordinary file system lists the parent directory there.  (The same directory lists its true parent after a restart: load_directory sets the link.)
// K2  [C10.bk.do_rm.err_unchanged]
//     do_rm removes the node from the live view (store, parent's table, own reference) and - for an upper file - unlinks it in the upper layer BEFORE it
//     creates the whiteout; when the whiteout cannot be made the operation returns the error, but the removal has happened: UNLINK answers EPERM and
//     the name is gone from LOOKUP / READDIR, although the lower file still exists (and is back after a restart).  Shown with an upper file system that has
//     no inode left (ENOSPC); the same happens for EDQUOT, EROFS after a remount, EIO, and - on kernels before 5.8, where mknod of the 0/0 character device
//     needs CAP_MKNOD - for EVERY non-root caller, because the whiteout is made with the caller's credentials.  An ordinary file system (and kernel
//     overlayfs) leaves the file where it is when unlink fails.
// K3  [C10.bk.do_link.post] (what the code does, judged against the property)
//     LINK enters a NEW node with a NEW inode number for the new name (do_link: alloc_inode + new_from_real_inode); on an ordinary file system both names
//     are ONE inode: same number in the LINK reply as the source's, one set of references, one cache.  Here the client sees two inodes that happen to
//     share st_ino / st_nlink = 2 in their attributes.
use std::ffi::CString;
use std::fs;
use std::path::Path;
use std::sync::{Arc, Mutex};

use fuse_backend_rs::abi::fuse_abi::CreateIn;
use fuse_backend_rs::api::filesystem::{Context, Entry, FileSystem, Layer};
use fuse_backend_rs::overlayfs::config::Config;
use fuse_backend_rs::overlayfs::OverlayFs;
use fuse_backend_rs::passthrough::{self, PassthroughFs};
use vmm_sys_util::tempdir::TempDir;

const ROOT_ID: u64 = 1;
type BoxedLayer = Box<dyn Layer<Inode = u64, Handle = u64> + Send + Sync>;

// the credential switch of the passthrough layer is per thread, but keep the tests apart all the same
static SERIAL: Mutex<()> = Mutex::new(());

fn layer(dir: &Path) -> Arc<BoxedLayer> {
    let mut config = passthrough::Config::default();
    config.root_dir = dir.to_string_lossy().to_string();
    config.xattr = true;
    config.do_import = true;
    let fs = Box::new(PassthroughFs::<()>::new(config).unwrap());
    fs.import().unwrap();
    Arc::new(fs as BoxedLayer)
}

fn overlay(upper: Option<&Path>, lowers: &[&Path]) -> OverlayFs {
    let mut config = Config::default();
    config.do_import = true;
    let fs = OverlayFs::new(upper.map(layer), lowers.iter().map(|p| layer(p)).collect(), config).unwrap();
    fs.import().unwrap();
    fs
}

fn c(s: &str) -> CString {
    CString::new(s).unwrap()
}

fn lookup(fs: &OverlayFs, parent: u64, name: &str) -> Option<Entry> {
    match fs.lookup(&Context::default(), parent, &c(name)) {
        Ok(e) if e.inode != 0 => Some(e),
        _ => None,
    }
}

fn create(fs: &OverlayFs, parent: u64, name: &str) -> Entry {
    let ctx = Context::default();
    let args = CreateIn { flags: (libc::O_CREAT | libc::O_WRONLY) as u32, mode: 0o644, umask: 0, fuse_flags: 0 };
    let (e, h, _, _) = fs.create(&ctx, parent, &c(name), args).unwrap();
    if let Some(h) = h {
        fs.release(&ctx, e.inode, 0, h, true, true, None).unwrap();
    }
    e
}

// (name, d_ino) of every entry a READDIR of `dir` lists
fn listing(fs: &OverlayFs, dir: u64) -> Vec<(String, u64)> {
    let ctx = Context::default();
    let mut out = Vec::new();
    let mut offset = 0u64;
    loop {
        let mut got = 0;
        fs.readdir(&ctx, dir, 0, 65536, offset, &mut |d| {
            got += 1;
            offset = d.offset;
            out.push((String::from_utf8_lossy(d.name).to_string(), d.ino));
            Ok(1)
        })
        .unwrap();
        if got == 0 {
            break;
        }
    }
    out
}

// K0 (sanity, passes): create / mkdir / unlink / rmdir as root keep LOOKUP and READDIR in step with the layers.
#[test]
fn k0_enter_and_remove_names() {
    let _g = SERIAL.lock().unwrap_or_else(|e| e.into_inner());
    let (up, low) = (TempDir::new().unwrap(), TempDir::new().unwrap());
    fs::write(low.as_path().join("l"), b"lower").unwrap();
    let fs = overlay(Some(up.as_path()), &[low.as_path()]);
    let ctx = Context::default();
    let f = create(&fs, ROOT_ID, "f");
    let d = fs.mkdir(&ctx, ROOT_ID, &c("d"), 0o755, 0).unwrap();
    assert_ne!(f.inode, d.inode);
    let names: Vec<String> = listing(&fs, ROOT_ID).into_iter().map(|x| x.0).collect();
    for n in ["f", "d", "l"] {
        assert!(names.contains(&n.to_string()), "{} not listed: {:?}", n, names);
    }
    fs.unlink(&ctx, ROOT_ID, &c("f")).unwrap();
    fs.unlink(&ctx, ROOT_ID, &c("l")).unwrap();
    fs.rmdir(&ctx, ROOT_ID, &c("d")).unwrap();
    assert!(lookup(&fs, ROOT_ID, "f").is_none() && lookup(&fs, ROOT_ID, "l").is_none() && lookup(&fs, ROOT_ID, "d").is_none());
    let names: Vec<String> = listing(&fs, ROOT_ID).into_iter().map(|x| x.0).filter(|n| n != "." && n != "..").collect();
    assert!(names.is_empty(), "still listed: {:?}", names);
}

// K1a: ".." of a directory made by MKDIR is its parent directory.
#[test]
fn k1a_dotdot_of_a_new_directory_is_its_parent() {
    let _g = SERIAL.lock().unwrap_or_else(|e| e.into_inner());
    let (up, low) = (TempDir::new().unwrap(), TempDir::new().unwrap());
    fs::create_dir(low.as_path().join("a")).unwrap();
    let fs = overlay(Some(up.as_path()), &[low.as_path()]);
    let ctx = Context::default();
    let a = lookup(&fs, ROOT_ID, "a").expect("a visible");
    let b = fs.mkdir(&ctx, a.inode, &c("b"), 0o755, 0).unwrap();
    let (a_attr, _) = fs.getattr(&ctx, a.inode, None).unwrap(); // `a` as it is now (copied up by the mkdir)
    let (root_attr, _) = fs.getattr(&ctx, ROOT_ID, None).unwrap();
    assert_ne!(a_attr.st_ino, root_attr.st_ino);
    let l = listing(&fs, b.inode);
    let dotdot = l.iter().find(|x| x.0 == "..").expect(".. listed").1;
    assert_eq!(dotdot, a_attr.st_ino,
        "READDIR of /a/b (made by MKDIR) lists \"..\" with d_ino {} - the ROOT's ({}); its parent /a has {}: the new node's parent link was never set",
        dotdot, root_attr.st_ino, a_attr.st_ino);
}

// K1b: the same through READDIRPLUS: the entry handed out for ".." is the parent's, not inode 1.
#[test]
fn k1b_readdirplus_dotdot_of_a_new_directory_is_its_parent() {
    let _g = SERIAL.lock().unwrap_or_else(|e| e.into_inner());
    let (up, low) = (TempDir::new().unwrap(), TempDir::new().unwrap());
    fs::create_dir(low.as_path().join("a")).unwrap();
    let fs = overlay(Some(up.as_path()), &[low.as_path()]);
    let ctx = Context::default();
    let a = lookup(&fs, ROOT_ID, "a").expect("a visible");
    let b = fs.mkdir(&ctx, a.inode, &c("b"), 0o755, 0).unwrap();
    let mut dotdot = None;
    fs.readdirplus(&ctx, b.inode, 0, 65536, 0, &mut |d, e| {
        if d.name == b".." {
            dotdot = Some(e.inode);
        }
        Ok(1)
    })
    .unwrap();
    assert_eq!(dotdot, Some(a.inode), "READDIRPLUS of /a/b hands out inode {:?} for \"..\"; the parent /a is inode {}", dotdot, a.inode);
}

// a tmpfs with `inodes` inodes (the root directory takes one) mounted on `dir`; unmounted on drop.  None: mounting is not possible here (not root)
struct TmpfsMount(CString);
impl TmpfsMount {
    fn new(dir: &Path, inodes: u32) -> Option<TmpfsMount> {
        let target = CString::new(dir.to_string_lossy().as_bytes()).unwrap();
        let opts = CString::new(format!("nr_inodes={},size=1m,mode=0777", inodes)).unwrap();
        let t = CString::new("tmpfs").unwrap();
        let rc = unsafe { libc::mount(t.as_ptr(), target.as_ptr(), t.as_ptr(), 0, opts.as_ptr() as *const libc::c_void) };
        if rc == 0 {
            Some(TmpfsMount(target))
        } else {
            None
        }
    }
}
impl Drop for TmpfsMount {
    fn drop(&mut self) {
        unsafe { libc::umount2(self.0.as_ptr(), libc::MNT_DETACH) };
    }
}

// K2: an UNLINK that fails leaves the file in the view.  The upper layer has no inode left (a tmpfs with nr_inodes, filled): the whiteout for the lower
// file `a` cannot be made, UNLINK answers ENOSPC - after the node has been taken out of the live view.  (Kernel overlayfs: the unlink fails, `a` stays.)
#[test]
fn k2_failed_unlink_leaves_the_name_in_the_view() {
    let _g = SERIAL.lock().unwrap_or_else(|e| e.into_inner());
    let (up, low) = (TempDir::new().unwrap(), TempDir::new().unwrap());
    fs::write(low.as_path().join("a"), b"lower").unwrap();
    let _mnt = match TmpfsMount::new(up.as_path(), 2) {
        Some(m) => m,
        None => {
            eprintln!("k2: cannot mount a tmpfs here (not root?): skipped");
            return;
        }
    };
    fs::write(up.as_path().join("filler"), b"").unwrap(); // the last inode of the upper file system
    assert!(fs::write(up.as_path().join("probe"), b"").is_err(), "the upper file system is expected to be full");
    let fs = overlay(Some(up.as_path()), &[low.as_path()]);
    let ctx = Context::default();
    assert!(lookup(&fs, ROOT_ID, "a").is_some(), "a visible");
    let res = fs.unlink(&ctx, ROOT_ID, &c("a"));
    let visible = lookup(&fs, ROOT_ID, "a").is_some();
    let listed = listing(&fs, ROOT_ID).iter().any(|x| x.0 == "a");
    let lower_there = low.as_path().join("a").is_file();
    let whiteout_there = up.as_path().join("a").exists();
    let restart_shows = lookup(&overlay(Some(up.as_path()), &[low.as_path()]), ROOT_ID, "a").is_some();
    assert!(res.is_ok() || (visible && listed),
        "UNLINK a -> errno {:?}, yet LOOKUP a -> {}, READDIR lists a: {}; lower file still there: {}, whiteout in the upper layer: {}, visible after a restart: {}: the failed unlink removed the name from the live view",
        res.as_ref().err().and_then(|e| e.raw_os_error()), if visible { "found" } else { "ENOENT" }, listed, lower_there, whiteout_there, restart_shows);
}

// K3: LINK: the new name is the same inode as the old one.
#[test]
fn k3_link_is_the_same_inode() {
    let _g = SERIAL.lock().unwrap_or_else(|e| e.into_inner());
    let (up, low) = (TempDir::new().unwrap(), TempDir::new().unwrap());
    let fs = overlay(Some(up.as_path()), &[low.as_path()]);
    let ctx = Context::default();
    let a = create(&fs, ROOT_ID, "a");
    let b = fs.link(&ctx, a.inode, ROOT_ID, &c("b")).unwrap();
    assert_eq!(b.attr.st_nlink, 2);
    assert_eq!(b.attr.st_ino, a.attr.st_ino, "the layer's inode is one");
    let a2 = lookup(&fs, ROOT_ID, "a").unwrap();
    let b2 = lookup(&fs, ROOT_ID, "b").unwrap();
    assert_eq!(a2.inode, a.inode);
    assert_eq!(b2.inode, b.inode);
    assert_eq!(b.inode, a.inode, "LINK a -> b answers with inode {} for b, a is inode {}: two overlay inodes for one file (st_ino {} and st_nlink {} agree)", b.inode, a.inode, b.attr.st_ino, b.attr.st_nlink);
}
