// Reproduction of the overlay READ-SIDE findings (property C10, unit ovl_read) against the real crate, public API only.
// Place as tests/repro_overlay_read.rs in a checkout of fuse-backend-rs and run `cargo test --offline --test repro_overlay_read`.
// r1_* FAIL on a tree that has the defect and pass once it is repaired; s*_ (sanity / observations) pass and pin the behaviour described.
//
// C10: "the tree visible through the overlay equals the union defined by overlayfs rules (TOPMOST ENTRY WINS, directories merge, whiteouts hide,
// opaque directories cut off lower contents) ... No byte, name, MODE or extended attribute in any lower layer ever changes ..."
//
// R1  [C10.read.stat64_ignore_enoent.only_missing]  RealInode::stat64_ignore_enoent is meant to turn "this layer does not have the object" (ENOENT,
//     ENAMETOOLONG) into Ok(None) = "look further down" and to hand every other error on.  Its test reads
//         if raw_error != libc::ENOENT || raw_error != libc::ENAMETOOLONG { return Ok(None); }
//     which is true for EVERY errno (no number equals both): any error of a layer's getattr - EIO, EACCES, ESTALE, ENOMEM - is swallowed.
//     OverlayInode::stat64 (the attributes LOOKUP / CREATE / MKDIR .. / READDIRPLUS reply with, and what lookup_node / do_lookup decide "is a
//     directory" by) walks the node's real inodes top down and takes the first Some: when the TOPMOST layer fails, the client is handed the
//     attributes of a LOWER layer's directory (its mode, owner, times, st_ino) as if they were the merged directory's, although the topmost entry
//     exists and wins.  History: lower/d (0755), upper/d (0700); the upper layer's getattr(d) fails with EIO: LOOKUP(root, "d") answers Ok with
//     mode 0755 (GETATTR, which asks the topmost layer directly, answers EIO for the same inode).
//     The failing layer is simulated by a wrapper around PassthroughFs (the Layer trait is public: any implementor may be a layer).
//
// S1  (observation, [C10.read.do_statvfs.one_layer] says what the code does)  STATFS asks ONE layer: the layer of the FIRST real inode of the node the
//     request names - not the root's, not the upper layer's.  For a file that exists only in a lower layer the client is told the block counts of
//     the LOWER file system, although every write to that file goes (after copy-up) to the upper one; the kernel's overlayfs always reports the
//     upper file system.  s1 shows which layer is asked with two counting wrapper layers.
// S2  (observation, [C10.read.import.post] says what the code does)  import(): a failing load of the root directory returns Err but leaves the root
//     REGISTERED (number 1 resolves, not loaded); every later lookup loads it on demand.  A failing is_opaque leaves nothing registered.  s2 pins both.
use std::ffi::{CStr, CString};
use std::fs;
use std::io;
use std::os::unix::fs::PermissionsExt;
use std::path::Path;
use std::sync::atomic::{AtomicU64, Ordering};
use std::sync::Arc;
use std::time::Duration;

use fuse_backend_rs::abi::fuse_abi::{stat64, statvfs64};
use fuse_backend_rs::api::filesystem::{
    Context, DirEntry, Entry, FileSystem, GetxattrReply, Layer, ListxattrReply, OpenOptions, ZeroCopyWriter,
};
use fuse_backend_rs::overlayfs::config::Config;
use fuse_backend_rs::overlayfs::OverlayFs;
use fuse_backend_rs::passthrough::{self, PassthroughFs};
use vmm_sys_util::tempdir::TempDir;

const ROOT_ID: u64 = 1;
type BoxedLayer = Box<dyn Layer<Inode = u64, Handle = u64> + Send + Sync>;

fn pt(dir: &Path) -> PassthroughFs<()> {
    let mut config = passthrough::Config::default();
    config.root_dir = dir.to_string_lossy().to_string();
    config.xattr = true;
    config.do_import = true;
    let fs = PassthroughFs::<()>::new(config).unwrap();
    fs.import().unwrap();
    fs
}

// a layer that forwards to a PassthroughFs; getattr of the inode `fail_ino` (0 = none) fails with `errno`; statfs calls are counted
struct Wrapped {
    inner: PassthroughFs<()>,
    fail_ino: AtomicU64,
    errno: i32,
    statfs_calls: AtomicU64,
    fail_opaque_root: AtomicU64,
}

impl Wrapped {
    fn new(dir: &Path, errno: i32) -> Arc<Wrapped> {
        Arc::new(Wrapped { inner: pt(dir), fail_ino: AtomicU64::new(0), errno, statfs_calls: AtomicU64::new(0), fail_opaque_root: AtomicU64::new(0) })
    }
}

// Box<dyn Layer> needs an owned implementor: a handle on the shared wrapper
struct Handle(Arc<Wrapped>);

impl FileSystem for Handle {
    type Inode = u64;
    type Handle = u64;

    fn lookup(&self, ctx: &Context, parent: u64, name: &CStr) -> io::Result<Entry> {
        self.0.inner.lookup(ctx, parent, name)
    }
    fn forget(&self, ctx: &Context, inode: u64, count: u64) {
        self.0.inner.forget(ctx, inode, count)
    }
    fn getattr(&self, ctx: &Context, inode: u64, handle: Option<u64>) -> io::Result<(stat64, Duration)> {
        if inode != 0 && inode == self.0.fail_ino.load(Ordering::Relaxed) {
            return Err(io::Error::from_raw_os_error(self.0.errno));
        }
        self.0.inner.getattr(ctx, inode, handle)
    }
    fn readlink(&self, ctx: &Context, inode: u64) -> io::Result<Vec<u8>> {
        self.0.inner.readlink(ctx, inode)
    }
    fn open(&self, ctx: &Context, inode: u64, flags: u32, fuse_flags: u32) -> io::Result<(Option<u64>, OpenOptions, Option<u32>)> {
        self.0.inner.open(ctx, inode, flags, fuse_flags)
    }
    fn read(&self, ctx: &Context, inode: u64, handle: u64, w: &mut dyn ZeroCopyWriter, size: u32, offset: u64, lock_owner: Option<u64>, flags: u32) -> io::Result<usize> {
        self.0.inner.read(ctx, inode, handle, w, size, offset, lock_owner, flags)
    }
    fn release(&self, ctx: &Context, inode: u64, flags: u32, handle: u64, flush: bool, flock_release: bool, lock_owner: Option<u64>) -> io::Result<()> {
        self.0.inner.release(ctx, inode, flags, handle, flush, flock_release, lock_owner)
    }
    fn statfs(&self, ctx: &Context, inode: u64) -> io::Result<statvfs64> {
        self.0.statfs_calls.fetch_add(1, Ordering::Relaxed);
        self.0.inner.statfs(ctx, inode)
    }
    fn getxattr(&self, ctx: &Context, inode: u64, name: &CStr, size: u32) -> io::Result<GetxattrReply> {
        if inode == ROOT_ID && self.0.fail_opaque_root.load(Ordering::Relaxed) == 1 {
            return Err(io::Error::from_raw_os_error(libc::EIO));
        }
        self.0.inner.getxattr(ctx, inode, name, size)
    }
    fn listxattr(&self, ctx: &Context, inode: u64, size: u32) -> io::Result<ListxattrReply> {
        self.0.inner.listxattr(ctx, inode, size)
    }
    fn opendir(&self, ctx: &Context, inode: u64, flags: u32) -> io::Result<(Option<u64>, OpenOptions)> {
        if inode == ROOT_ID && self.0.fail_opaque_root.load(Ordering::Relaxed) == 2 {
            return Err(io::Error::from_raw_os_error(libc::EIO));
        }
        self.0.inner.opendir(ctx, inode, flags)
    }
    fn readdir(&self, ctx: &Context, inode: u64, handle: u64, size: u32, offset: u64, add_entry: &mut dyn FnMut(DirEntry) -> io::Result<usize>) -> io::Result<()> {
        self.0.inner.readdir(ctx, inode, handle, size, offset, add_entry)
    }
    fn releasedir(&self, ctx: &Context, inode: u64, flags: u32, handle: u64) -> io::Result<()> {
        self.0.inner.releasedir(ctx, inode, flags, handle)
    }
    fn access(&self, ctx: &Context, inode: u64, mask: u32) -> io::Result<()> {
        self.0.inner.access(ctx, inode, mask)
    }
}

impl Layer for Handle {
    fn root_inode(&self) -> u64 {
        ROOT_ID
    }
}

fn boxed(w: &Arc<Wrapped>) -> Arc<BoxedLayer> {
    Arc::new(Box::new(Handle(w.clone())) as BoxedLayer)
}

fn c(s: &str) -> CString {
    CString::new(s).unwrap()
}

fn overlay_new(upper: Option<&Arc<Wrapped>>, lowers: &[&Arc<Wrapped>]) -> OverlayFs {
    let mut config = Config::default();
    config.do_import = true;
    OverlayFs::new(upper.map(boxed), lowers.iter().map(|w| boxed(w)).collect(), config).unwrap()
}

fn overlay(upper: Option<&Arc<Wrapped>>, lowers: &[&Arc<Wrapped>]) -> OverlayFs {
    let fs = overlay_new(upper, lowers);
    fs.import().unwrap();
    fs
}

// the inode number layer `w` gives the child `name` of its root (reference given back)
fn layer_ino(w: &Arc<Wrapped>, name: &str) -> u64 {
    let ctx = Context::default();
    let e = w.inner.lookup(&ctx, ROOT_ID, &c(name)).unwrap();
    w.inner.forget(&ctx, e.inode, 1);
    e.inode
}

fn mkdir_mode(p: &Path, mode: u32) {
    fs::create_dir(p).unwrap();
    fs::set_permissions(p, fs::Permissions::from_mode(mode)).unwrap();
}

// sanity: with healthy layers the topmost entry's mode is what LOOKUP and GETATTR report
#[test]
fn s0_topmost_mode_wins() {
    let (up, low) = (TempDir::new().unwrap(), TempDir::new().unwrap());
    mkdir_mode(&low.as_path().join("d"), 0o755);
    mkdir_mode(&up.as_path().join("d"), 0o700);
    let (wu, wl) = (Wrapped::new(up.as_path(), libc::EIO), Wrapped::new(low.as_path(), libc::EIO));
    let fs = overlay(Some(&wu), &[&wl]);
    let ctx = Context::default();
    let e = fs.lookup(&ctx, ROOT_ID, &c("d")).unwrap();
    assert_eq!(e.attr.st_mode & 0o777, 0o700);
    let (st, _) = fs.getattr(&ctx, e.inode, None).unwrap();
    assert_eq!(st.st_mode & 0o777, 0o700);
}

// R1: the upper layer cannot stat its `d` (EIO): LOOKUP must not answer with the LOWER directory's attributes
#[test]
fn r1_error_of_topmost_layer_shows_lower_attributes() {
    let (up, low) = (TempDir::new().unwrap(), TempDir::new().unwrap());
    mkdir_mode(&low.as_path().join("d"), 0o755);
    mkdir_mode(&up.as_path().join("d"), 0o700);
    let (wu, wl) = (Wrapped::new(up.as_path(), libc::EIO), Wrapped::new(low.as_path(), libc::EIO));
    let fs = overlay(Some(&wu), &[&wl]);
    let ctx = Context::default();
    let e0 = fs.lookup(&ctx, ROOT_ID, &c("d")).unwrap();
    assert_eq!(e0.attr.st_mode & 0o777, 0o700, "healthy: the upper directory's mode");
    // from now on the upper layer fails getattr of its d
    wu.fail_ino.store(layer_ino(&wu, "d"), Ordering::Relaxed);
    let direct = fs.getattr(&ctx, e0.inode, None);
    assert_eq!(direct.err().and_then(|e| e.raw_os_error()), Some(libc::EIO), "GETATTR asks the topmost layer and reports its error");
    match fs.lookup(&ctx, ROOT_ID, &c("d")) {
        Err(e) => assert_eq!(e.raw_os_error(), Some(libc::EIO)),
        Ok(e) => assert_eq!(
            e.attr.st_mode & 0o777,
            0o700,
            "LOOKUP answered Ok with mode {:o}: the attributes of the LOWER directory, although the upper entry exists and its layer reported EIO",
            e.attr.st_mode & 0o777
        ),
    }
}

// the same with EACCES and for a name that is looked up for the first time after the layer started failing
#[test]
fn r1b_first_lookup_after_failure() {
    let (up, low) = (TempDir::new().unwrap(), TempDir::new().unwrap());
    mkdir_mode(&low.as_path().join("d"), 0o755);
    mkdir_mode(&up.as_path().join("d"), 0o700);
    let (wu, wl) = (Wrapped::new(up.as_path(), libc::EACCES), Wrapped::new(low.as_path(), libc::EACCES));
    let fs = overlay(Some(&wu), &[&wl]);
    let ctx = Context::default();
    wu.fail_ino.store(layer_ino(&wu, "d"), Ordering::Relaxed);
    match fs.lookup(&ctx, ROOT_ID, &c("d")) {
        Err(e) => assert_eq!(e.raw_os_error(), Some(libc::EACCES)),
        Ok(e) => assert_eq!(e.attr.st_mode & 0o777, 0o700, "LOOKUP answered Ok with the lower directory's mode {:o}", e.attr.st_mode & 0o777),
    }
}

// S1: which layer STATFS asks: the layer of the node's own topmost real inode
#[test]
fn s1_statfs_asks_the_nodes_first_layer() {
    let (up, low) = (TempDir::new().unwrap(), TempDir::new().unwrap());
    fs::write(low.as_path().join("lower_only"), b"x").unwrap();
    fs::write(up.as_path().join("upper_file"), b"y").unwrap();
    let (wu, wl) = (Wrapped::new(up.as_path(), libc::EIO), Wrapped::new(low.as_path(), libc::EIO));
    let fs = overlay(Some(&wu), &[&wl]);
    let ctx = Context::default();
    let lo = fs.lookup(&ctx, ROOT_ID, &c("lower_only")).unwrap().inode;
    let upf = fs.lookup(&ctx, ROOT_ID, &c("upper_file")).unwrap().inode;
    let calls = |w: &Arc<Wrapped>| w.statfs_calls.swap(0, Ordering::Relaxed);
    fs.statfs(&ctx, ROOT_ID).unwrap();
    assert_eq!((calls(&wu), calls(&wl)), (1, 0), "root: the upper layer, once");
    fs.statfs(&ctx, upf).unwrap();
    assert_eq!((calls(&wu), calls(&wl)), (1, 0), "a file of the upper layer: the upper layer, once");
    fs.statfs(&ctx, lo).unwrap();
    assert_eq!((calls(&wu), calls(&wl)), (0, 1), "a lower-only file: the LOWER layer only (what the code does; the kernel's overlayfs reports the upper file system)");
    assert_eq!(fs.statfs(&ctx, 12345).err().and_then(|e| e.raw_os_error()), Some(libc::ENOENT));
}

// S2: what a failing import() leaves behind
#[test]
fn s2_failed_import() {
    let (up, low) = (TempDir::new().unwrap(), TempDir::new().unwrap());
    fs::write(low.as_path().join("f"), b"x").unwrap();
    let ctx = Context::default();
    // (a) is_opaque of the upper root fails: nothing registered
    let (wu, wl) = (Wrapped::new(up.as_path(), libc::EIO), Wrapped::new(low.as_path(), libc::EIO));
    wu.fail_opaque_root.store(1, Ordering::Relaxed);
    let fs_a = overlay_new(Some(&wu), &[&wl]);
    assert!(fs_a.import().is_err());
    assert_eq!(fs_a.getattr(&ctx, ROOT_ID, None).err().and_then(|e| e.raw_os_error()), Some(libc::ENOENT), "no root registered");
    // (b) loading the root directory fails (the lower layer cannot open its root): Err, but the root IS registered; once the layer recovers the next lookup loads it
    let (wu, wl) = (Wrapped::new(up.as_path(), libc::EIO), Wrapped::new(low.as_path(), libc::EIO));
    wl.fail_opaque_root.store(2, Ordering::Relaxed);
    let fs_b = overlay_new(Some(&wu), &[&wl]);
    assert!(fs_b.import().is_err());
    // the number 1 resolves (no ENOENT): the request gets as far as loading the root directory again, which still fails
    assert_eq!(fs_b.getattr(&ctx, ROOT_ID, None).err().and_then(|e| e.raw_os_error()), Some(libc::EIO), "the root is registered although import() failed");
    wl.fail_opaque_root.store(0, Ordering::Relaxed);
    assert!(fs_b.getattr(&ctx, ROOT_ID, None).is_ok());
    assert!(fs_b.lookup(&ctx, ROOT_ID, &c("f")).is_ok(), "loaded on demand");
}
