// Reproduction of the overlay findings (properties C10 / C11) against the real crate, public API only.
// Place as tests/repro_overlay.rs in a checkout of fuse-backend-rs and run `cargo test --offline --test repro_overlay`.
// Every test FAILS on a tree that has the defect and passes once it is repaired.  On 12c2724: o1, o2, o3, o3b, o6, o7 and o4b fail
// (o4, o5 pass); with findings/overlay_lower_record.patch applied all nine pass (and the crate's own 134 tests still do).
//
// C11: "After any sequence of operations, a freshly started overlay over the same upper and lower directories presents exactly the tree
// the running instance presents: deletions stay deleted, a directory re-created over a deleted lower directory does not resurrect the
// old contents, and files first modified through the overlay show their complete prior content plus the modification."
// C10: "No byte, name, mode or extended attribute in any lower layer ever changes."
//
// Common cause of o1-o7: OverlayFs::do_rm leaves a whiteout only if `!node.upper_layer_only()`, i.e. only if the node still lists a lower
// real inode - but copy-up (add_upper_inode(.., true)), creating over a whiteout, mkdir over a whiteout and the scan itself
// (new_from_real_inodes keeps only the topmost non-directory / stops at an opaque directory) drop the lower real inodes, and a whiteout
// node never lists any.  do_mkdir's "set opaque" test has the same blind spot.  Obligations: C11.*.lower_record, C11.union.lower_record,
// C11.do_rm.whiteout_when_lower, C11.do_mkdir.opaque_when_lower (units ovl_ops / ovl_merge); o4b: ovl_ops.write.upper.
use std::ffi::CString;
use std::fs;
use std::io::{Seek, SeekFrom, Write};
use std::path::Path;
use std::sync::Arc;

use fuse_backend_rs::abi::fuse_abi::CreateIn;
use fuse_backend_rs::api::filesystem::{Context, FileSystem, Layer};
use fuse_backend_rs::overlayfs::config::Config;
use fuse_backend_rs::overlayfs::OverlayFs;
use fuse_backend_rs::passthrough::{self, PassthroughFs};
use vmm_sys_util::tempdir::TempDir;
use vmm_sys_util::tempfile::TempFile;

const ROOT_ID: u64 = 1;
type BoxedLayer = Box<dyn Layer<Inode = u64, Handle = u64> + Send + Sync>;

fn layer(dir: &Path) -> Arc<BoxedLayer> {
    let mut config = passthrough::Config::default();
    config.root_dir = dir.to_string_lossy().to_string();
    config.xattr = true;
    config.do_import = true;
    let fs = Box::new(PassthroughFs::<()>::new(config).unwrap());
    fs.import().unwrap();
    Arc::new(fs as BoxedLayer)
}

// a freshly started overlay over the given directories
fn overlay(upper: Option<&Path>, lowers: &[&Path]) -> OverlayFs {
    let mut config = Config::default();
    config.do_import = true;
    let fs = OverlayFs::new(upper.map(layer), lowers.iter().map(|p| layer(p)).collect(), config).unwrap();
    fs.import().unwrap();
    fs
}

fn c(s: &str) -> CString {
    CString::new(s).unwrap()
}

fn visible(fs: &OverlayFs, parent: u64, name: &str) -> Option<u64> {
    match fs.lookup(&Context::default(), parent, &c(name)) {
        Ok(e) if e.inode != 0 => Some(e.inode),
        _ => None,
    }
}

// names a READDIR of `dir` lists (without . and ..)
fn listing(fs: &OverlayFs, dir: u64) -> Vec<String> {
    let ctx = Context::default();
    let mut out = Vec::new();
    let mut offset = 0u64;
    loop {
        let mut got = 0;
        fs.readdir(&ctx, dir, 0, 65536, offset, &mut |d| {
            got += 1;
            offset = d.offset;
            let n = String::from_utf8_lossy(d.name).to_string();
            if n != "." && n != ".." {
                out.push(n);
            }
            Ok(1)
        })
        .unwrap();
        if got == 0 {
            break;
        }
    }
    out.sort();
    out
}

fn write_through(fs: &OverlayFs, ino: u64, data: &[u8], offset: u64) {
    let ctx = Context::default();
    let (h, _, _) = fs.open(&ctx, ino, libc::O_WRONLY as u32, 0).unwrap();
    let mut buf = TempFile::new().unwrap().into_file();
    buf.write_all(data).unwrap();
    buf.seek(SeekFrom::Start(0)).unwrap();
    let n = fs.write(&ctx, ino, h.unwrap(), &mut buf, data.len() as u32, offset, None, false, libc::O_WRONLY as u32, 0).unwrap();
    assert_eq!(n, data.len());
    fs.release(&ctx, ino, libc::O_WRONLY as u32, h.unwrap(), true, true, None).unwrap();
}

// O1: a lower file is modified through the overlay (copied up), then deleted.  The running instance no longer shows it;
// a fresh instance over the same directories must not show it either ("deletions stay deleted").
#[test]
fn o1_unlink_after_copy_up_stays_deleted() {
    let (up, low) = (TempDir::new().unwrap(), TempDir::new().unwrap());
    fs::write(low.as_path().join("f"), b"lower content").unwrap();
    {
        let fs = overlay(Some(up.as_path()), &[low.as_path()]);
        let ino = visible(&fs, ROOT_ID, "f").expect("f visible before");
        write_through(&fs, ino, b"X", 0);
        fs.unlink(&Context::default(), ROOT_ID, &c("f")).unwrap();
        assert!(visible(&fs, ROOT_ID, "f").is_none(), "running instance still shows f");
    }
    let fresh = overlay(Some(up.as_path()), &[low.as_path()]);
    assert!(visible(&fresh, ROOT_ID, "f").is_none(),
        "after restart the deleted file is back (upper dir: {:?}): no whiteout was left for the lower file",
        fs::read_dir(up.as_path()).unwrap().map(|e| e.unwrap().file_name()).collect::<Vec<_>>());
}

// O2: a lower file is deleted (whiteout), a file of the same name is created anew and deleted again.
#[test]
fn o2_unlink_of_file_created_over_whiteout_stays_deleted() {
    let (up, low) = (TempDir::new().unwrap(), TempDir::new().unwrap());
    fs::write(low.as_path().join("g"), b"lower content").unwrap();
    {
        let fs = overlay(Some(up.as_path()), &[low.as_path()]);
        let ctx = Context::default();
        fs.unlink(&ctx, ROOT_ID, &c("g")).unwrap();
        let args = CreateIn { flags: (libc::O_CREAT | libc::O_WRONLY) as u32, mode: 0o644, umask: 0, fuse_flags: 0 };
        let (e, h, _, _) = fs.create(&ctx, ROOT_ID, &c("g"), args).unwrap();
        if let Some(h) = h {
            fs.release(&ctx, e.inode, 0, h, true, true, None).unwrap();
        }
        fs.unlink(&ctx, ROOT_ID, &c("g")).unwrap();
        assert!(visible(&fs, ROOT_ID, "g").is_none(), "running instance still shows g");
    }
    let fresh = overlay(Some(up.as_path()), &[low.as_path()]);
    assert!(visible(&fresh, ROOT_ID, "g").is_none(), "after restart the deleted file g is back with the lower layer's content");
}

// O3: a lower directory with content is removed (entries first), then a directory of the same name is made.
// The new directory is empty in the running instance and must be empty after a restart
// ("a directory re-created over a deleted lower directory does not resurrect the old contents").
#[test]
fn o3_mkdir_over_deleted_lower_dir_does_not_resurrect() {
    let (up, low) = (TempDir::new().unwrap(), TempDir::new().unwrap());
    fs::create_dir(low.as_path().join("d")).unwrap();
    fs::write(low.as_path().join("d").join("old"), b"old").unwrap();
    {
        let fs = overlay(Some(up.as_path()), &[low.as_path()]);
        let ctx = Context::default();
        let d = visible(&fs, ROOT_ID, "d").expect("d visible");
        fs.unlink(&ctx, d, &c("old")).unwrap();
        fs.rmdir(&ctx, ROOT_ID, &c("d")).unwrap();
        assert!(visible(&fs, ROOT_ID, "d").is_none());
        let e = fs.mkdir(&ctx, ROOT_ID, &c("d"), 0o755, 0).unwrap();
        assert_eq!(listing(&fs, e.inode), Vec::<String>::new(), "running instance: new directory is not empty");
    }
    let fresh = overlay(Some(up.as_path()), &[low.as_path()]);
    let d = visible(&fresh, ROOT_ID, "d").expect("d visible after restart");
    assert_eq!(listing(&fresh, d), Vec::<String>::new(),
        "after restart the re-created directory shows the old lower contents: it was not marked opaque");
}

// O3b: the directory re-created over a deleted lower directory is removed again: the name must stay deleted.
#[test]
fn o3b_rmdir_of_recreated_dir_stays_deleted() {
    let (up, low) = (TempDir::new().unwrap(), TempDir::new().unwrap());
    fs::create_dir(low.as_path().join("e")).unwrap();
    {
        let fs = overlay(Some(up.as_path()), &[low.as_path()]);
        let ctx = Context::default();
        fs.rmdir(&ctx, ROOT_ID, &c("e")).unwrap();
        fs.mkdir(&ctx, ROOT_ID, &c("e"), 0o755, 0).unwrap();
        fs.rmdir(&ctx, ROOT_ID, &c("e")).unwrap();
        assert!(visible(&fs, ROOT_ID, "e").is_none());
    }
    let fresh = overlay(Some(up.as_path()), &[low.as_path()]);
    assert!(visible(&fresh, ROOT_ID, "e").is_none(), "after restart the removed directory e is back (the lower one)");
}

// O6: the upper layer already holds a file of the same name as a lower file (the state every copy-up leaves behind, seen after a restart).
// Deleting it must hide the lower file as well.
#[test]
fn o6_unlink_of_upper_file_shadowing_lower_file_stays_deleted() {
    let (up, low) = (TempDir::new().unwrap(), TempDir::new().unwrap());
    fs::write(low.as_path().join("s"), b"lower").unwrap();
    fs::write(up.as_path().join("s"), b"upper").unwrap();
    {
        let fs = overlay(Some(up.as_path()), &[low.as_path()]);
        assert!(visible(&fs, ROOT_ID, "s").is_some());
        fs.unlink(&Context::default(), ROOT_ID, &c("s")).unwrap();
        assert!(visible(&fs, ROOT_ID, "s").is_none(), "running instance still shows s");
    }
    let fresh = overlay(Some(up.as_path()), &[low.as_path()]);
    assert!(visible(&fresh, ROOT_ID, "s").is_none(), "after restart the deleted name s is back (the lower file): no whiteout was left");
}

// O7: an opaque upper directory over a lower directory of the same name; removing it must hide the lower directory too.
#[test]
fn o7_rmdir_of_opaque_upper_dir_over_lower_dir_stays_deleted() {
    let (up, low) = (TempDir::new().unwrap(), TempDir::new().unwrap());
    fs::create_dir(low.as_path().join("q")).unwrap();
    fs::write(low.as_path().join("q").join("old"), b"old").unwrap();
    fs::create_dir(up.as_path().join("q")).unwrap();
    let p = CString::new(up.as_path().join("q").to_string_lossy().to_string()).unwrap();
    let n = CString::new("user.fuseoverlayfs.opaque").unwrap();
    let rc = unsafe { libc::setxattr(p.as_ptr(), n.as_ptr(), b"y".as_ptr() as *const libc::c_void, 1, 0) };
    if rc != 0 {
        eprintln!("user xattrs not supported here: test skipped");
        return;
    }
    {
        let fs = overlay(Some(up.as_path()), &[low.as_path()]);
        let q = visible(&fs, ROOT_ID, "q").expect("q visible");
        assert_eq!(listing(&fs, q), Vec::<String>::new(), "opaque directory shows lower contents");
        fs.rmdir(&Context::default(), ROOT_ID, &c("q")).unwrap();
        assert!(visible(&fs, ROOT_ID, "q").is_none());
    }
    let fresh = overlay(Some(up.as_path()), &[low.as_path()]);
    assert!(visible(&fresh, ROOT_ID, "q").is_none(), "after restart the removed directory q is back with the lower contents");
}

// O4 (C10): WRITE through a handle that was opened read-only on a file living in a lower layer is passed to the lower layer's write().
// Observed through a recording lower layer would need a custom Layer; with passthrough layers the host refuses the pwrite on the
// O_RDONLY descriptor, so here it is only checked that the overlay itself answers with an error and the lower file is unchanged.
#[test]
fn o4_write_on_readonly_handle_of_lower_file() {
    let (up, low) = (TempDir::new().unwrap(), TempDir::new().unwrap());
    fs::write(low.as_path().join("r"), b"0123456789").unwrap();
    let fs = overlay(Some(up.as_path()), &[low.as_path()]);
    let ctx = Context::default();
    let ino = visible(&fs, ROOT_ID, "r").unwrap();
    let (h, _, _) = fs.open(&ctx, ino, libc::O_RDONLY as u32, 0).unwrap();
    let mut buf = TempFile::new().unwrap().into_file();
    buf.write_all(b"abcd").unwrap();
    buf.seek(SeekFrom::Start(0)).unwrap();
    let r = fs.write(&ctx, ino, h.unwrap(), &mut buf, 4, 0, None, false, libc::O_RDONLY as u32, 0);
    assert_eq!(fs::read(low.as_path().join("r")).unwrap(), b"0123456789", "lower layer file changed");
    assert!(r.is_err(), "write on a read-only lower handle returned {:?}", r);
}

// O4b (C10): the same, observed at the lower LAYER object: a recording wrapper around the passthrough layer counts the write() calls it
// receives.  A lower layer must never be asked to write.
mod rec {
    use super::*;
    use fuse_backend_rs::abi::fuse_abi::{stat64, statvfs64};
    use fuse_backend_rs::api::filesystem::{DirEntry, Entry, FsOptions, GetxattrReply, ListxattrReply, OpenOptions, ZeroCopyReader, ZeroCopyWriter};
    use std::ffi::CStr;
    use std::io;
    use std::sync::atomic::{AtomicUsize, Ordering};
    use std::time::Duration;

    pub struct Rec {
        pub inner: PassthroughFs<()>,
        pub writes: Arc<AtomicUsize>,
    }
    impl FileSystem for Rec {
        type Inode = u64;
        type Handle = u64;
        fn init(&self, c: FsOptions) -> io::Result<FsOptions> { self.inner.init(c) }
        fn lookup(&self, ctx: &Context, p: u64, n: &CStr) -> io::Result<Entry> { self.inner.lookup(ctx, p, n) }
        fn forget(&self, ctx: &Context, i: u64, c: u64) { self.inner.forget(ctx, i, c) }
        fn getattr(&self, ctx: &Context, i: u64, h: Option<u64>) -> io::Result<(stat64, Duration)> { self.inner.getattr(ctx, i, h) }
        fn open(&self, ctx: &Context, i: u64, f: u32, ff: u32) -> io::Result<(Option<u64>, OpenOptions, Option<u32>)> { self.inner.open(ctx, i, f, ff) }
        fn release(&self, ctx: &Context, i: u64, f: u32, h: u64, fl: bool, fr: bool, lo: Option<u64>) -> io::Result<()> { self.inner.release(ctx, i, f, h, fl, fr, lo) }
        fn read(&self, ctx: &Context, i: u64, h: u64, w: &mut dyn ZeroCopyWriter, s: u32, o: u64, lo: Option<u64>, f: u32) -> io::Result<usize> { self.inner.read(ctx, i, h, w, s, o, lo, f) }
        fn write(&self, ctx: &Context, i: u64, h: u64, r: &mut dyn ZeroCopyReader, s: u32, o: u64, lo: Option<u64>, dw: bool, f: u32, ff: u32) -> io::Result<usize> {
            self.writes.fetch_add(1, Ordering::SeqCst);
            self.inner.write(ctx, i, h, r, s, o, lo, dw, f, ff)
        }
        fn opendir(&self, ctx: &Context, i: u64, f: u32) -> io::Result<(Option<u64>, OpenOptions)> { self.inner.opendir(ctx, i, f) }
        fn readdir(&self, ctx: &Context, i: u64, h: u64, s: u32, o: u64, add: &mut dyn FnMut(DirEntry) -> io::Result<usize>) -> io::Result<()> { self.inner.readdir(ctx, i, h, s, o, add) }
        fn releasedir(&self, ctx: &Context, i: u64, f: u32, h: u64) -> io::Result<()> { self.inner.releasedir(ctx, i, f, h) }
        fn getxattr(&self, ctx: &Context, i: u64, n: &CStr, s: u32) -> io::Result<GetxattrReply> { self.inner.getxattr(ctx, i, n, s) }
        fn listxattr(&self, ctx: &Context, i: u64, s: u32) -> io::Result<ListxattrReply> { self.inner.listxattr(ctx, i, s) }
        fn readlink(&self, ctx: &Context, i: u64) -> io::Result<Vec<u8>> { self.inner.readlink(ctx, i) }
        fn statfs(&self, ctx: &Context, i: u64) -> io::Result<statvfs64> { self.inner.statfs(ctx, i) }
    }
    impl Layer for Rec {
        fn root_inode(&self) -> u64 { 1 }
    }
}

#[test]
fn o4b_lower_layer_is_never_asked_to_write() {
    use std::sync::atomic::{AtomicUsize, Ordering};
    let (up, low) = (TempDir::new().unwrap(), TempDir::new().unwrap());
    fs::write(low.as_path().join("r"), b"0123456789").unwrap();
    let writes = Arc::new(AtomicUsize::new(0));
    let mut config = passthrough::Config::default();
    config.root_dir = low.as_path().to_string_lossy().to_string();
    config.xattr = true;
    config.do_import = true;
    let inner = PassthroughFs::<()>::new(config).unwrap();
    inner.import().unwrap();
    let lower: Arc<BoxedLayer> = Arc::new(Box::new(rec::Rec { inner, writes: writes.clone() }) as BoxedLayer);
    let mut oc = Config::default();
    oc.do_import = true;
    let fs = OverlayFs::new(Some(layer(up.as_path())), vec![lower], oc).unwrap();
    fs.import().unwrap();
    let ctx = Context::default();
    let ino = visible(&fs, ROOT_ID, "r").unwrap();
    let (h, _, _) = fs.open(&ctx, ino, libc::O_RDONLY as u32, 0).unwrap();
    let mut buf = TempFile::new().unwrap().into_file();
    buf.write_all(b"abcd").unwrap();
    buf.seek(SeekFrom::Start(0)).unwrap();
    let _ = fs.write(&ctx, ino, h.unwrap(), &mut buf, 4, 0, None, false, libc::O_RDONLY as u32, 0);
    assert_eq!(writes.load(Ordering::SeqCst), 0, "the overlay passed a WRITE to a lower layer");
}

// O5 (C10): without an upper layer every modifying operation fails and changes nothing.
#[test]
fn o5_no_upper_layer_everything_fails() {
    let low = TempDir::new().unwrap();
    fs::write(low.as_path().join("f"), b"lower").unwrap();
    fs::create_dir(low.as_path().join("d")).unwrap();
    let fs = overlay(None, &[low.as_path()]);
    let ctx = Context::default();
    let f = visible(&fs, ROOT_ID, "f").unwrap();
    assert!(fs.unlink(&ctx, ROOT_ID, &c("f")).is_err());
    assert!(fs.rmdir(&ctx, ROOT_ID, &c("d")).is_err());
    assert!(fs.mkdir(&ctx, ROOT_ID, &c("n"), 0o755, 0).is_err());
    assert!(fs.symlink(&ctx, &c("t"), ROOT_ID, &c("s")).is_err());
    assert!(fs.mknod(&ctx, ROOT_ID, &c("k"), libc::S_IFREG | 0o644, 0, 0).is_err());
    assert!(fs.link(&ctx, f, ROOT_ID, &c("l")).is_err());
    assert!(fs.setxattr(&ctx, f, &c("user.a"), b"v", 0).is_err());
    assert!(fs.removexattr(&ctx, f, &c("user.a")).is_err());
    assert!(fs.open(&ctx, f, libc::O_WRONLY as u32, 0).is_err());
    let args = CreateIn { flags: (libc::O_CREAT | libc::O_WRONLY) as u32, mode: 0o644, umask: 0, fuse_flags: 0 };
    assert!(fs.create(&ctx, ROOT_ID, &c("c"), args).is_err());
    let mut names: Vec<_> = fs::read_dir(low.as_path()).unwrap().map(|e| e.unwrap().file_name().into_string().unwrap()).collect();
    names.sort();
    assert_eq!(names, vec!["d".to_string(), "f".to_string()]);
    assert_eq!(fs::read(low.as_path().join("f")).unwrap(), b"lower");
}
