// Reproduction for unit `asyncfile` (properties C04 / C20: src/common/async_file.rs) against the real crate, public API only.
// Place as tests/repro_asyncfile.rs in a checkout of fuse-backend-rs and run
//     cargo test --offline --features async-io --test repro_asyncfile
//
// A1  `File::async_read_at(buf, offset)` is two different transfers depending on the runtime the process happens to get:
//       * tokio variant:    preadv(fd, [buf.io_slice_mut()], offset)  - fills the FREE part [addr + len, addr + cap), then len += n;
//       * io_uring variant: tokio_uring::fs::File::read_at(buf, ..)  - tokio-uring 0.4.0 reads into stable_mut_ptr() .. + bytes_total(), i.e.
//         into [addr, addr + cap) from the START of the buffer, and then calls set_init(n), i.e. len = n.
//     For a buffer that already holds data (0 < len; the public constructors new_with_data / from_raw_ptr and set_size make such buffers, and
//     FileVolatileSlice::borrow_as_buf(true) does) the io_uring variant overwrites the initialised bytes and reports a length that forgets them;
//     if n < len the buffer even SHRINKS.  The vectored twin async_readv_at (tokio-uring readv_at uses stable_mut_ptr().add(bytes_init())) and the
//     tokio variant agree with each other, so the same call gives different memory depending on the kernel's io_uring support.
//     Obligation (unit asyncfile, failing on the unchanged tree): `C20.asyncfile.async_read_at.uring_same_transfer`; the sibling clause
//     `C20.asyncfile.async_read_at.empty_buffer_same_transfer` (len == 0: the only shape the crate's own callers build) holds for both variants.
//     Concrete input: file "0123456789", buffer "ab__" with len 2, cap 4, offset 0.
//     Expected (property C04: "a read fills exactly the reported prefix of exactly the given buffer", the given buffer of a FileVolatileBuf being
//     its free part, as io_slice_mut / the tokio variant / readv_at have it): memory "ab01", Ok(2), len 4.
//     Observed with io_uring available: memory "0123", Ok(4), len 4 ("ab" lost).  Without io_uring (tokio variant) the test passes.
//     Repair (/var/tmp/a1-fix.patch): the io_uring arm hands tokio-uring `buf.slice(init..)` (stable_mut_ptr = base + init, set_init(n) = init + n on
//     the inner buffer) and `into_inner()`s the result; a buffer without free space (init == cap, also cap == 0) is answered (Ok(0), buf) without an
//     operation, because slice() asserts `begin < bytes_total()` (test a3).  With the repair a0..a3 pass under io_uring and the obligation is proved.
//     async_write_at needs no repair: tokio-uring write_at writes [stable_ptr, + bytes_init) = io_slice(), what pwritev writes (proved: *.async_write_at.*).
// Each test asserts the behaviour the property asks for; a1 (and a3's full-buffer half) FAIL on a tree that has the defect when the io_uring runtime is in use.

#[cfg(feature = "async-io")]
mod async_part {
    use fuse_backend_rs::async_file::File;
    use fuse_backend_rs::async_runtime::block_on;
    use fuse_backend_rs::file_buf::FileVolatileBuf;
    use std::io::Write;

    fn tmp(tag: &str, content: &[u8]) -> (std::path::PathBuf, std::path::PathBuf) {
        let dir = std::env::temp_dir().join(format!("repro_asyncfile_{}_{}", tag, std::process::id()));
        std::fs::create_dir_all(&dir).unwrap();
        let path = dir.join("f");
        std::fs::File::create(&path).unwrap().write_all(content).unwrap();
        (dir, path)
    }

    // sanity: an EMPTY buffer is filled from its start by both variants
    #[test]
    fn a0_read_into_empty_buffer() {
        let (dir, path) = tmp("a0", b"0123456789");
        let mut m = *b"____";
        let (res, len) = block_on(async {
            let file = File::async_open(&path, false, false).await.unwrap();
            let buf = unsafe { FileVolatileBuf::new(&mut m) };
            let (res, buf) = file.async_read_at(buf, 3).await;
            (res, buf.len())
        });
        assert_eq!(res.unwrap(), 4);
        assert_eq!(len, 4);
        assert_eq!(&m, b"3456");
        std::fs::remove_dir_all(&dir).unwrap();
    }

    // A1: a buffer that already holds 2 bytes
    #[test]
    fn a1_read_into_partially_filled_buffer() {
        let (dir, path) = tmp("a1", b"0123456789");
        let mut m = *b"ab__";
        let (res, len) = block_on(async {
            let file = File::async_open(&path, false, false).await.unwrap();
            let buf = unsafe { FileVolatileBuf::new_with_data(&mut m, 2) };
            let (res, buf) = file.async_read_at(buf, 0).await;
            (res, buf.len())
        });
        let n = res.unwrap();
        assert_eq!(&m[..2], b"ab", "the initialised bytes were overwritten: memory {:?}, Ok({}), len {}", String::from_utf8_lossy(&m), n, len);
        assert_eq!(&m, b"ab01");
        assert_eq!(n, 2);
        assert_eq!(len, 4);
        std::fs::remove_dir_all(&dir).unwrap();
    }

    // the vectored twin on the same input: both variants append behind the initialised bytes
    #[test]
    fn a2_readv_into_partially_filled_buffer() {
        let (dir, path) = tmp("a2", b"0123456789");
        let mut m = *b"ab__";
        let (res, len) = block_on(async {
            let file = File::async_open(&path, false, false).await.unwrap();
            let bufs = vec![unsafe { FileVolatileBuf::new_with_data(&mut m, 2) }];
            let (res, bufs) = file.async_readv_at(bufs, 0).await;
            (res, bufs[0].len())
        });
        assert_eq!(res.unwrap(), 2);
        assert_eq!(len, 4);
        assert_eq!(&m, b"ab01");
        std::fs::remove_dir_all(&dir).unwrap();
    }

    // edge cases of the A1 repair (tokio-uring's `IoBuf::slice(begin..)` asserts `begin < bytes_total()`): a FULL buffer and a buffer of capacity 0
    // must not panic; like preadv with a zero-length iovec they read nothing: Ok(0), buffer unchanged.
    #[test]
    fn a3_read_into_full_or_zero_capacity_buffer() {
        let (dir, path) = tmp("a3", b"0123456789");
        let mut m = *b"abcd";
        let mut z: [u8; 0] = [];
        let (r1, l1, r2, l2) = block_on(async {
            let file = File::async_open(&path, false, false).await.unwrap();
            let (r1, b1) = file.async_read_at(unsafe { FileVolatileBuf::new_with_data(&mut m, 4) }, 0).await;
            let (r2, b2) = file.async_read_at(unsafe { FileVolatileBuf::new(&mut z) }, 0).await;
            (r1, b1.len(), r2, b2.len())
        });
        assert_eq!(r1.unwrap(), 0);
        assert_eq!(l1, 4);
        assert_eq!(&m, b"abcd");
        assert_eq!(r2.unwrap(), 0);
        assert_eq!(l2, 0);
        std::fs::remove_dir_all(&dir).unwrap();
    }
}
