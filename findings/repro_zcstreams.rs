// Reproductions for unit `zcstreams` (property C04: the zero-copy stream layer) against the real crate, public API only.
// Place as tests/repro_zcstreams.rs in a checkout of fuse-backend-rs and run
//     cargo test --offline --test repro_zcstreams
//
// Z1  src/overlayfs/mod.rs `impl ZeroCopyReader for File`::read_to(f, count, off) - the adapter OverlayFs::copy_regfile_up hands to
//     Layer::write() to stream the temporary file into the upper layer - first takes up to `count` bytes from `self` with read_volatile (the
//     file position of `self` advances by what was read: a SEQUENTIAL source), then makes ONE write_at_volatile of these bytes to `f` and returns
//     THAT call's result.  A positional write may be short (FileReadWriteVolatile::write_at_volatile "returns the number of bytes written"; pwrite(2)
//     on a full disk / at RLIMIT_FSIZE / a quota, a FUSE or network file system below the upper layer) or fail.  Then
//       * Ok(n) with n < taken: the bytes n..taken were consumed from `self` and written nowhere; the caller advances `off` by n and calls again,
//         and the NEXT chunk of `self` lands at off + n.  The copy "succeeds" with bytes missing and everything behind them shifted
//         (obligation `C04.zc.ovl_read_to.reports_what_was_taken`: "a transfer reports exactly what was transferred", every byte exactly once);
//       * Err(e): the bytes were consumed although the trait documents "If any error is returned then the implementation must guarantee that no
//         bytes were copied from self" (obligation `C04.zc.ovl_read_to.err_nothing_taken`).  ZeroCopyReader::read_exact_to - the trait's own provided
//         method, verified in the same unit - RETRIES on ErrorKind::Interrupted on the strength of exactly that clause: with this adapter the retry
//         continues behind the lost bytes.
//     (`Ok(0)` from the sink is passed through as Ok(0) as well, where the trait asks for ErrorKind::WriteZero.)
//     Reach: copy_regfile_up -> Layer::write(.., &mut file /* the temporary File as ZeroCopyReader */, size = 4 MiB, offset ..) ->
//     PassthroughFs::write -> r.read_to(&mut *f, size, offset) with f = the upper file.  On a local file system a short pwrite is usually
//     followed by an error on the next call (ENOSPC / EFBIG), which aborts the copy-up; the silent variant needs a sink that takes part of a
//     chunk and then goes on (space freed in between, a quota raised, a FUSE / network file system below the upper directory, or any other
//     `Layer` / FileReadWriteVolatile implementation - both are public extension points).  The sink used below is such an implementation and
//     stays within what FileReadWriteVolatile documents.
//     Observed on the pinned tree (this file, 2026-09-23): s0 passes; z1a: sink "012389ab" after a copy that reported success;
//     z1b: Ok(4) with 8 bytes consumed; z1c: read_exact_to = Err(WriteZero), sink empty.
//     Repair (give back what f did not accept: `self.seek(SeekFrom::Current(-((ret - written) as i64)))?`, also when f fails, then return f's
//     result): with it all four tests pass and unit zcstreams proves both obligations (stated on the net movement of self's position).
//     The writer twin `impl ZeroCopyWriter for File`::write_from is NOT affected: its source `f` is read POSITIONALLY, a short write to `self`
//     is reported and the caller re-reads from off + n (test s0 below passes).
//
// Each candidate test asserts the behaviour the property asks for and therefore FAILS on a tree that has the defect.

use fuse_backend_rs::api::filesystem::{ZeroCopyReader, ZeroCopyWriter};
use fuse_backend_rs::file_buf::FileVolatileSlice;
use fuse_backend_rs::file_traits::FileReadWriteVolatile;
use std::fs::File;
use std::io::{Error, ErrorKind, Result, Write};

/// An in-memory positional file.  `max` = the most one call moves (a legal short transfer), `fail_first` = the error kind the first write
/// reports (nothing is written by a failing call).
struct MemFile {
    data: Vec<u8>,
    max: usize,
    fail_first: Option<ErrorKind>,
    pos: usize,
}

impl MemFile {
    fn new(data: &[u8], max: usize) -> Self {
        MemFile { data: data.to_vec(), max, fail_first: None, pos: 0 }
    }
}

impl FileReadWriteVolatile for MemFile {
    fn read_volatile(&mut self, slice: FileVolatileSlice) -> Result<usize> {
        let n = self.read_at_volatile(slice, self.pos as u64)?;
        self.pos += n;
        Ok(n)
    }
    fn write_volatile(&mut self, slice: FileVolatileSlice) -> Result<usize> {
        let n = self.write_at_volatile(slice, self.pos as u64)?;
        self.pos += n;
        Ok(n)
    }
    fn read_at_volatile(&mut self, slice: FileVolatileSlice, offset: u64) -> Result<usize> {
        let off = offset as usize;
        if off >= self.data.len() {
            return Ok(0);
        }
        let n = slice.len().min(self.max).min(self.data.len() - off);
        // the slice covers `slice.len()` valid bytes (contract of its constructor)
        unsafe { std::ptr::copy_nonoverlapping(self.data.as_ptr().add(off), slice.as_ptr(), n) };
        Ok(n)
    }
    fn write_at_volatile(&mut self, slice: FileVolatileSlice, offset: u64) -> Result<usize> {
        if let Some(k) = self.fail_first.take() {
            return Err(Error::new(k, "injected"));
        }
        let off = offset as usize;
        let n = slice.len().min(self.max);
        if self.data.len() < off + n {
            self.data.resize(off + n, 0);
        }
        unsafe { std::ptr::copy_nonoverlapping(slice.as_ptr() as *const u8, self.data.as_mut_ptr().add(off), n) };
        Ok(n)
    }
}

fn temp_file_with(name: &str, content: &[u8]) -> (std::path::PathBuf, File) {
    let dir = std::env::temp_dir().join(format!("repro_zcstreams_{}_{}", name, std::process::id()));
    std::fs::create_dir_all(&dir).unwrap();
    let path = dir.join("f");
    File::create(&path).unwrap().write_all(content).unwrap();
    let f = std::fs::OpenOptions::new().read(true).write(true).open(&path).unwrap();
    (dir, f)
}

const CONTENT: &[u8] = b"0123456789abcdef";

/// sanity (passes): File as ZeroCopyWriter - a source that delivers at most 4 bytes per call; the loop of OverlayFs::copy_regfile_up /
/// PassthroughFs::read: `ret = w.write_from(f, size, offset); if ret == 0 break; offset += ret`
#[test]
fn s0_file_as_writer_short_source_is_fine() {
    let (dir, mut dst) = temp_file_with("s0", b"");
    let mut src = MemFile::new(CONTENT, 4);
    let mut off = 0u64;
    loop {
        let n = dst.write_from(&mut src, 8, off).unwrap();
        if n == 0 {
            break;
        }
        off += n as u64;
    }
    assert_eq!(dst.available_bytes(), usize::MAX);
    drop(dst);
    assert_eq!(std::fs::read(dir.join("f")).unwrap(), CONTENT);
    std::fs::remove_dir_all(&dir).unwrap();
}

/// Z1 (a): a sink that takes at most 4 bytes per write.  The loop of OverlayFs::copy_regfile_up / PassthroughFs::write:
/// `ret = r.read_to(f, size, offset); if ret == 0 break; offset += ret`.  Concrete input: content "0123456789abcdef", size 8, sink max 4.
/// Property: the sink ends up with the 16 bytes.  Defect: "012389ab" - 4567 and cdef were taken from the source and dropped, 89ab is shifted.
#[test]
fn z1a_file_as_reader_short_write_loses_bytes() {
    let (dir, mut src) = temp_file_with("z1a", CONTENT);
    let mut sink = MemFile::new(b"", 4);
    let mut off = 0u64;
    let mut reported = 0usize;
    loop {
        let n = src.read_to(&mut sink, 8, off).unwrap();
        if n == 0 {
            break;
        }
        off += n as u64;
        reported += n;
    }
    std::fs::remove_dir_all(&dir).unwrap();
    assert_eq!(
        String::from_utf8_lossy(&sink.data),
        String::from_utf8_lossy(CONTENT),
        "the copy ended without an error, {} bytes reported, but the sink does not hold the source's bytes",
        reported
    );
}

/// Z1 (b): one call.  Property ("a transfer reports exactly what was transferred"): after Ok(n) exactly n bytes are gone from the source.
#[test]
fn z1b_read_to_reports_less_than_it_consumed() {
    use std::io::Seek;
    let (dir, mut src) = temp_file_with("z1b", CONTENT);
    let mut sink = MemFile::new(b"", 4);
    let n = src.read_to(&mut sink, 8, 0).unwrap();
    let consumed = src.stream_position().unwrap() as usize;
    std::fs::remove_dir_all(&dir).unwrap();
    assert_eq!(consumed, n, "read_to reported {} bytes but took {} from the source", n, consumed);
}

/// Z1 (c): the error clause.  The sink reports ErrorKind::Interrupted once (nothing written), then takes everything.
/// ZeroCopyReader::read_exact_to retries on Interrupted because the trait promises "no bytes were copied from self" on an error.
/// Property: Ok(()) and the sink holds the 16 bytes.  Defect: the 16 bytes were consumed by the failed call, the retry finds the source
/// at its end and read_exact_to fails with WriteZero, the sink is empty.
#[test]
fn z1c_error_from_the_sink_consumes_the_source() {
    let (dir, mut src) = temp_file_with("z1c", CONTENT);
    let mut sink = MemFile::new(b"", usize::MAX);
    sink.fail_first = Some(ErrorKind::Interrupted);
    let r = src.read_exact_to(&mut sink, CONTENT.len(), 0);
    std::fs::remove_dir_all(&dir).unwrap();
    assert!(r.is_ok(), "read_exact_to after one interrupted write: {:?}, sink holds {:?}", r, String::from_utf8_lossy(&sink.data));
    assert_eq!(sink.data, CONTENT);
}
