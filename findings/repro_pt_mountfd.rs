// Reproduction of finding D14 (property C15) against the real crate, public API only.
// MountFds::get (src/passthrough/mount_fd.rs) opens the mount point with libc::open(.., O_PATH) into a raw c_int that is never
// closed (neither on success nor on the error returns that follow): every time the MountFd of a mount id is (re)created
// one descriptor is lost.  With inode_file_handles the MountFd lives exactly as long as some inode of that mount is referenced;
// DESTROY drops them all (root included) and re-imports the root, so every destroy/re-initialisation cycle loses one descriptor
// per mount (and so does every lookup of the first file on a mount no other live inode is on).
use std::ffi::CString;

use fuse_backend_rs::api::filesystem::{Context, FileSystem};
use fuse_backend_rs::passthrough::{Config, PassthroughFs};
use vmm_sys_util::tempdir::TempDir;

const ROOT_ID: u64 = 1;

fn open_fds() -> usize {
    std::fs::read_dir("/proc/self/fd").unwrap().count()
}

#[test]
fn d14_mount_fd_leaks_o_path_descriptor() {
    let dir = TempDir::new().unwrap();
    std::fs::write(dir.as_path().join("f"), b"x").unwrap();
    let cfg = Config {
        root_dir: dir.as_path().to_string_lossy().to_string(),
        do_import: true,
        inode_file_handles: true,
        ..Default::default()
    };
    let fs = PassthroughFs::<()>::new(cfg).unwrap();
    fs.import().unwrap();
    let ctx = Context::default();
    let name = CString::new("f").unwrap();

    // a freshly started server
    let fresh = open_fds();
    // the client looks a file up and forgets it again: nothing may stay behind
    for _ in 0..5 {
        let e = fs.lookup(&ctx, ROOT_ID, &name).unwrap();
        fs.forget(&ctx, e.inode, 1);
    }
    let after_rounds = open_fds();
    // DESTROY + re-initialisation (destroy() re-imports the root), three times
    let mut after_destroy = Vec::new();
    for _ in 0..3 {
        fs.destroy();
        after_destroy.push(open_fds());
    }
    assert!(
        after_rounds == fresh && after_destroy.iter().all(|&n| n == fresh),
        "open descriptors: fresh server {}, after 5 lookup+forget rounds {}, after each of three destroy/re-import cycles {:?}",
        fresh, after_rounds, after_destroy
    );
}
