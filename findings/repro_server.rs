// Reproductions of findings D1 (C02), D2 (C03), D4 (C12) against the real crate, public API only.
// Place as tests/repro_server.rs in a checkout of fuse-backend-rs and run `cargo test --offline --test repro_server`.
use std::ffi::CStr;
use std::io::{Read, Result, Seek, SeekFrom};
use std::os::unix::io::AsRawFd;
use std::sync::{Arc, Mutex};
use std::time::Duration;

use fuse_backend_rs::abi::fuse_abi::*;
use fuse_backend_rs::api::filesystem::{Context, Entry, FileLock as ApiLock, FileSystem, FsOptions, OpenOptions};
use fuse_backend_rs::api::server::Server;
use fuse_backend_rs::transport::{FuseBuf, FuseDevWriter, Reader};
use vm_memory::ByteValued;

#[derive(Default)]
struct Rec {
    calls: Mutex<Vec<String>>,
    want: Mutex<Option<FsOptions>>,
}
fn entry() -> Entry {
    Entry { inode: 5, attr_flags: FUSE_ATTR_DAX, attr_timeout: Duration::from_secs(1), entry_timeout: Duration::from_secs(1), ..Default::default() }
}
impl FileSystem for Rec {
    type Inode = u64;
    type Handle = u64;
    fn init(&self, capable: FsOptions) -> Result<FsOptions> {
        Ok(self.want.lock().unwrap().unwrap_or(FsOptions::empty()) & capable)
    }
    fn setlk(&self, _c: &Context, _i: u64, _h: u64, _o: u64, _l: ApiLock, _f: u32) -> Result<()> {
        self.calls.lock().unwrap().push("setlk".into());
        Ok(())
    }
    fn setlkw(&self, _c: &Context, _i: u64, _h: u64, _o: u64, _l: ApiLock, _f: u32) -> Result<()> {
        self.calls.lock().unwrap().push("setlkw".into());
        Ok(())
    }
    fn create(&self, _c: &Context, _p: u64, _n: &CStr, _a: CreateIn) -> Result<(Entry, Option<u64>, OpenOptions, Option<u32>)> {
        Ok((entry(), Some(7), OpenOptions::empty(), None))
    }
    fn lookup(&self, _c: &Context, _p: u64, _n: &CStr) -> Result<Entry> {
        Ok(entry())
    }
}

fn request(server: &Server<Arc<Rec>>, opcode: u32, body: &[u8]) -> Vec<u8> {
    let hdr = InHeader { len: (40 + body.len()) as u32, opcode, unique: 0x1234, nodeid: 1, uid: 0, gid: 0, pid: 1, padding: 0 };
    let mut req = hdr.as_slice().to_vec();
    req.extend_from_slice(body);
    let mut file = vmm_sys_util::tempfile::TempFile::new().unwrap().into_file();
    let mut wbuf = vec![0u8; 8192];
    let reader = Reader::<()>::from_fuse_buffer(FuseBuf::new(&mut req)).unwrap();
    let writer = FuseDevWriter::<()>::new(file.as_raw_fd(), &mut wbuf).unwrap();
    server.handle_message(reader, writer.into(), None, None).unwrap();
    let mut out = Vec::new();
    file.seek(SeekFrom::Start(0)).unwrap();
    file.read_to_end(&mut out).unwrap();
    out
}
fn u32_at(b: &[u8], off: usize) -> u32 { u32::from_le_bytes([b[off], b[off + 1], b[off + 2], b[off + 3]]) }

// D1 (C02): FUSE_SETLKW must reach FileSystem::setlkw, not setlk
#[test]
fn d1_setlkw_calls_setlkw() {
    let fs = Arc::new(Rec::default());
    let server = Server::new(fs.clone());
    request(&server, Opcode::Setlkw as u32, LkIn::default().as_slice());
    assert_eq!(fs.calls.lock().unwrap().as_slice(), &["setlkw".to_string()]);
}

// D2 (C03): the entry in a CREATE reply must be encoded like every other entry reply (attr.flags = entry.attr_flags)
#[test]
fn d2_create_reply_carries_attr_flags() {
    let fs = Arc::new(Rec::default());
    let server = Server::new(fs);
    let lookup = request(&server, Opcode::Lookup as u32, b"f\0");
    // fuse_out_header (16) + fuse_entry_out: attr starts at 40, fuse_attr.flags at 84
    assert_eq!(u32_at(&lookup, 16 + 40 + 84), FUSE_ATTR_DAX);
    let mut body = CreateIn::default().as_slice().to_vec();
    body.extend_from_slice(b"f\0");
    let create = request(&server, Opcode::Create as u32, &body);
    assert_eq!(u32_at(&create, 16 + 40 + 84), FUSE_ATTR_DAX, "CREATE reply lost Entry::attr_flags");
    assert_eq!(&create[16..16 + 128], &lookup[16..16 + 128], "CREATE and LOOKUP encode the same entry differently");
}

// D4 (C12): extended (>= bit 32) features are only honoured by the kernel together with FUSE_INIT_EXT in `flags`
// (kernel process_init_reply: `if (flags & FUSE_INIT_EXT) flags |= (u64) arg->flags2 << 32;`)
#[test]
fn d4_init_reply_sets_ext_marker_when_extended_bits_are_enabled() {
    let fs = Arc::new(Rec::default());
    *fs.want.lock().unwrap() = Some(FsOptions::PERFILE_DAX | FsOptions::ASYNC_READ);
    let server = Server::new(fs);
    let init_ext: u32 = 1 << 30;
    let mut body = InitIn { major: 7, minor: 36, max_readahead: 0, flags: init_ext | 1 }.as_slice().to_vec();
    body.extend_from_slice(InitIn2 { flags2: (FsOptions::PERFILE_DAX.bits() >> 32) as u32, unused: [0; 11] }.as_slice());
    let reply = request(&server, Opcode::Init as u32, &body);
    // fuse_init_out: major 0, minor 4, max_readahead 8, flags 12, ..., flags2 at 32
    let flags = u32_at(&reply, 16 + 12);
    let flags2 = u32_at(&reply, 16 + 32);
    assert_ne!(flags2, 0, "PERFILE_DAX was negotiated, flags2 must carry it");
    assert_ne!(flags & init_ext, 0, "flags2 = {:#x} is sent without FUSE_INIT_EXT in flags = {:#x}: the kernel ignores it", flags2, flags);
}
