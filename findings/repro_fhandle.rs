// Reproduction of the finding of unit `fhandle` (property C05, obligation [C05.fh.cfh_new.fits] at FileHandle::from_name_at) against the real
// crate, public API only.  Run as tests/repro_fhandle.rs:  cargo test --offline --test repro_fhandle -- --test-threads=1   (the two tests share the interposed symbol; run as root in the sandbox).  Test b_* FAILED before fix 9371741.
//
// FileHandle::from_name_at (src/passthrough/file_handle.rs) documents:
//     "Return `Ok(None)` if no file handle can be generated for this file: Either because the filesystem does not support it, or because it
//      would require a larger file handle than we can store."
// The code asks the kernel for the size (name_to_handle_at with handle_bytes = 0 -> EOVERFLOW, handle_bytes := needed) and then does
//     let mut c_fh = CFileHandle::new(needed);          // = FamStructWrapper::new(needed).unwrap()
// FamStructWrapper::new fails with SizeLimitExceeded for needed > MAX_HANDLE_SIZE (128), so a file system that needs more than 128 bytes makes
// the serving thread PANIC instead of returning Ok(None) (with inode_file_handles: at import() of the root, and at every lookup).
// name_to_handle_at(2): "MAX_HANDLE_SZ ... is not a guaranteed upper limit as future filesystems may require more space"; the size query itself is
// not limited by the kernel (fs/fhandle.c only rejects handle_bytes > MAX_HANDLE_SZ on INPUT), and fs/nfs/export.c::nfs_encode_fh needs
// 3 + XDR_QUADLEN(2 + fh_size) dwords = 144 bytes for a 128-byte NFSv4 server file handle.
//
// No such file system is at hand in the sandbox, so the kernel's answer is simulated: the test binary defines the C symbol `name_to_handle_at`
// (the crate declares it in an `extern "C"` block, so the crate's call resolves to this definition); with OVERSIZE = 0 it forwards to the real
// system call, otherwise it answers the size query the way the kernel does for a file system whose handles take OVERSIZE bytes.
use std::os::raw::{c_char, c_int};
use std::sync::atomic::{AtomicU32, AtomicUsize, Ordering};

use fuse_backend_rs::passthrough::{Config, PassthroughFs};
use vmm_sys_util::tempdir::TempDir;

#[repr(C)]
pub struct FileHandleHeader {
    handle_bytes: u32,
    handle_type: c_int,
}

static OVERSIZE: AtomicU32 = AtomicU32::new(0);
static CALLS: AtomicUsize = AtomicUsize::new(0);

/// # Safety
/// same contract as name_to_handle_at(2)
#[no_mangle]
pub unsafe extern "C" fn name_to_handle_at(
    dirfd: c_int,
    pathname: *const c_char,
    handle: *mut FileHandleHeader,
    mount_id: *mut c_int,
    flags: c_int,
) -> c_int {
    CALLS.fetch_add(1, Ordering::SeqCst);
    let need = OVERSIZE.load(Ordering::SeqCst);
    if need != 0 {
        // fs/fhandle.c::do_sys_name_to_handle: the buffer is too small -> handle_bytes := needed, mount id stored, EOVERFLOW
        if (*handle).handle_bytes < need {
            (*handle).handle_bytes = need;
            *mount_id = 1;
            *libc::__errno_location() = libc::EOVERFLOW;
            return -1;
        }
        *libc::__errno_location() = libc::EINVAL; // a buffer > MAX_HANDLE_SZ is refused on input
        return -1;
    }
    libc::syscall(libc::SYS_name_to_handle_at, dirfd, pathname, handle, mount_id, flags) as c_int
}

fn new_fs(dir: &TempDir) -> PassthroughFs<()> {
    let cfg = Config {
        root_dir: dir.as_path().to_string_lossy().to_string(),
        do_import: true,
        inode_file_handles: true,
        ..Default::default()
    };
    PassthroughFs::<()>::new(cfg).unwrap()
}

// control: the interposed symbol is really the one the crate calls, and with the real kernel answer everything works
#[test]
fn a_control_real_kernel_answer() {
    OVERSIZE.store(0, Ordering::SeqCst);
    let dir = TempDir::new().unwrap();
    let fs = new_fs(&dir);
    let before = CALLS.load(Ordering::SeqCst);
    fs.import().unwrap();
    assert!(CALLS.load(Ordering::SeqCst) > before, "the crate did not call the interposed name_to_handle_at");
}

// the finding: a file system whose handles need 144 bytes (> MAX_HANDLE_SIZE = 128)
#[test]
fn b_oversize_handle_must_be_ok_none_not_a_panic() {
    let dir = TempDir::new().unwrap();
    let fs = new_fs(&dir);
    OVERSIZE.store(144, Ordering::SeqCst);
    let r = std::panic::catch_unwind(std::panic::AssertUnwindSafe(|| fs.import()));
    OVERSIZE.store(0, Ordering::SeqCst);
    match r {
        // documented behaviour: from_name_at returns Ok(None), the inode is kept as an O_PATH descriptor, import succeeds
        Ok(res) => assert!(res.is_ok(), "import failed: {:?}", res),
        Err(p) => {
            let msg = p
                .downcast_ref::<String>()
                .cloned()
                .or_else(|| p.downcast_ref::<&str>().map(|s| s.to_string()))
                .unwrap_or_default();
            panic!(
                "FileHandle::from_name_at panicked for a file handle of 144 bytes instead of returning Ok(None) as documented: {}",
                msg
            );
        }
    }
}
