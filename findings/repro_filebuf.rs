// Reproductions for unit `filebuf` (property C04: src/common/file_buf.rs, src/common/file_traits.rs) against the real crate, public API only.
// Place as tests/repro_filebuf.rs in a checkout of fuse-backend-rs and run
//     cargo test --offline --features async-io --test repro_filebuf
// (without `--features async-io` only the sanity test s0 is compiled: the candidates below live in the async-io part of file_traits.rs).
//
// F3  `impl<T: AsyncFileReadWriteVolatile + ?Sized> AsyncFileReadWriteVolatile for Arc<T>` forwards with `self.async_read_at_volatile(..)`.
//     `self` is `&Arc<T>`, and the first candidate of method resolution is this very impl (receiver type `&Arc<T>`), not T's: each of the four
//     methods calls ITSELF.  The sync twin (`impl .. for &mut T`) writes `(**self).read_volatile(..)` for exactly this reason.  Any use of an
//     `Arc<File>` as an AsyncFileReadWriteVolatile never reaches the file: the future recurses until the stack is exhausted (SIGSEGV / abort).
//     Obligations (unit filebuf, failing on the pinned tree): `C04.ftraits.arc.<fn>.ends_in_the_wrapped_object` for the four methods ("could not prove
//     termination": the forwarder is checked with `decreases 0`, i.e. it may not call itself); rustc's own `unconditional_recursion` lint fires on
//     the extracted, de-sugared text as well (#[async_trait] hides it in the crate).  Observed here: child ends with SIGABRT, "thread 'f3_child' has
//     overflowed its stack".  With `(**self).async_..(..)` (as the sync `impl .. for &mut T` writes it) the test passes and the unit is STATUS ok.
// F4  `impl AsyncFileReadWriteVolatile for File`::async_read_vectored_at_volatile / async_write_vectored_at_volatile advance the FILE offset by
//     `bufs[i].bytes_total()` (the capacity) and detect a short transfer by `cnt < bytes_total()`.  What a buffer transfers is its FREE part
//     (read: cap - len) or its INITIALISED part (write: len) - FileVolatileBuf::io_slice_mut / io_slice.  For a buffer with 0 < len < cap
//     (public constructors new_with_data / from_raw_ptr / set_size make such buffers) the next buffer is transferred at the wrong file offset
//     (bytes skipped on read, a hole on write), the transfer of the later buffers is not reported, and `Ok(n)` is smaller than what was moved.
//     The crate's own callers only pass len == 0 (reads) / len == cap (writes): the unit states that as the preconditions
//     `C04.ftraits.async_read_vectored_at_volatile.buffers_empty` / `C04.ftraits.async_write_vectored_at_volatile.buffers_full`; without them
//     `C04.ftraits.async_*_vectored_at_volatile.loop.transfer_length_is_capacity` (and with it `.ops_in_order`) fails.
//     Observed here (io_uring runtime): write -> file "ab\0\0cdef", Ok(2) expected "abcdef", Ok(6); read -> the io_uring variant of async_read_at fills the
//     buffer from its START (tokio-uring read_at: stable_mut_ptr / bytes_total), so the two initialised bytes are overwritten, while the tokio
//     variant (preadv on io_slice_mut) appends behind them and then reads the second buffer from file offset 4 instead of 2.
//
// Each candidate test asserts the behaviour the property asks for and therefore FAILS on a tree that has the defect.

#[test]
fn s0_sync_file_traits_sanity() {
    use fuse_backend_rs::file_buf::FileVolatileSlice;
    use fuse_backend_rs::file_traits::FileReadWriteVolatile;
    use std::io::Write;
    let dir = std::env::temp_dir().join(format!("repro_filebuf_s0_{}", std::process::id()));
    std::fs::create_dir_all(&dir).unwrap();
    let path = dir.join("f");
    std::fs::File::create(&path).unwrap().write_all(b"0123456789").unwrap();
    let mut f = std::fs::File::open(&path).unwrap();
    let mut a = [0u8; 3];
    let mut b = [0u8; 4];
    let bufs = [unsafe { FileVolatileSlice::from_mut_slice(&mut a) }, unsafe { FileVolatileSlice::from_mut_slice(&mut b) }];
    assert_eq!(f.read_vectored_at_volatile(&bufs, 2).unwrap(), 7);
    assert_eq!(&a, b"234");
    assert_eq!(&b, b"5678");
    // an empty list makes no call and reports 0
    assert_eq!(f.read_vectored_volatile(&[]).unwrap(), 0);
    // an offset beyond off64_t reaches the kernel as a negative offset: EINVAL, nothing moves
    let s = unsafe { FileVolatileSlice::from_mut_slice(&mut a) };
    assert!(f.read_at_volatile(s, u64::MAX - 1).is_err());
    assert_eq!(&a, b"234");
    std::fs::remove_dir_all(&dir).unwrap();
}

#[cfg(feature = "async-io")]
mod async_part {
    use fuse_backend_rs::async_file::File;
    use fuse_backend_rs::async_runtime::block_on;
    use fuse_backend_rs::file_buf::FileVolatileBuf;
    use fuse_backend_rs::file_traits::AsyncFileReadWriteVolatile;
    use std::io::Write;
    use std::sync::Arc;

    fn tmp(name: &str, content: &[u8]) -> (std::path::PathBuf, std::path::PathBuf) {
        let dir = std::env::temp_dir().join(format!("repro_filebuf_{}_{}", name, std::process::id()));
        std::fs::create_dir_all(&dir).unwrap();
        let path = dir.join("f");
        std::fs::File::create(&path).unwrap().write_all(content).unwrap();
        (dir, path)
    }

    // ---- F3: run in a child process (the defect kills the process with a stack overflow)
    #[test]
    fn f3_child() {
        if std::env::var("REPRO_FILEBUF_CHILD").is_err() {
            return;
        }
        let (dir, path) = tmp("f3", b"0123456789");
        let mut mem = [0u8; 4];
        let n = block_on(async {
            let file = Arc::new(File::async_open(&path, false, false).await.unwrap());
            let buf = unsafe { FileVolatileBuf::new(&mut mem) };
            let (res, _buf) = file.async_read_at_volatile(buf, 2).await;
            res.unwrap()
        });
        assert_eq!(n, 4);
        assert_eq!(&mem, b"2345");
        std::fs::remove_dir_all(&dir).unwrap();
    }

    #[test]
    fn f3_arc_forwarder_reaches_the_file() {
        let exe = std::env::current_exe().unwrap();
        let out = std::process::Command::new(exe)
            .args(["--exact", "async_part::f3_child", "--nocapture", "--test-threads", "1"])
            .env("REPRO_FILEBUF_CHILD", "1")
            .output()
            .unwrap();
        assert!(
            out.status.success(),
            "Arc<File>::async_read_at_volatile did not return: child ended with {:?}\n{}",
            out.status,
            String::from_utf8_lossy(&out.stderr).lines().rev().take(4).collect::<Vec<_>>().join(" | ")
        );
    }

    // ---- F4 (read): [len 2, cap 4] already holding "ab", then [len 0, cap 4]; file "0123456789", offset 0.
    // "as a single call to read_at_volatile with the buffers concatenated would": the free space (2 + 4 bytes) receives file bytes 0..6.
    #[test]
    fn f4_read_partially_filled_buffer() {
        let (dir, path) = tmp("f4r", b"0123456789");
        let mut m1 = *b"ab__";
        let mut m2 = *b"____";
        let (res, sizes) = block_on(async {
            let file = File::async_open(&path, false, false).await.unwrap();
            let bufs = vec![unsafe { FileVolatileBuf::new_with_data(&mut m1, 2) }, unsafe { FileVolatileBuf::new(&mut m2) }];
            let (res, bufs) = file.async_read_vectored_at_volatile(bufs, 0).await;
            (res, bufs.iter().map(|b| b.len()).collect::<Vec<_>>())
        });
        let n = res.unwrap();
        // every byte that was stored is reported, and the stored bytes are consecutive file bytes
        let stored: Vec<u8> = m1[2..].iter().chain(m2.iter()).copied().filter(|c| *c != b'_').collect();
        assert_eq!(&m1[..2], b"ab", "initialised bytes overwritten");
        assert_eq!(stored, b"0123456789"[..stored.len()].to_vec(), "bytes delivered out of order: m1={:?} m2={:?}", m1, m2);
        assert_eq!(n, stored.len(), "reported {} but {} bytes were stored (sizes {:?})", n, stored.len(), sizes);
        std::fs::remove_dir_all(&dir).unwrap();
    }

    // ---- F4 (write): [len 2 of cap 4] = "ab", [len 4 of cap 4] = "cdef" at offset 0: the file must read "abcdef" and 6 be reported
    #[test]
    fn f4_write_partially_filled_buffer() {
        let (dir, path) = tmp("f4w", b"");
        let mut m1 = *b"abXX";
        let mut m2 = *b"cdef";
        let res = block_on(async {
            let file = File::async_open(&path, true, true).await.unwrap();
            let bufs = vec![unsafe { FileVolatileBuf::new_with_data(&mut m1, 2) }, unsafe { FileVolatileBuf::new_with_data(&mut m2, 4) }];
            let (res, _bufs) = file.async_write_vectored_at_volatile(bufs, 0).await;
            res
        });
        let n = res.unwrap();
        let content = std::fs::read(&path).unwrap();
        assert_eq!(content, b"abcdef".to_vec(), "file content {:?}", String::from_utf8_lossy(&content));
        assert_eq!(n, 6);
        std::fs::remove_dir_all(&dir).unwrap();
    }
}
