// Reproduction of findings D10/D11 (property C18) against the real crate, public API only.
// Place as tests/repro_pt_seal.rs in a checkout of fuse-backend-rs and run `cargo test --offline --test repro_pt_seal`.
//
// C18: "When size sealing is enabled, for any sequence of requests with any flags (writes at any offset and length on handles opened in,
// or later switched to, append mode; truncating opens and creates; size-changing setattr; every fallocate mode), no regular file that
// already existed in the exported tree ends with a different size."
use std::ffi::CString;
use std::fs;
use std::io::{Seek, SeekFrom, Write};

use fuse_backend_rs::abi::fuse_abi::CreateIn;
use fuse_backend_rs::api::filesystem::{Context, FileSystem};
use fuse_backend_rs::passthrough::{Config, PassthroughFs};
use vmm_sys_util::tempdir::TempDir;
use vmm_sys_util::tempfile::TempFile;

const ROOT_ID: u64 = 1;

fn sealed_fs(dir: &TempDir) -> PassthroughFs<()> {
    let cfg = Config { root_dir: dir.as_path().to_string_lossy().to_string(), do_import: true, seal_size: true, ..Default::default() };
    let fs = PassthroughFs::<()>::new(cfg).unwrap();
    fs.import().unwrap();
    fs
}

fn existing_file(dir: &TempDir, name: &str, content: &[u8]) -> std::path::PathBuf {
    let p = dir.as_path().join(name);
    fs::write(&p, content).unwrap();
    p
}

// D10a: OPEN with O_TRUNC on a sealed export truncates the file
#[test]
fn d10_open_trunc_on_sealed_export() {
    let dir = TempDir::new().unwrap();
    let p = existing_file(&dir, "f", b"0123456789");
    let fs = sealed_fs(&dir);
    let ctx = Context::default();
    let e = fs.lookup(&ctx, ROOT_ID, &CString::new("f").unwrap()).unwrap();
    let r = fs.open(&ctx, e.inode, (libc::O_WRONLY | libc::O_TRUNC) as u32, 0);
    let size = fs::metadata(&p).unwrap().len();
    assert_eq!(size, 10, "sealed export: OPEN(O_TRUNC) changed the size of an existing file to {} (open returned {:?})", size, r.map(|x| x.0));
}

// D10b: CREATE (without O_EXCL) of an existing name with O_TRUNC truncates the file
#[test]
fn d10_create_trunc_on_sealed_export() {
    let dir = TempDir::new().unwrap();
    let p = existing_file(&dir, "g", b"0123456789");
    let fs = sealed_fs(&dir);
    let ctx = Context::default();
    let args = CreateIn { flags: (libc::O_CREAT | libc::O_WRONLY | libc::O_TRUNC) as u32, mode: 0o644, umask: 0, fuse_flags: 0 };
    let r = fs.create(&ctx, ROOT_ID, &CString::new("g").unwrap(), args);
    let size = fs::metadata(&p).unwrap().len();
    assert_eq!(size, 10, "sealed export: CREATE(O_TRUNC) of an existing file changed its size to {} (create ok = {})", size, r.is_ok());
}

// D11: a WRITE that stays within the file size by its offset, on a handle in append mode, grows the file
// (Linux: on an O_APPEND descriptor pwrite() appends regardless of the offset)
#[test]
fn d11_append_write_on_sealed_export() {
    let dir = TempDir::new().unwrap();
    let p = existing_file(&dir, "h", b"0123456789");
    let fs = sealed_fs(&dir);
    let ctx = Context::default();
    let e = fs.lookup(&ctx, ROOT_ID, &CString::new("h").unwrap()).unwrap();
    let oflags = (libc::O_WRONLY | libc::O_APPEND) as u32;
    let (h, _, _) = fs.open(&ctx, e.inode, oflags, 0).unwrap();
    let mut buf = TempFile::new().unwrap().into_file();
    buf.write_all(b"abcd").unwrap();
    buf.seek(SeekFrom::Start(0)).unwrap();
    // offset 0, 4 bytes: inside the 10 bytes of the file, so the seal check lets it through
    let r = fs.write(&ctx, e.inode, h.unwrap(), &mut buf, 4, 0, None, false, oflags, 0);
    let size = fs::metadata(&p).unwrap().len();
    assert_eq!(size, 10, "sealed export: WRITE(offset 0, 4 bytes) on an O_APPEND handle grew the file to {} bytes (write returned {:?})", size, r);
}

// switched to append mode later: the handle was opened without O_APPEND, the WRITE request carries O_APPEND in its flags
#[test]
fn d11_switched_to_append_on_sealed_export() {
    let dir = TempDir::new().unwrap();
    let p = existing_file(&dir, "i", b"0123456789");
    let fs = sealed_fs(&dir);
    let ctx = Context::default();
    let e = fs.lookup(&ctx, ROOT_ID, &CString::new("i").unwrap()).unwrap();
    let (h, _, _) = fs.open(&ctx, e.inode, libc::O_WRONLY as u32, 0).unwrap();
    let mut buf = TempFile::new().unwrap().into_file();
    buf.write_all(b"abcd").unwrap();
    buf.seek(SeekFrom::Start(0)).unwrap();
    let r = fs.write(&ctx, e.inode, h.unwrap(), &mut buf, 4, 0, None, false, (libc::O_WRONLY | libc::O_APPEND) as u32, 0);
    let size = fs::metadata(&p).unwrap().len();
    assert_eq!(size, 10, "sealed export: WRITE on a handle switched to append mode grew the file to {} bytes (write returned {:?})", size, r);
}

// control: requests that stay within the current size behave as without sealing
#[test]
fn control_in_place_write_is_allowed() {
    let dir = TempDir::new().unwrap();
    let p = existing_file(&dir, "j", b"0123456789");
    let fs = sealed_fs(&dir);
    let ctx = Context::default();
    let e = fs.lookup(&ctx, ROOT_ID, &CString::new("j").unwrap()).unwrap();
    let (h, _, _) = fs.open(&ctx, e.inode, libc::O_WRONLY as u32, 0).unwrap();
    let mut buf = TempFile::new().unwrap().into_file();
    buf.write_all(b"abcd").unwrap();
    buf.seek(SeekFrom::Start(0)).unwrap();
    let r = fs.write(&ctx, e.inode, h.unwrap(), &mut buf, 4, 3, None, false, libc::O_WRONLY as u32, 0);
    assert_eq!(r.unwrap(), 4);
    assert_eq!(fs::read(&p).unwrap(), b"012abcd789");
}

// D12: a WRITE refused by the seal check must leave the handle usable ("requests that stay within the current size behave as
// without sealing"); the refusal path dropped a File that merely borrowed the handle's descriptor and so closed it
#[test]
fn d12_refused_write_keeps_the_handle_usable() {
    let dir = TempDir::new().unwrap();
    let p = existing_file(&dir, "k", b"0123456789");
    let fs = sealed_fs(&dir);
    let ctx = Context::default();
    let e = fs.lookup(&ctx, ROOT_ID, &CString::new("k").unwrap()).unwrap();
    let (h, _, _) = fs.open(&ctx, e.inode, libc::O_WRONLY as u32, 0).unwrap();
    let mut buf = TempFile::new().unwrap().into_file();
    buf.write_all(b"abcd").unwrap();
    buf.seek(SeekFrom::Start(0)).unwrap();
    // beyond the end: refused
    let r = fs.write(&ctx, e.inode, h.unwrap(), &mut buf, 4, 8, None, false, libc::O_WRONLY as u32, 0);
    assert_eq!(r.unwrap_err().raw_os_error(), Some(libc::EPERM));
    assert_eq!(fs::metadata(&p).unwrap().len(), 10);
    // within the size, same handle: must work as without sealing
    buf.seek(SeekFrom::Start(0)).unwrap();
    let r = fs.write(&ctx, e.inode, h.unwrap(), &mut buf, 4, 3, None, false, libc::O_WRONLY as u32, 0);
    assert_eq!(r.map_err(|e| e.raw_os_error()), Ok(4), "the handle's descriptor was closed by the refused write");
    assert_eq!(fs::read(&p).unwrap(), b"012abcd789");
    // dropping the file system closes the descriptor a second time otherwise ("IO Safety violation: owned file descriptor already closed" aborts a debug build)
    std::mem::forget(fs);
}
