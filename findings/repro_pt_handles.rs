// Reproduction of finding D13 (property C15; the agent that wrote this file called it D12) against the real crate, public API only.
// Place as tests/repro_pt_handles.rs in a checkout of fuse-backend-rs and run `cargo test --offline --test repro_pt_handles`.
//
// C15: "... Once the client has released every handle and forgotten every inode, the server holds no more open file descriptors,
// live inode objects, handles or directory-position records than a freshly started server, ... and also after failed operations."
//
// PassthroughFs::create takes a reference on the inode (do_lookup) BEFORE the fallible steps of the "file already exists" branch
// (drop_cap_fsetid / set_creds / open_inode) and returns their error without giving the reference back.  The client is never told
// the inode number, so it can never forget it: the InodeData (and its O_PATH descriptor) stays until DESTROY.
use std::ffi::CString;

use fuse_backend_rs::abi::fuse_abi::CreateIn;
use fuse_backend_rs::api::filesystem::{Context, FileSystem};
use fuse_backend_rs::passthrough::{Config, PassthroughFs};
use vmm_sys_util::tempdir::TempDir;

const ROOT_ID: u64 = 1;

fn open_fds() -> usize {
    std::fs::read_dir("/proc/self/fd").unwrap().count()
}

fn run(no_open: bool) {
    let dir = TempDir::new().unwrap();
    // an existing special file: CREATE without O_EXCL finds it (EEXIST), looks it up and then refuses to open it (EBADF)
    let path = CString::new(dir.as_path().join("fifo").to_str().unwrap()).unwrap();
    assert_eq!(unsafe { libc::mkfifo(path.as_ptr(), 0o644) }, 0);

    let cfg = Config {
        root_dir: dir.as_path().to_string_lossy().to_string(),
        do_import: true,
        no_open,
        cache_policy: fuse_backend_rs::passthrough::CachePolicy::Always,
        inode_file_handles: false,
        ..Default::default()
    };
    let fs = PassthroughFs::<()>::new(cfg).unwrap();
    fs.import().unwrap();
    let ctx = Context::default();
    let name = CString::new("fifo").unwrap();

    let fds_before = open_fds();
    for _ in 0..3 {
        let args = CreateIn { flags: libc::O_RDWR as u32, mode: 0o644, umask: 0, fuse_flags: 0 };
        let r = fs.create(&ctx, ROOT_ID, &name, args);
        assert!(r.is_err(), "create on an existing FIFO is refused");
    }
    let fds_after = open_fds();

    // The client holds no reference (all three creates failed).  It now takes ONE and gives it back:
    let e = fs.lookup(&ctx, ROOT_ID, &name).unwrap();
    fs.forget(&ctx, e.inode, 1);
    // ... after which the inode must be gone.
    let alive = fs.getattr(&ctx, e.inode, None).is_ok();

    assert!(
        !alive && fds_after == fds_before,
        "no_open={}: inode {} still live after the client forgot its only reference: {}; open descriptors before/after the failed creates: {}/{}",
        no_open, e.inode, alive, fds_before, fds_after
    );
}

// one test (the descriptor count is per process, so the two configurations must not run concurrently)
#[test]
fn d13_failed_create_leaks_inode_reference() {
    run(false);
    run(true);
}
