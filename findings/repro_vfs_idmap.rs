// Reproduction of findings D5 and D7 (property C14) against the real crate, public API only.
// Place as tests/repro_vfs_idmap.rs in a checkout of fuse-backend-rs and run `cargo test --offline --test repro_vfs_idmap`.
use std::any::Any;
use std::ffi::CStr;
use std::io::Result;
use std::sync::{Arc, Mutex};

use fuse_backend_rs::abi::fuse_abi::ROOT_ID;
use fuse_backend_rs::api::filesystem::{Context, Entry, FileSystem};
use fuse_backend_rs::api::{BackendFileSystem, Vfs, VfsOptions};

struct Backend {
    root_uid: u32,
    seen: Arc<Mutex<Vec<(u32, u32)>>>,
}
impl FileSystem for Backend {
    type Inode = u64;
    type Handle = u64;
    fn lookup(&self, ctx: &Context, _p: u64, _n: &CStr) -> Result<Entry> {
        self.seen.lock().unwrap().push((ctx.uid, ctx.gid));
        Ok(Entry { inode: 2, ..Default::default() })
    }
}
impl BackendFileSystem for Backend {
    fn mount(&self) -> Result<(Entry, u64)> {
        let mut e = Entry { inode: 1, ..Default::default() };
        e.attr.st_uid = self.root_uid;
        e.attr.st_gid = self.root_uid;
        Ok((e, 100))
    }
    fn as_any(&self) -> &dyn Any { self }
}

// D7: looking up a mountpoint translates the mount root's owner ids twice when the internal and external ranges overlap.
#[test]
fn d7_mount_root_owner_translated_once() {
    let vfs = Vfs::new(VfsOptions { id_mapping: (0, 1000, 65536), ..Default::default() });
    let seen = Arc::new(Mutex::new(Vec::new()));
    vfs.mount(Box::new(Backend { root_uid: 5, seen }), "/x").unwrap();
    let ctx = Context { uid: 1000, gid: 1000, pid: 1 };
    let e = vfs.lookup(&ctx, ROOT_ID.into(), CStr::from_bytes_with_nul(b"x\0").unwrap()).unwrap();
    // internal 5 must be shown to the client as external 1005
    assert_eq!((e.attr.st_uid, e.attr.st_gid), (1005, 1005));
}

// D5: a request on ROOT_ID is routed to the backend mounted on "/", but its caller ids are translated with the global
// mapping instead of that mount's own mapping.
#[test]
fn d5_root_mount_uses_its_own_mapping_for_caller_ids() {
    let vfs = Vfs::new(VfsOptions::default());
    let seen = Arc::new(Mutex::new(Vec::new()));
    vfs.mount_with_id_mapping(Box::new(Backend { root_uid: 0, seen: seen.clone() }), "/", Some((0, 100000, 65536))).unwrap();
    let mut ctx = Context { uid: 100005, gid: 100007, pid: 1 };
    // what Server::handle_message does before dispatch
    vfs.id_remap_with_nodeid(&mut ctx, ROOT_ID.into()).unwrap();
    vfs.lookup(&ctx, ROOT_ID.into(), CStr::from_bytes_with_nul(b"f\0").unwrap()).unwrap();
    assert_eq!(seen.lock().unwrap().as_slice(), &[(5, 7)]);
}
