// Reproduction of the findings of unit `ptlookup` (property C08) against the real crate, public API only.
// Place as tests/repro_pt_lookup.rs in a checkout of fuse-backend-rs and run `cargo test --offline --test repro_pt_lookup`.
//
// C08: "... While valid an inode number denotes one host file and a host file has one inode number ... While the count is positive
// every request on that inode number behaves as on the host ..."
//
// d14 (obligation [C08.lookup.one_file.hostino_handles]): with `use_host_ino` and `inode_file_handles` both on, a host inode number
// that is re-used by a NEW file while the client still holds references to the OLD (unlinked) file is not recognised as the same
// file (the handles differ, InodeMap::get_alt_locked skips the id match), but allocate_inode derives the SAME number from
// (dev, mnt, ino): InodeStore::insert replaces the live inode.  The client's later FORGET for the old file then removes the new one,
// to which it still holds a reference: requests on it fail with EBADF.
//
// d15 (obligation [C08.readdirplus.err_undelivered]): when the `add_entry` callback of readdirplus returns an error the entry was not
// delivered, but the reference taken by do_lookup for it is kept: one FORGET(n) of what the client knows never releases the inode.
use std::ffi::CString;
use std::fs;
use std::io;
use std::os::unix::fs::MetadataExt;

use fuse_backend_rs::api::filesystem::{Context, DirEntry, Entry, FileSystem};
use fuse_backend_rs::passthrough::{Config, PassthroughFs};
use vmm_sys_util::tempdir::TempDir;

const ROOT_ID: u64 = 1;

fn new_fs(dir: &TempDir, use_host_ino: bool, handles: bool) -> PassthroughFs<()> {
    let cfg = Config {
        root_dir: dir.as_path().to_string_lossy().to_string(),
        do_import: true,
        use_host_ino,
        inode_file_handles: handles,
        ..Default::default()
    };
    let fs = PassthroughFs::<()>::new(cfg).unwrap();
    fs.import().unwrap();
    fs
}

#[test]
fn d14_reused_host_inode_takes_over_a_live_inode_number() {
    let dir = TempDir::new_in(std::path::Path::new("/var/tmp")).unwrap();
    let fs = new_fs(&dir, true, true);
    let ctx = Context::default();

    let pa = dir.as_path().join("a");
    fs::write(&pa, b"old file").unwrap();
    let ino_a = fs::metadata(&pa).unwrap().ino();
    let ea = fs.lookup(&ctx, ROOT_ID, &CString::new("a").unwrap()).unwrap(); // the client now holds 1 reference to `a`

    // the file is unlinked (by another client of the shared directory, or by this client whose FORGET is still queued) ...
    fs::remove_file(&pa).unwrap();
    // ... and the host file system re-uses the inode number for a new file (ext4 does so at once)
    let mut reused = None;
    for i in 0..64 {
        let p = dir.as_path().join(format!("b{}", i));
        fs::write(&p, b"a different, longer file").unwrap();
        if fs::metadata(&p).unwrap().ino() == ino_a {
            reused = Some(format!("b{}", i));
            break;
        }
    }
    let name_b = match reused {
        Some(n) => n,
        None => {
            eprintln!("SKIPPED: the host file system did not re-use inode number {}", ino_a);
            return;
        }
    };
    let eb = fs.lookup(&ctx, ROOT_ID, &CString::new(name_b.clone()).unwrap()).unwrap(); // 1 reference to the new file

    // two different host files, both referenced by the client: they must not share an inode number
    let same_number = ea.inode == eb.inode;

    // the client drops its reference to the OLD file; it still holds one to the new file
    fs.forget(&ctx, ea.inode, 1);
    let after = fs.getattr(&ctx, eb.inode, None);
    assert!(
        !same_number && after.is_ok(),
        "lookup(a) -> inode {}, unlink a, host re-uses ino {} for {}, lookup({}) -> inode {} (same number: {}); after FORGET(a, 1) getattr on the still referenced new file: {:?}",
        ea.inode, ino_a, name_b, name_b, eb.inode, same_number, after.map(|x| x.0.st_size)
    );
}

#[test]
fn d15_readdirplus_keeps_the_reference_of_an_entry_whose_delivery_failed() {
    let dir = TempDir::new_in(std::path::Path::new("/var/tmp")).unwrap();
    let fs = new_fs(&dir, false, false);
    let ctx = Context::default();
    fs::write(dir.as_path().join("only"), b"x").unwrap();

    let (h, _) = fs.opendir(&ctx, ROOT_ID, libc::O_RDONLY as u32).unwrap();
    let mut seen: Vec<u64> = Vec::new();
    // the server-side callback fails for the entry (as Server::do_readdir's add_dirent does when the reply buffer cannot be written,
    // or Vfs::readdirplus when convert_inode fails): nothing is delivered to the client
    let r = fs.readdirplus(&ctx, ROOT_ID, h.unwrap(), 4096, 0, &mut |_d: DirEntry, e: Entry| -> io::Result<usize> {
        seen.push(e.inode);
        Err(io::Error::from_raw_os_error(libc::EIO))
    });
    // (do_readdir reports the error only if it hits the very first record of the buffer, "." and ".." included; otherwise Ok)
    let _ = r;
    assert_eq!(seen.len(), 1);
    let ino = seen[0];
    // The client was given nothing, so it holds no reference and will never send a FORGET for `ino`:
    // the inode must not be registered any more.  (getattr on an unknown inode number fails with EBADF.)
    let still = fs.getattr(&ctx, ino, None);
    assert!(
        still.is_err(),
        "readdirplus delivered no entry (callback returned EIO) but inode {} stays registered with a reference nobody holds",
        ino
    );
}
