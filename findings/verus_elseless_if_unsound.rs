// NOT a defect of /repo: a soundness problem of the checker (Verus 0.2026.09.13.671956e), found while mutation-testing unit `handles`.
// `verus verus_elseless_if_unsound.rs` reports t1 and t10 as VERIFIED although they claim `c ==> false`.
// A value that holds a `&mut` (here W; in the unit: a BTreeMap OccupiedEntry) is moved into a callee in the then-branch of an
// else-less `if <bool>` that falls through.  At the join Verus resolves `w` as if it had not been moved (final == current) and also
// applies the callee's postcondition about final(w.r): contradiction, every later obligation on that path is vacuous.
// With an explicit `else { }` (t8), an early `return` in the branch (t7), `if let` (a2) or `match` (a1) the result is correct.
// Defence in /verif: rewrite rule R24 (vx/extract.py r24_explicit_else) appends `else { }` to else-less ifs of the functions that opt in.
use vstd::prelude::*;
verus! {
pub struct W<'a> { pub r: &'a mut u64 }
#[verifier::external_body] fn consume(w: W)
    requires *old(w.r) < 100
    ensures *final(w.r) == *old(w.r) + 1
{ unimplemented!() }
fn t1(x: &mut u64, c: bool)          // WRONGLY verified
    requires *old(x) < 100
    ensures c ==> false
{
    let w = W { r: x };
    if c { consume(w); }
}
fn t10(x: &mut u64, c: bool)         // WRONGLY verified
    requires *old(x) < 100
    ensures c ==> false
{
    let w = W { r: x };
    let mut i = 0;
    if c { consume(w); i = 1; }
}
fn t7(x: &mut u64, c: bool)          // correctly rejected
    requires *old(x) < 100
    ensures c ==> false
{
    let w = W { r: x };
    if c { consume(w); return; }
}
fn t8(x: &mut u64, c: bool)          // correctly rejected
    requires *old(x) < 100
    ensures c ==> false
{
    let w = W { r: x };
    if c { consume(w); } else { }
}
}
fn main() {}
