// Reproduction of a C16 finding (passthrough READDIR) against the real crate, public API only.
// Place as tests/repro_pt_readdir.rs in a checkout of fuse-backend-rs and run `cargo test --offline --test repro_pt_readdir`.
//
// C16: "For any directory content, any reply-buffer sizes that can hold at least the next entry, and any way of resuming (...),
// concatenating the replies lists every entry of an unchanged directory exactly once (...), omits "." and "..", and ends with an empty reply."
//
// PassthroughFs::do_readdir hands the client's `size` to getdents64 as the size of ITS buffer and then walks the records it got,
// passing over "." and "..".  A linux_dirent64 record (19 + name + NUL, padded to 8) for "." or ".." takes 24 bytes, so with size = 64 the
// kernel returns just "." and ".." when they come first and the next name has 9..16 characters (record of 32 bytes > 16 left; on ext4,
// where the dots sit in hash order, a batch holding only "." arises the same way with size 48) - although the FUSE dirent of that
// entry (24 + 16 = 40 bytes) fits the reply buffer.  Every record of the batch is passed over, nothing is offered to the callback, the reply
// is empty and the client takes that for the end of the directory: a non-empty directory is listed as empty.
// (Unit ptreaddir proves that a batch is empty only at the end of the directory - [C16.do_readdir.resume] - but the VISIBLE part of a
// non-empty batch can be empty: the obligation [C16.do_readdir.progress] of that unit fails for exactly this case.)
use std::fs;

use fuse_backend_rs::api::filesystem::{Context, DirEntry, FileSystem};
use fuse_backend_rs::passthrough::{Config, PassthroughFs};
use vmm_sys_util::tempdir::TempDir;

const ROOT_ID: u64 = 1;

// what Server::add_dirent does with a plain READDIR entry: 24-byte fuse_dirent + name, padded to 8; Ok(0) when it does not fit
fn fuse_dirent_len(name_len: usize) -> usize {
    (24 + name_len + 7) & !7
}

fn list_all(fs: &PassthroughFs<()>, handle: u64, size: u32) -> Vec<String> {
    let ctx = Context::default();
    let mut names = Vec::new();
    let mut offset = 0u64;
    for _round in 0..1000 {
        let mut used = 0usize;
        let mut got: Vec<(String, u64)> = Vec::new();
        fs.readdir(&ctx, ROOT_ID, handle, size, offset, &mut |d: DirEntry| {
            let need = fuse_dirent_len(d.name.len());
            if used + need > size as usize {
                return Ok(0);
            }
            used += need;
            got.push((String::from_utf8_lossy(d.name).to_string(), d.offset));
            Ok(need)
        })
        .unwrap();
        if got.is_empty() {
            return names; // empty reply = end of directory
        }
        offset = got.last().unwrap().1;
        names.extend(got.into_iter().map(|g| g.0));
    }
    panic!("listing did not terminate");
}

#[test]
fn small_reply_buffer_lists_directory_as_empty() {
    let dir = TempDir::new().unwrap();
    let mut want: Vec<String> = (0..5).map(|i| format!("file_{:05}", i)).collect(); // 10 characters each
    for n in &want {
        fs::write(dir.as_path().join(n), b"x").unwrap();
    }
    let cfg = Config { root_dir: dir.as_path().to_string_lossy().to_string(), do_import: true, ..Default::default() };
    let fs = PassthroughFs::<()>::new(cfg).unwrap();
    fs.import().unwrap();
    let ctx = Context::default();
    let (handle, _) = fs.opendir(&ctx, ROOT_ID, libc::O_RDONLY as u32).unwrap();
    let handle = handle.unwrap();

    // control: with a page-sized buffer the handle lists everything
    want.sort();
    let mut ctl = list_all(&fs, handle, 4096);
    ctl.sort();
    assert_eq!(ctl, want, "control listing with size 4096");
    // every reply buffer of at least 40 bytes holds the next entry: a 10-character name needs 24 + 16 = 40 bytes.
    // Where "." and ".." sit in the stream depends on the host filesystem (first on tmpfs/xfs, in hash order on ext4), so several
    // small sizes are tried; each of them must list the whole directory.
    assert!(fuse_dirent_len(10) <= 40);
    for size in [40u32, 48, 56, 64, 72] {
        let mut got = list_all(&fs, handle, size);
        got.sort();
        assert_eq!(got, want, "READDIR with size {} (each entry needs 40 bytes): listed {:?}, directory holds {:?}", size, got, want);
    }
}
