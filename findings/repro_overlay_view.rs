// Reproduction of the overlay LIVE-VIEW findings (property C10, unit ovl_view) against the real crate, public API only.
// Place as tests/repro_overlay_view.rs in a checkout of fuse-backend-rs and run `cargo test --offline --test repro_overlay_view`.
// Every test FAILS on a tree that has the defect and passes once it is repaired.  On e43385b (/repo HEAD): v1a, v1b, v1c_v3, v3_recreated_upper, v2 and v4 fail;
// v0 (sanity) passes.
//
// C10: "the tree visible through the overlay equals the union defined by overlayfs rules (topmost entry wins, directories merge, whiteouts
// hide, opaque directories cut off lower contents) updated by each operation as an ordinary filesystem would be".
//
// The client in these tests behaves like the kernel: it counts, per inode number, the entries it was given (LOOKUP, CREATE, MKDIR ..) and
// FORGETs exactly those counts, at a time of its own choosing (inode cache shrinking, an unlinked file being closed).
//
// V1  (root cause, outside the obligations of unit ovl_view: the calls sit in do_rm / do_create / do_mkdir, unit ovl_ops, where the bookkeeping calls are
//     contract-free)  A node that is removed while the client still references it stays in the delayed-removal table of the InodeStore - and its
//     path -> number reservation stays as well: InodeStore::remove_inode returns before `path_mapping.remove` when the removal is delayed, and do_rm of a
//     lower-only node passes no path at all.  The next node at that path (the whiteout do_rm itself creates, a file or directory created there later) gets
//     the SAME number from alloc_inode(path).  Two nodes carry one number; the client cannot tell them apart and neither can forget_one:
//     get_all_inode prefers the live node, so the references the client drops for the removed file are taken from the new node.  Its count reaches
//     zero while it is a member of the tree: it leaves the inode table (LOOKUP still finds it through the parent's children table and hands out a
//     number that no longer resolves: GETATTR / OPEN -> ENOENT), and
// V3  [C10.view.forget_one.other_untouched]  when later the count of the OLD node reaches zero, forget_one removes `v.name` from the children table of
//     v's former parent WITHOUT checking that the entry under that name still is v: the re-created file disappears from LOOKUP and READDIR although it
//     exists in the upper layer (the directory is marked loaded and is never scanned again).  With V1 repaired (a fresh number for the re-created
//     name) V3 alone breaks the shorter history  lookup a (a file of some layer); unlink a (still open); create a; close -> FORGET(old): `a` vanishes.
//     (Nodes made at run time - do_create, do_mkdir, do_mknod, do_symlink, do_link, the whiteout of do_rm - never get their `parent` link set, only
//     load_directory sets it: for them forget_one's removal from the parent's table never happens at all, and READDIR of such a directory lists the
//     ROOT's attributes as "..".  Observation V5, no test.)
// V2  [C10.view.do_readdir.plus_refs]  do_readdir (READDIRPLUS) increments the node's lookup count BEFORE offering the entry to the callback and does not
//     give it back when the entry is not delivered (callback returns Ok(0) = no room, or Err): a reference nobody can forget.  The node can never be
//     dropped: after it is unlinked it stays in the delayed-removal table for ever together with its layer inodes (passthrough layer: one O_PATH
//     descriptor each).  (The same holds for "." and "..": the kernel does not count them, the overlay does.)
// V4  (observation; FileSystem::readdir: "adding or removing entries should never cause the file system to skip over unrelated entries ... `offset` cannot be a
//     simple index") do_readdir's offsets ARE indices into [".", "..", children in HashMap order]: a client that removes the entries it has been given and
//     continues from the last offset (rm -r on a directory larger than one reply) never sees the rest.  Unit ovl_view decides resumption for an UNCHANGED
//     table only (assumption A-HASH-ORDER).
use std::ffi::CString;
use std::fs;
use std::path::Path;
use std::sync::{Arc, Mutex};

use fuse_backend_rs::abi::fuse_abi::CreateIn;
use fuse_backend_rs::api::filesystem::{Context, FileSystem, Layer};
use fuse_backend_rs::overlayfs::config::Config;
use fuse_backend_rs::overlayfs::OverlayFs;
use fuse_backend_rs::passthrough::{self, PassthroughFs};
use vmm_sys_util::tempdir::TempDir;

const ROOT_ID: u64 = 1;
type BoxedLayer = Box<dyn Layer<Inode = u64, Handle = u64> + Send + Sync>;

// the descriptor-counting test must not run while other tests open and close files
static SERIAL: Mutex<()> = Mutex::new(());

fn layer(dir: &Path) -> Arc<BoxedLayer> {
    let mut config = passthrough::Config::default();
    config.root_dir = dir.to_string_lossy().to_string();
    config.xattr = true;
    config.do_import = true;
    let fs = Box::new(PassthroughFs::<()>::new(config).unwrap());
    fs.import().unwrap();
    Arc::new(fs as BoxedLayer)
}

fn overlay(upper: Option<&Path>, lowers: &[&Path]) -> OverlayFs {
    let mut config = Config::default();
    config.do_import = true;
    let fs = OverlayFs::new(upper.map(layer), lowers.iter().map(|p| layer(p)).collect(), config).unwrap();
    fs.import().unwrap();
    fs
}

fn c(s: &str) -> CString {
    CString::new(s).unwrap()
}

// names a READDIR of `dir` lists (without . and ..)
fn listing(fs: &OverlayFs, dir: u64) -> Vec<String> {
    let ctx = Context::default();
    let mut out = Vec::new();
    let mut offset = 0u64;
    loop {
        let mut got = 0;
        fs.readdir(&ctx, dir, 0, 65536, offset, &mut |d| {
            got += 1;
            offset = d.offset;
            let n = String::from_utf8_lossy(d.name).to_string();
            if n != "." && n != ".." {
                out.push(n);
            }
            Ok(1)
        })
        .unwrap();
        if got == 0 {
            break;
        }
    }
    out.sort();
    out
}

fn open_fds() -> usize {
    fs::read_dir("/proc/self/fd").unwrap().count()
}

// the client's bookkeeping: references held per inode number
#[derive(Default)]
struct Refs(std::collections::HashMap<u64, u64>);
impl Refs {
    fn got(&mut self, ino: u64) -> u64 {
        *self.0.entry(ino).or_insert(0) += 1;
        ino
    }
    // drop everything that is cached: FORGET(number, count given)
    fn forget_all(&mut self, fs: &OverlayFs) {
        for (ino, n) in self.0.drain() {
            fs.forget(&Context::default(), ino, n);
        }
    }
}

fn lookup(fs: &OverlayFs, refs: &mut Refs, parent: u64, name: &str) -> Option<u64> {
    match fs.lookup(&Context::default(), parent, &c(name)) {
        Ok(e) if e.inode != 0 => Some(refs.got(e.inode)),
        _ => None,
    }
}

fn create(fs: &OverlayFs, refs: &mut Refs, parent: u64, name: &str) -> u64 {
    let ctx = Context::default();
    let args = CreateIn { flags: (libc::O_CREAT | libc::O_WRONLY) as u32, mode: 0o644, umask: 0, fuse_flags: 0 };
    let (e, h, _, _) = fs.create(&ctx, parent, &c(name), args).unwrap();
    if let Some(h) = h {
        fs.release(&ctx, e.inode, 0, h, true, true, None).unwrap();
    }
    refs.got(e.inode)
}

// what must hold for a file that exists: LOOKUP finds it, the number it answers with resolves (GETATTR), READDIR lists it
fn check_present(fs: &OverlayFs, refs: &mut Refs, name: &str, when: &str, problems: &mut Vec<String>) {
    match lookup(fs, refs, ROOT_ID, name) {
        None => problems.push(format!("{}: LOOKUP {} -> ENOENT", when, name)),
        Some(ino) => {
            if let Err(e) = fs.getattr(&Context::default(), ino, None) {
                problems.push(format!("{}: LOOKUP {} answers inode {}, GETATTR({}) -> {:?}: the number does not resolve", when, name, ino, ino, e.raw_os_error()));
            }
        }
    }
    if !listing(fs, ROOT_ID).contains(&name.to_string()) {
        problems.push(format!("{}: READDIR does not list {}", when, name));
    }
}

// V0 (sanity, passes): without removal the client can drop and re-acquire its references as often as it likes.
#[test]
fn v0_lookup_forget_cycles_keep_the_file() {
    let _g = SERIAL.lock().unwrap_or_else(|e| e.into_inner());
    let (up, low) = (TempDir::new().unwrap(), TempDir::new().unwrap());
    fs::write(low.as_path().join("a"), b"lower").unwrap();
    let fs = overlay(Some(up.as_path()), &[low.as_path()]);
    let (mut refs, mut problems) = (Refs::default(), Vec::new());
    for round in 0..3 {
        check_present(&fs, &mut refs, "a", &format!("round {}", round), &mut problems);
        refs.forget_all(&fs);
    }
    assert!(problems.is_empty(), "{:#?}", problems);
}

// V1a: the number of an inode the client still references is handed out again, for another file (lower file: the whiteout and the file created over it).
#[test]
fn v1a_number_of_a_referenced_inode_is_not_reused_lower() {
    let _g = SERIAL.lock().unwrap_or_else(|e| e.into_inner());
    let (up, low) = (TempDir::new().unwrap(), TempDir::new().unwrap());
    fs::write(low.as_path().join("a"), b"lower").unwrap();
    let fs = overlay(Some(up.as_path()), &[low.as_path()]);
    let mut refs = Refs::default();
    let old = lookup(&fs, &mut refs, ROOT_ID, "a").expect("a visible"); // the client holds one reference to `old` (say: the file is open)
    fs.unlink(&Context::default(), ROOT_ID, &c("a")).unwrap();
    let new = create(&fs, &mut refs, ROOT_ID, "a");
    assert_ne!(old, new, "the unlinked file is still referenced by the client, yet the file created in its place answers with the same inode number: the client takes them for one inode");
}

// V1b: the same for a file that lives in the upper layer only.
#[test]
fn v1b_number_of_a_referenced_inode_is_not_reused_upper() {
    let _g = SERIAL.lock().unwrap_or_else(|e| e.into_inner());
    let (up, low) = (TempDir::new().unwrap(), TempDir::new().unwrap());
    let fs = overlay(Some(up.as_path()), &[low.as_path()]);
    let mut refs = Refs::default();
    let old = create(&fs, &mut refs, ROOT_ID, "a");
    fs.unlink(&Context::default(), ROOT_ID, &c("a")).unwrap();
    let new = create(&fs, &mut refs, ROOT_ID, "a");
    assert_ne!(old, new, "the unlinked file is still referenced by the client, yet the file created in its place answers with the same inode number");
}

// V1c + V3: what the shared number does to the view.  lookup a; unlink a; create a; then the client drops what it has cached - twice, with a
// lookup in between (an ordinary cache-shrink / revalidate pattern).  `a` exists in the upper layer all the time.
#[test]
fn v1c_v3_recreated_file_survives_the_forgets_of_its_predecessor() {
    let _g = SERIAL.lock().unwrap_or_else(|e| e.into_inner());
    let (up, low) = (TempDir::new().unwrap(), TempDir::new().unwrap());
    fs::write(low.as_path().join("a"), b"lower").unwrap();
    let fs = overlay(Some(up.as_path()), &[low.as_path()]);
    let (mut refs, mut problems) = (Refs::default(), Vec::new());
    lookup(&fs, &mut refs, ROOT_ID, "a").expect("a visible");
    fs.unlink(&Context::default(), ROOT_ID, &c("a")).unwrap();
    create(&fs, &mut refs, ROOT_ID, "a");
    assert!(up.as_path().join("a").is_file());
    refs.forget_all(&fs); // every reference the client was given, per number
    check_present(&fs, &mut refs, "a", "after the first FORGET round", &mut problems);
    refs.forget_all(&fs);
    check_present(&fs, &mut refs, "a", "after the second FORGET round", &mut problems);
    assert!(up.as_path().join("a").is_file());
    assert!(problems.is_empty(), "`a` exists in the upper layer, but: {:#?}", problems);
}

// the same history for an upper-only file
#[test]
fn v3_recreated_upper_file_survives_the_forgets_of_its_predecessor() {
    let _g = SERIAL.lock().unwrap_or_else(|e| e.into_inner());
    let (up, low) = (TempDir::new().unwrap(), TempDir::new().unwrap());
    let fs = overlay(Some(up.as_path()), &[low.as_path()]);
    let (mut refs, mut problems) = (Refs::default(), Vec::new());
    create(&fs, &mut refs, ROOT_ID, "a");
    fs.unlink(&Context::default(), ROOT_ID, &c("a")).unwrap();
    create(&fs, &mut refs, ROOT_ID, "a");
    for round in 1..=3 {
        refs.forget_all(&fs);
        check_present(&fs, &mut refs, "a", &format!("after FORGET round {}", round), &mut problems);
    }
    assert!(problems.is_empty(), "`a` exists in the upper layer, but: {:#?}", problems);
}

// V2: READDIRPLUS whose callback has no room for the entry `a` (Ok(0)): no reference may remain.  Observed through the process's descriptors:
// once `a` is unlinked and nobody references it, its node (and the O_PATH descriptor of its lower inode) must go - as it does without the READDIRPLUS.
#[test]
fn v2_readdirplus_undelivered_entry_keeps_no_reference() {
    let _g = SERIAL.lock().unwrap_or_else(|e| e.into_inner());
    let (up, low) = (TempDir::new().unwrap(), TempDir::new().unwrap());
    fs::write(low.as_path().join("a"), b"lower").unwrap();
    let ctx = Context::default();
    let run = |refuse: bool| -> isize {
        let fs = overlay(Some(up.as_path()), &[low.as_path()]);
        if refuse {
            fs.readdirplus(&ctx, ROOT_ID, 0, 65536, 0, &mut |d, _e| {
                if d.name == b"a" {
                    Ok(0) // no room: the entry is NOT delivered
                } else {
                    Ok(1) // "." and "..": both are the root, which forget ignores
                }
            })
            .unwrap();
        }
        let before = open_fds() as isize;
        fs.unlink(&ctx, ROOT_ID, &c("a")).unwrap();
        let after = open_fds() as isize;
        drop(fs);
        let _ = fs::remove_file(up.as_path().join("a")); // the whiteout: put the lower file back in view for the next run
        after - before
    };
    let plain = run(false);
    let refused = run(true);
    assert_eq!(plain, refused,
        "descriptors held after unlinking `a`: {:+} normally, {:+} after a READDIRPLUS that did NOT deliver the entry: the undelivered entry kept a lookup reference, the node (and its lower inode) is never released",
        plain, refused);
}

// V4 (observation): a client lists a directory in pieces and removes what it has been given (rm -r).  Entries that were neither delivered nor removed must still come.
#[test]
fn v4_listing_in_pieces_while_removing_reaches_every_entry() {
    let _g = SERIAL.lock().unwrap_or_else(|e| e.into_inner());
    let (up, low) = (TempDir::new().unwrap(), TempDir::new().unwrap());
    for i in 0..8 {
        fs::write(up.as_path().join(format!("f{}", i)), b"x").unwrap();
    }
    let fs = overlay(Some(up.as_path()), &[low.as_path()]);
    let ctx = Context::default();
    let mut seen: Vec<String> = Vec::new();
    let mut offset = 0u64;
    loop {
        let mut batch: Vec<String> = Vec::new();
        let mut n = 0;
        fs.readdir(&ctx, ROOT_ID, 0, 65536, offset, &mut |d| {
            if n == 3 {
                return Ok(0); // the reply buffer is full
            }
            n += 1;
            offset = d.offset;
            let name = String::from_utf8_lossy(d.name).to_string();
            if name != "." && name != ".." {
                batch.push(name);
            }
            Ok(1)
        })
        .unwrap();
        if n == 0 {
            break;
        }
        for name in &batch {
            fs.unlink(&ctx, ROOT_ID, &c(name)).unwrap();
        }
        seen.extend(batch);
    }
    seen.sort();
    let left: Vec<String> = fs::read_dir(up.as_path()).unwrap().map(|e| e.unwrap().file_name().to_string_lossy().to_string()).collect();
    assert_eq!(seen.len(), 8, "listed {:?}; never listed (still in the upper directory): {:?}", seen, left);
}
