// Reproductions of the C20 deviations A1..A5 (async request path != sync request path) against the real crate, public API only.
// Place as tests/repro_async.rs in a checkout of fuse-backend-rs and run
//     cargo test --offline --features async-io --test repro_async
// Every test feeds THE SAME request bytes to Server::handle_message and Server::async_handle_message (same filesystem
// object, a FuseDevWriter over a fresh temp file standing for /dev/fuse) and asserts that the two observable behaviours
// (bytes on the device, filesystem calls, Ok/Err of the handler) are THE SAME - the tests fail on a tree that has the
// deviation described above each of them (all five failed on 7055914) and pass once it is fixed.
use std::ffi::CStr;
use std::future::Future;
use std::io::{self, Read, Seek, SeekFrom};
use std::os::unix::io::AsRawFd;
use std::pin::Pin;
use std::sync::{Arc, Mutex};
use std::time::Duration;

use fuse_backend_rs::abi::fuse_abi::*;
use fuse_backend_rs::api::filesystem::{
    AsyncFileSystem, AsyncZeroCopyReader, AsyncZeroCopyWriter, Context, Entry, FileSystem, OpenOptions, ZeroCopyReader,
};
use fuse_backend_rs::api::server::Server;
use fuse_backend_rs::transport::{FuseBuf, FuseDevWriter, Reader};
use vm_memory::ByteValued;

#[derive(Default)]
struct Rec {
    calls: Mutex<Vec<String>>,
}
impl Rec {
    fn log(&self, s: String) {
        self.calls.lock().unwrap().push(s)
    }
}
fn entry() -> Entry {
    Entry { inode: 5, attr_flags: FUSE_ATTR_DAX, attr_timeout: Duration::from_secs(1), entry_timeout: Duration::from_secs(1), ..Default::default() }
}
impl FileSystem for Rec {
    type Inode = u64;
    type Handle = u64;
    fn forget(&self, _c: &Context, inode: u64, count: u64) {
        self.log(format!("forget({},{})", inode, count));
    }
    fn create(&self, _c: &Context, _p: u64, _n: &CStr, _a: CreateIn) -> io::Result<(Entry, Option<u64>, OpenOptions, Option<u32>)> {
        Ok((entry(), Some(7), OpenOptions::empty(), None))
    }
    #[allow(clippy::too_many_arguments)]
    fn write(&self, _c: &Context, _i: u64, _h: u64, _r: &mut dyn ZeroCopyReader, size: u32, _o: u64, _l: Option<u64>, _d: bool, _f: u32, _ff: u32) -> io::Result<usize> {
        self.log(format!("write(size={})", size));
        Ok(0)
    }
}
type Fut<'t, T> = Pin<Box<dyn Future<Output = io::Result<T>> + Send + 't>>;
fn enosys<'t, T: 't>() -> Fut<'t, T> {
    Box::pin(async { Err(io::Error::from_raw_os_error(libc::ENOSYS)) })
}
// #[async_trait] written out by hand (async-trait is not a dev-dependency of the crate)
impl AsyncFileSystem for Rec {
    fn async_lookup<'a, 'b, 'c, 't>(&'a self, _c: &'b Context, _p: u64, _n: &'c CStr) -> Fut<'t, Entry>
    where 'a: 't, 'b: 't, 'c: 't, Self: 't { enosys() }
    fn async_getattr<'a, 'b, 't>(&'a self, _c: &'b Context, _i: u64, _h: Option<u64>) -> Fut<'t, (libc::stat64, Duration)>
    where 'a: 't, 'b: 't, Self: 't { enosys() }
    fn async_setattr<'a, 'b, 't>(&'a self, _c: &'b Context, _i: u64, _a: libc::stat64, _h: Option<u64>, _v: SetattrValid) -> Fut<'t, (libc::stat64, Duration)>
    where 'a: 't, 'b: 't, Self: 't { enosys() }
    fn async_open<'a, 'b, 't>(&'a self, _c: &'b Context, _i: u64, _f: u32, _ff: u32) -> Fut<'t, (Option<u64>, OpenOptions)>
    where 'a: 't, 'b: 't, Self: 't { enosys() }
    fn async_create<'a, 'b, 'c, 't>(&'a self, _c: &'b Context, _p: u64, _n: &'c CStr, _a: CreateIn) -> Fut<'t, (Entry, Option<u64>, OpenOptions)>
    where 'a: 't, 'b: 't, 'c: 't, Self: 't { Box::pin(async { Ok((entry(), Some(7), OpenOptions::empty())) }) }
    fn async_read<'a, 'b, 'c, 't>(&'a self, _c: &'b Context, _i: u64, _h: u64, _w: &'c mut (dyn AsyncZeroCopyWriter + Send), _s: u32, _o: u64, _l: Option<u64>, _f: u32) -> Fut<'t, usize>
    where 'a: 't, 'b: 't, 'c: 't, Self: 't { enosys() }
    fn async_write<'a, 'b, 'c, 't>(&'a self, _c: &'b Context, _i: u64, _h: u64, _r: &'c mut (dyn AsyncZeroCopyReader + Send), size: u32, _o: u64, _l: Option<u64>, _d: bool, _f: u32, _ff: u32) -> Fut<'t, usize>
    where 'a: 't, 'b: 't, 'c: 't, Self: 't {
        self.log(format!("write(size={})", size));
        Box::pin(async { Ok(0) })
    }
    fn async_fsync<'a, 'b, 't>(&'a self, _c: &'b Context, _i: u64, _d: bool, _h: u64) -> Fut<'t, ()>
    where 'a: 't, 'b: 't, Self: 't { enosys() }
    fn async_fallocate<'a, 'b, 't>(&'a self, _c: &'b Context, _i: u64, _h: u64, _m: u32, _o: u64, _l: u64) -> Fut<'t, ()>
    where 'a: 't, 'b: 't, Self: 't { enosys() }
    fn async_fsyncdir<'a, 'b, 't>(&'a self, _c: &'b Context, _i: u64, _d: bool, _h: u64) -> Fut<'t, ()>
    where 'a: 't, 'b: 't, Self: 't { enosys() }
}

struct Outcome {
    dev: Vec<u8>,        // what the "device" file holds afterwards (every device write goes to offset 0)
    ret_ok: bool,        // handle_message returned Ok
    calls: Vec<String>,  // filesystem operations invoked
}
/// hdr_len = the `len` field put into the request header (may exceed the bytes actually present); wcap = reply buffer size
fn run(asynch: bool, opcode: u32, hdr_len: u32, body: &[u8], wcap: usize) -> Outcome {
    let fs = Arc::new(Rec::default());
    let server = Server::new(fs.clone());
    let hdr = InHeader { len: hdr_len, opcode, unique: 0x1234, nodeid: 1, uid: 0, gid: 0, pid: 1, padding: 0 };
    let mut req = hdr.as_slice().to_vec();
    req.extend_from_slice(body);
    let mut file = vmm_sys_util::tempfile::TempFile::new().unwrap().into_file();
    let mut wbuf = vec![0xEEu8; wcap];           // recognisable content of the (not yet written) reply buffer
    let reader = Reader::<()>::from_fuse_buffer(FuseBuf::new(&mut req)).unwrap();
    let writer = FuseDevWriter::<()>::new(file.as_raw_fd(), &mut wbuf).unwrap();
    let ret = if asynch {
        fuse_backend_rs::async_runtime::block_on(async { unsafe { server.async_handle_message(reader, writer.into(), None, None).await } })
    } else {
        server.handle_message(reader, writer.into(), None, None)
    };
    let mut dev = Vec::new();
    file.seek(SeekFrom::Start(0)).unwrap();
    file.read_to_end(&mut dev).unwrap();
    let calls = fs.calls.lock().unwrap().clone();
    Outcome { dev, ret_ok: ret.is_ok(), calls }
}
fn same(s: &Outcome, a: &Outcome) {
    assert_eq!(s.calls, a.calls, "filesystem calls differ (sync / async)");
    assert_eq!(s.ret_ok, a.ret_ok, "handler result differs (sync / async)");
    assert_eq!(s.dev, a.dev, "bytes on the device differ (sync / async)");
}

// A1: an over-long FORGET (header len > MAX_BUFFER_SIZE + BUFFER_HEADER_SIZE).  sync: no reply (FORGET never gets one);
//     async: an error reply is written to the device.
#[test]
fn a1_oversize_forget_gets_a_reply_on_the_async_path() {
    let body = ForgetIn { nlookup: 1 };
    let s = run(false, Opcode::Forget as u32, 0x10_1001, body.as_slice(), 8192);
    let a = run(true, Opcode::Forget as u32, 0x10_1001, body.as_slice(), 8192);
    same(&s, &a);
}

// A2: a reply buffer of fewer than 16 bytes (a virtio-fs FORGET carries no writable descriptor at all).
//     sync: the operation is performed; async: ENOMEM path, the filesystem is never called.
#[test]
fn a2_small_reply_buffer_drops_the_operation_on_the_async_path() {
    let body = ForgetIn { nlookup: 3 };
    let s = run(false, Opcode::Forget as u32, 48, body.as_slice(), 0);
    let a = run(true, Opcode::Forget as u32, 48, body.as_slice(), 0);
    same(&s, &a);
}

// A3: every error reply of the async path is followed by a SECOND device write (FuseDevWriter::async_commit has no
//     `buffered` gate): 16 bytes taken from the reply buffer's memory.  Seen here because both writes go to offset 0 of the
//     file standing for /dev/fuse: sync leaves the error header there, async leaves 16 bytes of buffer content (0xEE).
#[test]
fn a3_async_error_reply_is_written_twice() {
    let s = run(false, 9999, 40, &[], 8192);         // unknown opcode: ENOSYS
    let a = run(true, 9999, 40, &[], 8192);
    same(&s, &a);
}

// A4: CREATE whose entry carries attr_flags (FUSE_ATTR_DAX).  sync: fuse_entry_out.attr.flags = attr_flags; async: 0.
#[test]
fn a4_async_create_drops_attr_flags() {
    let mut body = CreateIn { flags: 0, mode: 0o644, umask: 0, fuse_flags: 0 }.as_slice().to_vec();
    body.extend_from_slice(b"f\0");
    let s = run(false, Opcode::Create as u32, 40 + body.len() as u32, &body, 8192);
    let a = run(true, Opcode::Create as u32, 40 + body.len() as u32, &body, 8192);
    same(&s, &a);
}

// A5: WRITE announcing size > MAX_BUFFER_SIZE (1 MiB).  sync: FileSystem::write is called with that size; async: ENOMEM, no call.
#[test]
fn a5_async_write_refuses_large_size() {
    let body = WriteIn { fh: 1, offset: 0, size: 0x10_0001, fuse_flags: 0, lock_owner: 0, flags: 0, padding: 0 };
    let s = run(false, Opcode::Write as u32, 80, body.as_slice(), 8192);
    let a = run(true, Opcode::Write as u32, 80, body.as_slice(), 8192);
    same(&s, &a);
}

// A6 (unit asyncvfs, [C20.vfs.getattr.result][C20.vfs.getattr.ids]): GETATTR of a pseudo-fs inode (here ROOT_ID with nothing mounted on
//     "/") on a Vfs with an id mapping (internal 0 -> external 1000, range 65536).  sync Vfs::getattr translates the owner ids of
//     pseudo-fs attributes (fix d7a7ab7); Vfs::async_getattr returned them untranslated (st_uid 0 instead of 1000).  Fails on the defect.
#[test]
fn a6_vfs_async_getattr_of_a_pseudo_inode_keeps_internal_owner_ids() {
    use fuse_backend_rs::api::{Vfs, VfsOptions};
    let vfs = Vfs::new(VfsOptions { id_mapping: (0, 1000, 65536), ..Default::default() });
    let ctx = Context::default();
    let (s, _) = vfs.getattr(&ctx, 1u64.into(), None).unwrap();
    let (a, _) = fuse_backend_rs::async_runtime::block_on(async { vfs.async_getattr(&ctx, 1u64.into(), None).await }).unwrap();
    assert_eq!(s.st_uid, 1000, "sync: owner id of the pseudo root seen by the client");
    assert_eq!((s.st_uid, s.st_gid, s.st_ino), (a.st_uid, a.st_gid, a.st_ino), "attributes differ (sync / async)");
}
