// Reproduction of finding D9 (property C14) against the real crate, public API only.
// Place as tests/repro_vfs_pseudo_ids.rs in a checkout of fuse-backend-rs and run `cargo test --offline --test repro_vfs_pseudo_ids`.
use std::any::Any;
use std::ffi::CStr;
use std::io::Result;

use fuse_backend_rs::abi::fuse_abi::ROOT_ID;
use fuse_backend_rs::api::filesystem::{Context, DirEntry, Entry, FileSystem};
use fuse_backend_rs::api::{BackendFileSystem, Vfs, VfsOptions};

struct Backend;
impl FileSystem for Backend {
    type Inode = u64;
    type Handle = u64;
}
impl BackendFileSystem for Backend {
    fn mount(&self) -> Result<(Entry, u64)> {
        Ok((Entry { inode: 1, ..Default::default() }, 100))
    }
    fn as_any(&self) -> &dyn Any { self }
}

// D9: with a global id mapping, the owner of a pseudo directory (internal uid 0) is shown translated by LOOKUP but
// untranslated by GETATTR and READDIRPLUS: the client sees the owner of the same directory flip between 100000 and 0.
#[test]
fn d9_pseudo_dir_owner_is_translated_consistently() {
    let vfs = Vfs::new(VfsOptions { id_mapping: (0, 100000, 65536), ..Default::default() });
    vfs.mount(Box::new(Backend), "/a/b").unwrap();           // creates the pseudo directory "/a"
    let ctx = Context { uid: 100000, gid: 100000, pid: 1 };
    let e = vfs.lookup(&ctx, ROOT_ID.into(), CStr::from_bytes_with_nul(b"a\0").unwrap()).unwrap();
    assert_eq!((e.attr.st_uid, e.attr.st_gid), (100000, 100000), "lookup translates the pseudo directory's owner");
    let (st, _) = vfs.getattr(&ctx, e.inode.into(), None).unwrap();
    assert_eq!((st.st_uid, st.st_gid), (100000, 100000), "getattr must show the same owner as lookup");
    let mut seen = Vec::new();
    vfs.readdirplus(&ctx, ROOT_ID.into(), 0, 4096, 0, &mut |d: DirEntry, e: Entry| {
        seen.push((d.name.to_vec(), e.attr.st_uid, e.attr.st_gid));
        Ok(1)
    })
    .unwrap();
    let a = seen.iter().find(|x| x.0 == b"a").expect("entry a listed");
    assert_eq!((a.1, a.2), (100000, 100000), "readdirplus must show the same owner as lookup");
}
