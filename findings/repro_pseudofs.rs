// Reproductions for unit `pseudofs` (properties C16 / C07, pseudo file system part) against the real crate, public API only
// (PseudoFs is private: it is driven through a Vfs whose root is the pseudo file system).
// Place as tests/repro_pseudofs.rs in a checkout of fuse-backend-rs and run `cargo test --offline --test repro_pseudofs`.
//
// q1_*  FAILED (panicked) before fix 'pseudo fs: do not add to a client-supplied readdir offset before checking it': obligation [C16.pseudo.do_readdir.offset_overflow].  PseudoFs::do_readdir computes `offset + 1` BEFORE it compares the
//       client's offset with the number of children.  READDIR / READDIRPLUS carry the offset of the request unchecked, so offset = u64::MAX on a
//       pseudo directory overflows: a panic ("attempt to add with overflow") in every build with overflow checks (debug, `cargo test`), a silent
//       wrap to 0 (harmless: the value is not used on that path) in release builds.
// q2_*  passes: the listing reports d_type 0 (DT_UNKNOWN, "type not provided") or DT_DIR for pseudo directories, never another type (clause
//       [C16.pseudo.do_readdir.type]; the first version of the clause demanded DT_DIR and was corrected - see the unit's doc string).
// ok_*  pass: bounded witnesses of what the contracts prove (listing resumable from every offset, each child once; mount idempotent;
//       lookup / path consistency), so that the proofs are not about nothing.
use std::any::Any;
use std::ffi::CString;
use std::io::Result;

use fuse_backend_rs::abi::fuse_abi::ROOT_ID;
use fuse_backend_rs::api::filesystem::{Context, DirEntry, Entry, FileSystem};
use fuse_backend_rs::api::{BackendFileSystem, Vfs, VfsOptions};

struct Backend;
impl FileSystem for Backend {
    type Inode = u64;
    type Handle = u64;
}
impl BackendFileSystem for Backend {
    fn mount(&self) -> Result<(Entry, u64)> {
        Ok((Entry { inode: 1, ..Default::default() }, 100))
    }
    fn as_any(&self) -> &dyn Any { self }
}

// a VFS whose pseudo root has the pseudo directories a, b, c (each the parent of a mount point, so they stay pseudo directories)
fn vfs_abc() -> Vfs {
    let vfs = Vfs::new(VfsOptions::default());
    for p in ["/a/m", "/b/m", "/c/m"] {
        vfs.mount(Box::new(Backend), p).unwrap();
    }
    vfs
}

#[test]
fn q1_readdir_offset_max_must_not_panic() {
    let vfs = vfs_abc();
    let ctx = Context::default();
    // an offset at or beyond the end is the "empty reply" case; u64::MAX is such an offset
    let mut n = 0;
    let r = vfs.readdir(&ctx, ROOT_ID.into(), 0, 4096, u64::MAX, &mut |_d: DirEntry| { n += 1; Ok(1) });
    assert!(r.is_ok());
    assert_eq!(n, 0);
}

#[test]
fn q1_readdirplus_offset_max_must_not_panic() {
    let vfs = vfs_abc();
    let ctx = Context::default();
    let mut n = 0;
    let r = vfs.readdirplus(&ctx, ROOT_ID.into(), 0, 4096, u64::MAX, &mut |_d: DirEntry, _e: Entry| { n += 1; Ok(1) });
    assert!(r.is_ok());
    assert_eq!(n, 0);
}

#[test]
fn q2_pseudo_entries_are_never_listed_with_a_foreign_type() {
    let vfs = vfs_abc();
    let ctx = Context::default();
    let mut types = Vec::new();
    vfs.readdir(&ctx, ROOT_ID.into(), 0, 4096, 0, &mut |d: DirEntry| { types.push((d.name.to_vec(), d.type_)); Ok(1) }).unwrap();
    assert_eq!(types.len(), 3);
    // what lookup says about the same entries
    for (name, _) in types.iter() {
        let e = vfs.lookup(&ctx, ROOT_ID.into(), &CString::new(name.clone()).unwrap()).unwrap();
        assert_eq!(e.attr.st_mode & libc::S_IFMT, libc::S_IFDIR);
    }
    for (name, ty) in types.iter() {
        assert!(*ty == libc::DT_DIR as u32 || *ty == libc::DT_UNKNOWN as u32, "entry {:?} of a pseudo directory: DT_DIR or DT_UNKNOWN, got {}", String::from_utf8_lossy(name), ty);
    }
}

// every child exactly once, whatever the capacity of the callback and from whatever delivered offset the client resumes
#[test]
fn ok_listing_resumable_each_child_once() {
    let vfs = vfs_abc();
    let ctx = Context::default();
    for cap in 1..=4usize {
        let mut all: Vec<(Vec<u8>, u64)> = Vec::new();
        let mut off = 0u64;
        loop {
            let mut got: Vec<(Vec<u8>, u64)> = Vec::new();
            vfs.readdir(&ctx, ROOT_ID.into(), 0, 4096, off, &mut |d: DirEntry| {
                if got.len() == cap { return Ok(0); }           // no room: must not be skipped
                got.push((d.name.to_vec(), d.offset));
                Ok(1)
            })
            .unwrap();
            if got.is_empty() { break; }
            off = got.last().unwrap().1;
            assert_ne!(off, 0);
            all.extend(got);
        }
        let names: Vec<Vec<u8>> = all.iter().map(|x| x.0.clone()).collect();
        assert_eq!(names, vec![b"a".to_vec(), b"b".to_vec(), b"c".to_vec()], "capacity {}", cap);
        // going back: resuming from the offset of the first entry lists the other two again
        let mut again = Vec::new();
        vfs.readdir(&ctx, ROOT_ID.into(), 0, 4096, all[0].1, &mut |d: DirEntry| { again.push(d.name.to_vec()); Ok(1) }).unwrap();
        assert_eq!(again, vec![b"b".to_vec(), b"c".to_vec()]);
    }
}

#[test]
fn ok_mount_is_idempotent_and_lookup_follows_the_path() {
    let vfs = vfs_abc();
    let ctx = Context::default();
    let a1 = vfs.lookup(&ctx, ROOT_ID.into(), &CString::new("a").unwrap()).unwrap().inode;
    // mounting below an existing pseudo directory re-uses it
    vfs.mount(Box::new(Backend), "/a/n").unwrap();
    let a2 = vfs.lookup(&ctx, ROOT_ID.into(), &CString::new("a").unwrap()).unwrap().inode;
    assert_eq!(a1, a2);
    let dot = vfs.lookup(&ctx, a1.into(), &CString::new(".").unwrap()).unwrap().inode;
    let dotdot = vfs.lookup(&ctx, a1.into(), &CString::new("..").unwrap()).unwrap().inode;
    assert_eq!(dot, a1);
    assert_eq!(dotdot, ROOT_ID);
    assert!(vfs.lookup(&ctx, a1.into(), &CString::new("nope").unwrap()).is_err());
}
