// Reproductions for property C19 (save / restore of VFS state) against the real crate, public API only.
// Place as tests/repro_vfs_persist.rs in a checkout of fuse-backend-rs and run
//   cargo test --offline --features persist --test repro_vfs_persist
//
// C19: "... restoring a saved state into a fresh VFS and re-attaching the backends at their recorded indices yields a VFS
// indistinguishable to clients: the same paths resolve to the same pseudo inode numbers, inode numbers issued before the save route to
// the corresponding backends, and negotiated options and global and per-mount id mappings are the same.  Mounts and pseudo directories
// created afterwards receive the indices and numbers they would have received without the save/restore ..."
//
// p1_*  FAILS on 12c2724: the GLOBAL id mapping is not restored (obligation [C19.restore.global_mapping] of unit vfspersist).
// p2_*  FAILS on 12c2724: a history with set_remove_pseudo_root + umount of a parent mount point cannot be restored at all
//       (obligation [C19.pseudo.evict.closed] of unit pseudopersist: the saved list is not closed under `parent`).
// Both pass with findings/c19_persist_fixes.patch applied (and the crate's own 140 lib tests with --features persist still pass).
// ok_*  pass: the parts of the property the contracts prove (bounded witnesses, so that the proofs are not about nothing).
// obs_* document behaviour of restore_mount that the property leaves to the caller (they assert what a robust API would do and FAIL).
#![cfg(feature = "persist")]
use std::any::Any;
use std::ffi::CStr;
use std::io::Result;
use std::sync::atomic::{AtomicU64, Ordering};

use fuse_backend_rs::abi::fuse_abi::ROOT_ID;
use fuse_backend_rs::api::filesystem::{Context, Entry, FileSystem, FsOptions};
use fuse_backend_rs::api::{BackendFileSystem, Vfs, VfsOptions};

struct Backend {
    root_uid: u32,
    inits: AtomicU64,
}
fn backend(root_uid: u32) -> Box<Backend> {
    Box::new(Backend { root_uid, inits: AtomicU64::new(0) })
}
impl FileSystem for Backend {
    type Inode = u64;
    type Handle = u64;
    fn init(&self, capable: FsOptions) -> Result<FsOptions> {
        self.inits.fetch_add(1, Ordering::SeqCst);
        Ok(capable)
    }
}
impl BackendFileSystem for Backend {
    fn mount(&self) -> Result<(Entry, u64)> {
        let mut e = Entry { inode: 1, ..Default::default() };
        e.attr.st_uid = self.root_uid;
        e.attr.st_gid = self.root_uid;
        Ok((e, 100))
    }
    fn as_any(&self) -> &dyn Any { self }
}
fn ctx() -> Context { Context { uid: 0, gid: 0, pid: 1 } }
fn name(s: &'static [u8]) -> &'static CStr { CStr::from_bytes_with_nul(s).unwrap() }

#[test]
fn p1_global_id_mapping_is_restored() {
    // the saved VFS translates owner ids with a GLOBAL mapping (internal 0.. <-> external 100000..)
    let opts = VfsOptions { id_mapping: (0, 100000, 65536), ..VfsOptions::default() };
    let vfs = Vfs::new(opts);
    let idx = vfs.mount(backend(5), "/a").unwrap();
    let before = vfs.lookup(&ctx(), ROOT_ID.into(), name(b"a\0")).unwrap();
    assert_eq!(before.attr.st_uid, 100005);
    let mut buf = vfs.save_to_bytes().unwrap();

    // "restoring a saved state into a fresh VFS" (as in the documentation of save_to_bytes)
    let restored = Vfs::new(VfsOptions::default());
    if restored.restore_from_bytes(&mut buf).is_err() {
        // refusing a state whose global mapping this instance cannot take over is fine: nothing is silently different
        // (findings/c19_persist_fixes.patch does this; the caller then creates the Vfs with the saved id_mapping)
        let same = Vfs::new(opts);
        same.restore_from_bytes(&mut vfs.save_to_bytes().unwrap()).unwrap();
        same.restore_mount(backend(5), idx, "/a").unwrap();
        let after = same.lookup(&ctx(), ROOT_ID.into(), name(b"a\0")).unwrap();
        assert_eq!((after.inode, after.attr.st_uid), (before.inode, before.attr.st_uid));
        return;
    }
    restored.restore_mount(backend(5), idx, "/a").unwrap();
    // the restored OPTIONS say the mapping is there ...
    assert_eq!(restored.options().id_mapping, (0, 100000, 65536));
    // ... so the client must see the same owner ids as before the save
    let after = restored.lookup(&ctx(), ROOT_ID.into(), name(b"a\0")).unwrap();
    assert_eq!(after.inode, before.inode);
    assert_eq!(after.attr.st_uid, before.attr.st_uid, "global id mapping of the saved VFS is not in force after restore");
}

#[test]
fn p2_history_with_removed_pseudo_root_restores() {
    let mut vfs = Vfs::new(VfsOptions::default());
    vfs.set_remove_pseudo_root();
    vfs.mount(backend(1), "/a").unwrap();
    let idx_b = vfs.mount(backend(2), "/a/b").unwrap();
    vfs.umount("/a").unwrap(); // evicts the pseudo inode of /a, its child /a/b stays in the inode table
    let mut buf = vfs.save_to_bytes().unwrap();
    let restored = Vfs::new(VfsOptions::default());
    let r = restored.restore_from_bytes(&mut buf);
    assert!(r.is_ok(), "a state saved after mount, mount, umount cannot be restored: {:?}", r.err());
    let _ = idx_b;
}

#[test]
fn ok_roundtrip_indices_numbers_and_mappings() {
    let vfs = Vfs::new(VfsOptions::default());
    let i1 = vfs.mount_with_id_mapping(backend(5), "/x/a", Some((0, 200000, 65536))).unwrap();
    let i2 = vfs.mount(backend(6), "/x/b").unwrap();
    let i3 = vfs.mount(backend(7), "/y").unwrap();
    vfs.umount("/x/b").unwrap();
    vfs.init(FsOptions::ASYNC_READ | FsOptions::ZERO_MESSAGE_OPEN).unwrap();
    let mut buf = vfs.save_to_bytes().unwrap();

    let restored = Vfs::new(VfsOptions::default());
    restored.restore_from_bytes(&mut buf).unwrap();
    restored.restore_mount(backend(5), i1, "/x/a").unwrap();
    restored.restore_mount(backend(7), i3, "/y").unwrap();
    let _ = i2;
    // negotiated options
    let (o, r) = (vfs.options(), restored.options());
    assert_eq!((o.in_opts, o.out_opts, o.no_open, o.no_opendir, o.no_writeback, o.killpriv_v2, o.no_readdir, o.seal_size),
               (r.in_opts, r.out_opts, r.no_open, r.no_opendir, r.no_writeback, r.killpriv_v2, r.no_readdir, r.seal_size));
    assert_eq!(vfs.initialized(), restored.initialized());
    // same paths, same numbers, same owner ids (per-mount mapping of /x/a restored for its index)
    let x0 = vfs.lookup(&ctx(), ROOT_ID.into(), name(b"x\0")).unwrap();
    let x1 = restored.lookup(&ctx(), ROOT_ID.into(), name(b"x\0")).unwrap();
    assert_eq!(x0.inode, x1.inode);
    for n in [&b"a\0"[..], &b"b\0"[..]] {
        let n = CStr::from_bytes_with_nul(n).unwrap();
        let a0 = vfs.lookup(&ctx(), x0.inode.into(), n).unwrap();
        let a1 = restored.lookup(&ctx(), x1.inode.into(), n).unwrap();
        assert_eq!((a0.inode, a0.attr.st_uid), (a1.inode, a1.attr.st_uid));
    }
    let a0 = vfs.lookup(&ctx(), x0.inode.into(), name(b"a\0")).unwrap();
    assert_eq!(a0.attr.st_uid, 200005);
    // mounts and pseudo directories created afterwards get the same index / number on both sides
    let n0 = vfs.mount(backend(8), "/z/new").unwrap();
    let n1 = restored.mount(backend(8), "/z/new").unwrap();
    assert_eq!(n0, n1);
    let z0 = vfs.lookup(&ctx(), ROOT_ID.into(), name(b"z\0")).unwrap();
    let z1 = restored.lookup(&ctx(), ROOT_ID.into(), name(b"z\0")).unwrap();
    assert_eq!(z0.inode, z1.inode);
}

#[test]
fn obs_restore_mount_initialises_the_backend_when_the_vfs_is_initialised() {
    let vfs = Vfs::new(VfsOptions::default());
    let idx = vfs.mount(backend(1), "/a").unwrap();
    vfs.init(FsOptions::ASYNC_READ).unwrap();
    let mut buf = vfs.save_to_bytes().unwrap();
    let restored = Vfs::new(VfsOptions::default());
    restored.restore_from_bytes(&mut buf).unwrap();
    assert!(restored.initialized());
    restored.restore_mount(backend(1), idx, "/a").unwrap();
    let (fs, _) = restored.get_rootfs("/a").unwrap().unwrap();
    let b = fs.as_any().downcast_ref::<Backend>().unwrap();
    // mount() after INIT initialises the backend with the negotiated options; restore_mount() after a restored INIT does not
    assert_eq!(b.inits.load(Ordering::SeqCst), 1, "re-attached backend was never told the negotiated options");
}

#[test]
fn obs_restore_mount_refuses_an_occupied_index() {
    let restored = Vfs::new(VfsOptions::default());
    restored.restore_mount(backend(1), 1, "/a").unwrap();
    // a second backend at the same index but another path: the backend of /a is silently replaced (two mount points share an index)
    let r = restored.restore_mount(backend(2), 1, "/b");
    let (fs, _) = restored.get_rootfs("/a").unwrap().unwrap();
    let b = fs.as_any().downcast_ref::<Backend>().unwrap();
    assert!(r.is_err() || b.root_uid == 1, "restore_mount at an occupied index redirected /a to the backend given for /b");
}

#[test]
fn obs_restore_mount_refuses_the_pseudo_index() {
    let restored = Vfs::new(VfsOptions::default());
    // index 0 is the pseudo file system: inode numbers of such a mount are indistinguishable from pseudo inode numbers
    assert!(restored.restore_mount(backend(3), 0, "/c").is_err(), "restore_mount accepted the pseudo index");
}
