// Reproduction of finding D28 (property C06, obligation [C06.safeopen.create_excl]) against the real crate, public API only.
// Place as tests/repro_pt_create_opath.rs in a checkout of fuse-backend-rs and run `cargo test --offline --test repro_pt_create_opath`.
//
// C06: "... never returns attributes, contents or handles of any object outside the export directory ... symbolic links planted under
// the export are never followed by the server ..."
//
// d28_*  FAILED before fix 'passthrough: the creating open never follows a symbolic link': PassthroughFs::create passes the CLIENT's
//        open flags to openat(dir, name, flags | O_CREAT | O_EXCL) and relies on O_CREAT|O_EXCL not following a symbolic link in the last
//        component.  open(2): "When O_PATH is specified in flags, flag bits other than O_CLOEXEC, O_DIRECTORY, and O_NOFOLLOW are
//        ignored" - with O_PATH in CreateIn::flags the kernel drops O_CREAT|O_EXCL and, as O_NOFOLLOW was not added on this path, FOLLOWS a
//        pre-existing link `lnk -> ../secret`: create() succeeds, the handle it returns wraps a descriptor of the file OUTSIDE the export
//        and getattr(inode, Some(handle)) returns that file's attributes.
// ok_*   pass before and after: an ordinary create over a planted link fails with EEXIST (O_EXCL given) or opens nothing outside.
use std::ffi::CString;
use std::fs;
use std::os::unix::fs::{symlink, MetadataExt};

use fuse_backend_rs::abi::fuse_abi::CreateIn;
use fuse_backend_rs::api::filesystem::{Context, FileSystem};
use fuse_backend_rs::passthrough::{Config, PassthroughFs};
use vmm_sys_util::tempdir::TempDir;

const ROOT_ID: u64 = 1;

// <tmp>/secret (outside), <tmp>/export (the export) with export/lnk -> ../secret
fn setup() -> (TempDir, PassthroughFs<()>, u64) {
    let dir = TempDir::new_in(std::path::Path::new("/var/tmp")).unwrap();
    let secret = dir.as_path().join("secret");
    fs::write(&secret, b"not exported").unwrap();
    let export = dir.as_path().join("export");
    fs::create_dir(&export).unwrap();
    symlink("../secret", export.join("lnk")).unwrap();
    let cfg = Config { root_dir: export.to_string_lossy().to_string(), do_import: true, ..Default::default() };
    let fs = PassthroughFs::<()>::new(cfg).unwrap();
    fs.import().unwrap();
    let ino = fs::metadata(&secret).unwrap().ino();
    (dir, fs, ino)
}

#[test]
fn d28_create_with_o_path_must_not_follow_a_planted_link() {
    let (_dir, fs, secret_ino) = setup();
    let ctx = Context::default();
    let args = CreateIn { flags: libc::O_PATH as u32, mode: 0o644, umask: 0, fuse_flags: 0 };
    match fs.create(&ctx, ROOT_ID, &CString::new("lnk").unwrap(), args) {
        // refusing is fine
        Err(_) => {}
        Ok((entry, handle, _, _)) => {
            assert_ne!(entry.attr.st_ino, secret_ino, "the entry is the file outside the export");
            if let Some(h) = handle {
                let (st, _) = fs.getattr(&ctx, entry.inode, Some(h)).unwrap();
                assert_ne!(st.st_ino, secret_ino, "the handle returned by create() denotes the file OUTSIDE the export (its attributes are returned)");
            }
        }
    }
}

#[test]
fn ok_plain_create_over_a_planted_link() {
    let (dir, fs, secret_ino) = setup();
    let ctx = Context::default();
    // O_EXCL given by the client: EEXIST
    let args = CreateIn { flags: (libc::O_WRONLY | libc::O_EXCL) as u32, mode: 0o644, umask: 0, fuse_flags: 0 };
    assert!(fs.create(&ctx, ROOT_ID, &CString::new("lnk").unwrap(), args).is_err());
    // no O_EXCL: the existing object is the LINK; it is not opened for writing through the server
    let args = CreateIn { flags: libc::O_WRONLY as u32, mode: 0o644, umask: 0, fuse_flags: 0 };
    if let Ok((entry, handle, _, _)) = fs.create(&ctx, ROOT_ID, &CString::new("lnk").unwrap(), args) {
        assert_ne!(entry.attr.st_ino, secret_ino);
        if let Some(h) = handle {
            let (st, _) = fs.getattr(&ctx, entry.inode, Some(h)).unwrap();
            assert_ne!(st.st_ino, secret_ino);
        }
    }
    assert_eq!(fs::read(dir.as_path().join("secret")).unwrap(), b"not exported");
}
