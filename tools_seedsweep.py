#!/usr/bin/env python3
"""Apply every seeded change under seeded/ to a scratch export of /repo's HEAD (one at a time; /repo itself is not touched, the scratch copy lives
under /var/tmp and is removed afterwards), run the claimed checks on it (./check <P> --src <scratch>), and record in seeded/<name>/meta.json which
checks report a violation / stay quiet / are undecided."""
import json, os, re, subprocess, sys
VERIF = os.path.dirname(os.path.abspath(__file__))
sys.path.insert(0, VERIF)
from vx import registry as R
props = {json.loads(l)['id']: json.loads(l) for l in open(os.path.join(VERIF, 'properties.jsonl'))}
only = [a for a in sys.argv[1:] if not a.startswith('--')]
ALL = '--all-checks' in sys.argv
# which source files does each property's machinery read?  (from the evidence the checks wrote: functions under contract and mechanical copies) - a check
# whose units read none of the files a seed changes cannot change its verdict and is skipped unless --all-checks is given
import glob
READS = {}
for _f in glob.glob(os.path.join(VERIF, 'evidence', 'C*.json')):
    _d = json.load(open(_f))
    READS[_d['property_id']] = set(re.findall(r'"(src/[A-Za-z0-9_/.]+\.rs)"', json.dumps(_d.get('coverage', {}))))
KXP = {p for p, s in R.PROPS.items() if s.get('kx')}
for name in sorted(os.listdir(os.path.join(VERIF, 'seeded'))):
    if only and name not in only:
        continue
    d = os.path.join(VERIF, 'seeded', name)
    pid = name.split('-')[0]
    scratch = '/var/tmp/seedsweep-%d' % os.getpid()
    subprocess.run('rm -rf %s && mkdir -p %s && git -C /repo archive HEAD | tar -x -C %s' % (scratch, scratch, scratch), shell=True, check=True)
    ap = subprocess.run(['git', 'apply', os.path.join(d, 'patch.diff')], capture_output=True, text=True, cwd=scratch)
    res = {}
    patched = set(re.findall(r'^\+\+\+ b/(\S+)', open(os.path.join(d, 'patch.diff')).read(), flags=re.M))
    if ap.returncode != 0:
        res = {'_apply': 'patch does not apply to the current /repo: ' + ap.stderr[:300]}
    else:
        try:
            for p in sorted(R.PROPS):
                if p in KXP and p != pid and not (p == 'C04' and pid != 'C04'):
                    # Kani groups are slow to rebuild: run them only for their own property's seeds ...
                    pass
                if p in KXP and p != pid:
                    continue
                if not ALL and p != pid and not (READS.get(p, set()) & patched):
                    continue
                env = dict(os.environ)
                if p != pid:
                    env['VERIF_RX'] = 'off'      # bounded replay groups (one cargo build of the seeded tree each): for the seed's own property only
                r = subprocess.run([os.path.join(VERIF, 'check'), p, '--no-evidence', '--src', scratch], capture_output=True, text=True, cwd=VERIF, env=env)
                obl = sorted(set(re.findall(r'replay=\S*/replay/%s-([^ ]+?)\.json' % p, r.stdout)))
                res[p] = {'exit': r.returncode, 'verdict': {0: 'quiet', 1: 'VIOLATION', 2: 'undecided'}.get(r.returncode, '?'), 'obligations': obl[:6]}
        finally:
            subprocess.run(['rm', '-rf', scratch])
    meta_p = os.path.join(d, 'meta.json')
    meta = json.load(open(meta_p)) if os.path.exists(meta_p) else {}
    meta.update({'seed': name, 'breaks_property': pid, 'property_title': props[pid]['title'],
                 'files': ['patch.diff (the change)', 'demo.diff (test that fails with the change and passes without)', 'notes.md (author notes)', 'confirm.log (my confirmation run)'],
                 'confirmed': 'applied to a scratch worktree of /repo: cargo build ok, the 134 baseline tests pass with the change, the demonstration fails with it and passes without it (see confirm.log)',
                 'checks_run': res, 'repo_head_when_swept': subprocess.run(['git', '-C', '/repo', 'log', '--format=%h', '-1'], capture_output=True, text=True).stdout.strip()})
    meta['detected_by'] = [p for p, v in res.items() if isinstance(v, dict) and v.get('exit') == 1]
    json.dump(meta, open(meta_p, 'w'), indent=1)
    print(name, '->', {p: v['verdict'] if isinstance(v, dict) else v for p, v in res.items()})
