#!/bin/bash
# usage: tools_seedconfirm.sh <seed> <cargo test args for the demo...>
# Confirms a seeded change in its scratch worktree /tmp/seed-<seed>: (a) demo passes on the clean tree, (b) baseline tests pass with the patch,
# (c) demo fails with the patch.  Copies SEED/* to /verif/seeded/<seed>/ and writes confirm.log there.  Leaves the worktree clean.
set -u
S=$1; shift
W=/tmp/seed-$S; D=/verif/seeded/$S
mkdir -p $D; cp $W/SEED/patch.diff $W/SEED/demo.diff $W/SEED/notes.md $D/
cd $W || exit 9
export CARGO_NET_OFFLINE=true
L=$D/confirm.log; : > $L
git checkout -q -- . ; git clean -fdq -e SEED -e target
echo "== worktree $(git log --oneline -1)" >> $L
git apply SEED/demo.diff || { echo "demo.diff does not apply" >> $L; exit 1; }
echo "== (a) demo on the clean tree: cargo test --offline $*" >> $L
cargo test --offline "$@" 2>&1 | grep -E "^test |test result|^error" >> $L
git apply SEED/patch.diff || { echo "patch.diff does not apply" >> $L; exit 1; }
echo "== (c) demo with the change" >> $L
cargo test --offline "$@" 2>&1 | grep -E "^test |test result|^error|panicked" >> $L
git checkout -q -- . ; git clean -fdq -e SEED -e target
git apply SEED/patch.diff
echo "== (b) baseline suite with the change only: cargo test --workspace --no-fail-fast --offline" >> $L
cargo test --workspace --no-fail-fast --offline 2>&1 | grep -E "^test result|FAILED|^error" >> $L
git checkout -q -- . ; git clean -fdq -e SEED
rm -rf target
echo "== done" >> $L
