import sys; sys.path.insert(0,'/verif/rx'); import run
src = sys.argv[1] if len(sys.argv)>1 else '/repo'
try:
    print(run.build(src))
except run.ToolError as e: print(str(e)[-8000:]); sys.exit(1)
