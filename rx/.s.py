import json,sys
d=json.load(open(sys.argv[1]))
if 'tool_error' in d: print(d['tool_error'][-3000:]); sys.exit()
print('cases',d['cases'],'distinct',d['distinct'],'failures',d['failure_total'],'tool_errors',d['tool_errors'])
print(json.dumps(d['failed_obligations'],indent=1))
for n in d['notes']: print('NOTE',n[:600])
seen=set()
for f in d['failures']:
    if f['obligation'] in seen: continue
    seen.add(f['obligation'])
    print('---',f['obligation']); print(' expected:',f['expected'][:500]); print(' observed:',f['observed'][:700])
    inp=f['input']; print(' scenario:',str(inp.get('scenario'))[:300]); print(' config:',inp.get('config'))
    for l in inp.get('script',[])[-12:]: print('   ',l[:260])
