#!/bin/bash
# Engine RX: build the enumeration harness once against /repo (offline) so that later runs
# are incremental (only fuse-backend-rs and the harness itself are recompiled when the
# source tree under test differs). Build output: /verif/build/rx (git-ignored).
set -e
cd "$(dirname "$0")"
export CARGO_NET_OFFLINE=true
SRC="${1:-/repo}"
command -v cargo >/dev/null || { echo "rx: cargo not found"; exit 1; }
[ -f /usr/include/linux/fuse.h ] || echo "rx: note: /usr/include/linux/fuse.h not found (only needed to re-read the oracle layouts, not to build)"
mkdir -p /verif/build/rx
python3 - "$SRC" <<'EOP'
import sys
sys.path.insert(0, "/verif/rx")
import run
try:
    binary, wall = run.build(sys.argv[1])
except run.ToolError as e:
    print("rx: build failed:\n%s" % e)
    sys.exit(1)
print("rx: built %s in %.1f s" % (binary, wall))
EOP
# smoke run: the smallest group must report zero failures on the tree it was built from
OUT=$(/verif/build/rx/target/release/rx init) || { echo "rx: smoke run crashed"; exit 1; }
echo "$OUT" | python3 -c 'import json,sys; d=json.load(sys.stdin); print("rx: smoke run init: %d cases, %d failures" % (d["cases"], d["failure_total"]))'
echo "rx setup ok"
