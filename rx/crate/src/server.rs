//! Group `server` (C01, C02, C03): every opcode through `Server::handle_message`.
use std::io::ErrorKind;
use std::sync::Arc;

use fuse_backend_rs::abi::fuse_abi::{FsOptions, SetattrValid};
use fuse_backend_rs::api::server::Server;
use fuse_backend_rs::transport::{FuseBuf, FuseDevWriter, Reader};

use crate::json::{arr, i, obj, s, J};
use crate::mockfs::*;
use crate::report::{guarded, hexdump, hx, permute, Opts, Report, Sink};
use crate::wire::{self, op, Buf, InHeader, Layout};

pub const UNIQUE: u64 = 0x1112_1314_1516_1718;
pub const NODEID: u64 = 0x0A0B_0C0D_0102_0304;
pub const UID: u32 = 0x0000_1001;
pub const GID: u32 = 0x0000_2002;
pub const PID: u32 = 0x0000_3003;
/// library limit on what a request may claim to carry (MAX_BUFFER_SIZE + BUFFER_HEADER_SIZE)
const MAX_CLAIM: u32 = (1 << 20) + 0x1000;
pub const CAPS: [usize; 5] = [8192, 4096, 80, 24, 16];

pub const BOUND: &str = "opcodes 1..=51 and {0,7,19,47,52,4096,u32::MAX} through Server::handle_message (fusedev transport, one contiguous request buffer); \
per opcode: well-formed body with distinct marker values in every field x flag words enumerated bit by bit (GETATTR_FH, FATTR_* incl. FATTR_FH, READ_LOCKOWNER, WRITE_CACHE, WRITE_LOCKOWNER, RELEASE_FLUSH, RELEASE_FLOCK_UNLOCK, fsync_flags, rename2 flags incl. undefined bits, ioctl in_size {0,4}, batch-forget count {0,1,3}) \
x mock result {success variants (handle Some/None, xattr Value/Count, read of 0/1/7 bytes), errno 1/2/95, kind-only NotFound/PermissionDenied/Other/InvalidData} x reply capacity {16,24,80,4096,8192}; \
names {\"a\", \"\", \"ab/c\", 255 bytes, missing NUL}; header.len in {exact-1, exact+1, 0, 39, u32::MAX, MAX_BUFFER_SIZE+0x1000+1}; every strict prefix of every fixed-size body; batch-forget count in {n+1, 65535, 65789, 2^28, u32::MAX}; \
one Server and one mock per request (no cross-request state); notify_inval_inode x 3 argument triples and notify_inval_entry x name lengths {1,7,8,255} x buffer {8192,64}; virtio-fs transport, segmented buffers and FUSE_SETUPMAPPING/REMOVEMAPPING (virtiofs feature) not exercised";

#[derive(Clone, Copy, Debug, PartialEq, Eq)]
pub enum NameVar {
    A,
    Empty,
    Slash,
    Long,
    NoNul,
}

impl NameVar {
    fn bytes(&self) -> Vec<u8> {
        match self {
            NameVar::A | NameVar::NoNul => b"a".to_vec(),
            NameVar::Empty => Vec::new(),
            NameVar::Slash => b"ab/c".to_vec(),
            NameVar::Long => (0..255u32).map(|n| b'A' + (n % 26) as u8).collect(),
        }
    }
    fn show(&self) -> &'static str {
        match self {
            NameVar::A => "\"a\"",
            NameVar::Empty => "\"\"",
            NameVar::Slash => "\"ab/c\"",
            NameVar::Long => "255 bytes ABC..",
            NameVar::NoNul => "\"a\" without terminating NUL",
        }
    }
}

#[derive(Clone, Copy, Debug, PartialEq, Eq)]
pub enum LenVar {
    Exact,
    Minus1,
    Plus1,
    Zero,
    ThirtyNine,
    Max,
    OverLimit,
}

impl LenVar {
    fn apply(&self, exact: u32) -> u32 {
        match self {
            LenVar::Exact => exact,
            LenVar::Minus1 => exact - 1,
            LenVar::Plus1 => exact + 1,
            LenVar::Zero => 0,
            LenVar::ThirtyNine => 39,
            LenVar::Max => u32::MAX,
            LenVar::OverLimit => MAX_CLAIM + 1,
        }
    }
}

#[derive(Clone, Copy, Debug, PartialEq, Eq)]
pub enum ReplyKind {
    Entry,
    Attr,
    Open,
    Opendir,
    Create,
    Write,
    Statfs,
    Xattr,
    Listxattr,
    Readlink,
    Lk,
    Bmap,
    Poll,
    Lseek,
    Ioctl,
    Empty,
    ReadData,
    DirEmpty,
    Init,
    /// FORGET / BATCH_FORGET: never a reply
    Never,
    /// INTERRUPT / NOTIFY_REPLY: the kernel does not wait for an answer; at most one
    Optional,
    /// opcode without an operation: exactly one error reply
    ErrorOnly,
}

#[derive(Clone, Debug)]
pub enum Expect {
    /// exactly this call
    Call(Call),
    /// this call, or a refusal (no call, error reply): names that are valid C strings but
    /// not valid file names
    Lenient(Call),
    /// no operation at all
    NoCall,
}

pub struct Built {
    pub body: Vec<u8>,
    /// length of the fixed-size struct at the start of the body
    pub fixed: usize,
    pub expect: Expect,
    pub reply: ReplyKind,
    pub has_name: bool,
    pub flag_note: String,
}

pub struct OpDef {
    pub name: &'static str,
    pub code: u32,
    pub flagvars: usize,
    pub okvars: u8,
    /// results are meaningless for operations without a result
    pub has_result: bool,
}

pub const OPS: &[OpDef] = &[
    OpDef { name: "lookup", code: op::LOOKUP, flagvars: 1, okvars: 2, has_result: true },
    OpDef { name: "forget", code: op::FORGET, flagvars: 1, okvars: 1, has_result: false },
    OpDef { name: "getattr", code: op::GETATTR, flagvars: 5, okvars: 2, has_result: true },
    OpDef { name: "setattr", code: op::SETATTR, flagvars: 15, okvars: 1, has_result: true },
    OpDef { name: "readlink", code: op::READLINK, flagvars: 1, okvars: 1, has_result: true },
    OpDef { name: "symlink", code: op::SYMLINK, flagvars: 1, okvars: 1, has_result: true },
    OpDef { name: "mknod", code: op::MKNOD, flagvars: 1, okvars: 1, has_result: true },
    OpDef { name: "mkdir", code: op::MKDIR, flagvars: 1, okvars: 1, has_result: true },
    OpDef { name: "unlink", code: op::UNLINK, flagvars: 1, okvars: 1, has_result: true },
    OpDef { name: "rmdir", code: op::RMDIR, flagvars: 1, okvars: 1, has_result: true },
    OpDef { name: "rename", code: op::RENAME, flagvars: 1, okvars: 1, has_result: true },
    OpDef { name: "link", code: op::LINK, flagvars: 1, okvars: 1, has_result: true },
    OpDef { name: "open", code: op::OPEN, flagvars: 1, okvars: 2, has_result: true },
    OpDef { name: "read", code: op::READ, flagvars: 5, okvars: 3, has_result: true },
    OpDef { name: "write", code: op::WRITE, flagvars: 7, okvars: 1, has_result: true },
    OpDef { name: "statfs", code: op::STATFS, flagvars: 1, okvars: 1, has_result: true },
    OpDef { name: "release", code: op::RELEASE, flagvars: 6, okvars: 1, has_result: true },
    OpDef { name: "fsync", code: op::FSYNC, flagvars: 5, okvars: 1, has_result: true },
    OpDef { name: "setxattr", code: op::SETXATTR, flagvars: 2, okvars: 1, has_result: true },
    OpDef { name: "getxattr", code: op::GETXATTR, flagvars: 1, okvars: 2, has_result: true },
    OpDef { name: "listxattr", code: op::LISTXATTR, flagvars: 1, okvars: 2, has_result: true },
    OpDef { name: "removexattr", code: op::REMOVEXATTR, flagvars: 1, okvars: 1, has_result: true },
    OpDef { name: "flush", code: op::FLUSH, flagvars: 1, okvars: 1, has_result: true },
    OpDef { name: "init", code: op::INIT, flagvars: 1, okvars: 1, has_result: true },
    OpDef { name: "opendir", code: op::OPENDIR, flagvars: 1, okvars: 2, has_result: true },
    OpDef { name: "readdir", code: op::READDIR, flagvars: 1, okvars: 1, has_result: true },
    OpDef { name: "releasedir", code: op::RELEASEDIR, flagvars: 1, okvars: 1, has_result: true },
    OpDef { name: "fsyncdir", code: op::FSYNCDIR, flagvars: 5, okvars: 1, has_result: true },
    OpDef { name: "getlk", code: op::GETLK, flagvars: 1, okvars: 1, has_result: true },
    OpDef { name: "setlk", code: op::SETLK, flagvars: 1, okvars: 1, has_result: true },
    OpDef { name: "setlkw", code: op::SETLKW, flagvars: 1, okvars: 1, has_result: true },
    OpDef { name: "access", code: op::ACCESS, flagvars: 1, okvars: 1, has_result: true },
    OpDef { name: "create", code: op::CREATE, flagvars: 1, okvars: 2, has_result: true },
    OpDef { name: "interrupt", code: op::INTERRUPT, flagvars: 1, okvars: 1, has_result: false },
    OpDef { name: "bmap", code: op::BMAP, flagvars: 1, okvars: 1, has_result: true },
    OpDef { name: "destroy", code: op::DESTROY, flagvars: 1, okvars: 1, has_result: false },
    OpDef { name: "ioctl", code: op::IOCTL, flagvars: 2, okvars: 2, has_result: true },
    OpDef { name: "poll", code: op::POLL, flagvars: 1, okvars: 1, has_result: true },
    OpDef { name: "notify_reply", code: op::NOTIFY_REPLY, flagvars: 1, okvars: 1, has_result: true },
    OpDef { name: "batch_forget", code: op::BATCH_FORGET, flagvars: 3, okvars: 1, has_result: false },
    OpDef { name: "fallocate", code: op::FALLOCATE, flagvars: 1, okvars: 1, has_result: true },
    OpDef { name: "readdirplus", code: op::READDIRPLUS, flagvars: 1, okvars: 1, has_result: true },
    OpDef { name: "rename2", code: op::RENAME2, flagvars: 8, okvars: 1, has_result: true },
    OpDef { name: "lseek", code: op::LSEEK, flagvars: 1, okvars: 1, has_result: true },
    // opcodes that denote no operation of the FileSystem API (holes, newer or foreign opcodes)
    OpDef { name: "unknown0", code: 0, flagvars: 1, okvars: 1, has_result: false },
    OpDef { name: "unknown7", code: 7, flagvars: 1, okvars: 1, has_result: false },
    OpDef { name: "unknown19", code: 19, flagvars: 1, okvars: 1, has_result: false },
    OpDef { name: "unknown47_copy_file_range", code: 47, flagvars: 1, okvars: 1, has_result: false },
    OpDef { name: "unknown48_setupmapping", code: 48, flagvars: 1, okvars: 1, has_result: false },
    OpDef { name: "unknown49_removemapping", code: 49, flagvars: 1, okvars: 1, has_result: false },
    OpDef { name: "unknown50_syncfs", code: 50, flagvars: 1, okvars: 1, has_result: false },
    OpDef { name: "unknown51_tmpfile", code: 51, flagvars: 1, okvars: 1, has_result: false },
    OpDef { name: "unknown52", code: 52, flagvars: 1, okvars: 1, has_result: false },
    OpDef { name: "unknown4096_cuse_init", code: 4096, flagvars: 1, okvars: 1, has_result: false },
    OpDef { name: "unknown_u32max", code: u32::MAX, flagvars: 1, okvars: 1, has_result: false },
];

fn call(opname: &'static str, with_ctx: bool, with_nodeid: bool, mut rest: Args) -> Call {
    let mut a = if with_ctx { ctx_args(UID.wrapping_add(REMAP_UID_DELTA), GID.wrapping_add(REMAP_GID_DELTA), PID) } else { Vec::new() };
    if with_nodeid {
        a.push(a64("nodeid", NODEID));
    }
    a.append(&mut rest);
    Call { op: opname, args: a }
}

fn bits(n: usize, list: &[u32]) -> u32 {
    list[n % list.len()]
}

fn opt(cond: bool, v: u64) -> Option<u64> {
    if cond {
        Some(v)
    } else {
        None
    }
}

fn name_tail(nv: NameVar) -> Vec<u8> {
    let mut n = nv.bytes();
    if nv != NameVar::NoNul {
        n.push(0);
    }
    n
}

fn two_names_tail(nv: NameVar) -> (Vec<u8>, Vec<u8>, Vec<u8>) {
    let first = nv.bytes();
    let second = b"zz".to_vec();
    let mut t = first.clone();
    t.push(0);
    t.extend_from_slice(&second);
    if nv != NameVar::NoNul {
        t.push(0);
    }
    (t, first, second)
}

fn named(nv: NameVar, c: Call) -> Expect {
    match nv {
        NameVar::A | NameVar::Long => Expect::Call(c),
        NameVar::Empty | NameVar::Slash => Expect::Lenient(c),
        NameVar::NoNul => Expect::NoCall,
    }
}

/// The request body of operation `name` in flag variant `fv` / name variant `nv`, and what
/// the protocol says the file system must be asked to do.
pub fn build(name: &str, fv: usize, nv: NameVar) -> Built {
    let mut b = Buf::new();
    let mut note = String::new();
    let mut has_name = false;
    let fixed;
    let expect;
    let reply;
    match name {
        "lookup" | "unlink" | "rmdir" | "removexattr" => {
            fixed = 0;
            has_name = true;
            b.bytes(&name_tail(nv));
            let opn: &'static str = match name {
                "lookup" => "lookup",
                "unlink" => "unlink",
                "rmdir" => "rmdir",
                _ => "removexattr",
            };
            expect = named(nv, call(opn, true, true, vec![abytes("name", &nv.bytes())]));
            reply = if name == "lookup" { ReplyKind::Entry } else { ReplyKind::Empty };
        }
        "forget" => {
            // struct fuse_forget_in
            b.u64(m64(1));
            fixed = 8;
            expect = Expect::Call(call("forget", true, true, vec![a64("nlookup", m64(1))]));
            reply = ReplyKind::Never;
        }
        "getattr" => {
            // struct fuse_getattr_in { getattr_flags, dummy, fh }
            let flags = bits(fv, &[0, 1, 2, 3, !1]);
            note = format!("getattr_flags={}", hx(flags));
            b.u32(flags).u32(m32(1)).u64(m64(2));
            fixed = 16;
            expect = Expect::Call(call("getattr", true, true, vec![ao("fh", opt(flags & wire::FUSE_GETATTR_FH != 0, m64(2)))]));
            reply = ReplyKind::Attr;
        }
        "setattr" => {
            // struct fuse_setattr_in
            let valid = if fv == 0 {
                0
            } else if fv <= 12 {
                1u32 << (fv - 1)
            } else if fv == 13 {
                0xffff_ffff
            } else {
                0x0000_0fff & !wire::FATTR_FH
            };
            note = format!("valid={}", hx(valid));
            b.u32(valid).u32(m32(1)).u64(m64(2)).u64(m64(3) & 0x7fff_ffff_ffff_ffff).u64(m64(4));
            b.u64(m64(5) & 0x7fff_ffff_ffff_ffff).u64(m64(6) & 0x7fff_ffff_ffff_ffff).u64(m64(7) & 0x7fff_ffff_ffff_ffff);
            b.u32(m32(8)).u32(m32(9)).u32(m32(10)).u32(m32(11)).u32(m32(12)).u32(m32(13)).u32(m32(14)).u32(m32(15));
            fixed = 88;
            expect = Expect::Call(call(
                "setattr",
                true,
                true,
                vec![
                    a32("mode", m32(11)),
                    a32("set_uid", m32(13)),
                    a32("set_gid", m32(14)),
                    a64("size", m64(3) & 0x7fff_ffff_ffff_ffff),
                    a64("atime", m64(5) & 0x7fff_ffff_ffff_ffff),
                    a64("mtime", m64(6) & 0x7fff_ffff_ffff_ffff),
                    a64("ctime", m64(7) & 0x7fff_ffff_ffff_ffff),
                    a64("atimensec", m32(8) as u64),
                    a64("mtimensec", m32(9) as u64),
                    a64("ctimensec", m32(10) as u64),
                    ao("fh", opt(valid & wire::FATTR_FH != 0, m64(2))),
                    // the API type SetattrValid names a subset of the FATTR_* bits; FATTR_FH is
                    // delivered as the `handle` argument
                    a32("valid", valid & SetattrValid::all().bits()),
                ],
            ));
            reply = ReplyKind::Attr;
        }
        "readlink" => {
            fixed = 0;
            expect = Expect::Call(call("readlink", true, true, vec![]));
            reply = ReplyKind::Readlink;
        }
        "symlink" => {
            // name NUL link-target NUL
            fixed = 0;
            has_name = true;
            let (t, first, second) = two_names_tail(nv);
            b.bytes(&t);
            expect = named(nv, call("symlink", true, true, vec![abytes("name", &first), abytes("linkname", &second)]));
            reply = ReplyKind::Entry;
        }
        "mknod" => {
            // struct fuse_mknod_in { mode, rdev, umask, padding }
            b.u32(m32(1)).u32(m32(2)).u32(m32(3)).u32(m32(4));
            fixed = 16;
            has_name = true;
            b.bytes(&name_tail(nv));
            expect = named(
                nv,
                call("mknod", true, true, vec![abytes("name", &nv.bytes()), a32("mode", m32(1)), a32("rdev", m32(2)), a32("umask", m32(3))]),
            );
            reply = ReplyKind::Entry;
        }
        "mkdir" => {
            // struct fuse_mkdir_in { mode, umask }
            b.u32(m32(1)).u32(m32(2));
            fixed = 8;
            has_name = true;
            b.bytes(&name_tail(nv));
            expect = named(nv, call("mkdir", true, true, vec![abytes("name", &nv.bytes()), a32("mode", m32(1)), a32("umask", m32(2))]));
            reply = ReplyKind::Entry;
        }
        "rename" | "rename2" => {
            let mut flags = 0u32;
            b.u64(m64(1));
            if name == "rename2" {
                // struct fuse_rename2_in { newdir, flags, padding }
                flags = bits(fv, &[0, 1, 2, 4, 8, 0x8000_0000, 7, 0xffff_ffff]);
                note = format!("flags={}", hx(flags));
                b.u32(flags).u32(m32(2));
                fixed = 16;
            } else {
                fixed = 8;
            }
            has_name = true;
            let (t, first, second) = two_names_tail(nv);
            b.bytes(&t);
            // `flags` is checked separately (defined bits must arrive, undefined ones may be dropped)
            expect = named(
                nv,
                call(
                    "rename",
                    true,
                    true,
                    vec![abytes("oldname", &first), a64("newdir", m64(1)), abytes("newname", &second), a32("flags", flags)],
                ),
            );
            reply = ReplyKind::Empty;
        }
        "link" => {
            // struct fuse_link_in { oldnodeid }
            b.u64(m64(1));
            fixed = 8;
            has_name = true;
            b.bytes(&name_tail(nv));
            let mut a = ctx_args(UID.wrapping_add(REMAP_UID_DELTA), GID.wrapping_add(REMAP_GID_DELTA), PID);
            a.push(a64("oldnodeid", m64(1)));
            a.push(a64("nodeid", NODEID));
            a.push(abytes("name", &nv.bytes()));
            expect = named(nv, Call { op: "link", args: a });
            reply = ReplyKind::Entry;
        }
        "open" | "opendir" => {
            // struct fuse_open_in { flags, open_flags }
            b.u32(m32(1)).u32(m32(2));
            fixed = 8;
            if name == "open" {
                expect = Expect::Call(call("open", true, true, vec![a32("flags", m32(1)), a32("open_flags", m32(2))]));
                reply = ReplyKind::Open;
            } else {
                expect = Expect::Call(call("opendir", true, true, vec![a32("flags", m32(1))]));
                reply = ReplyKind::Opendir;
            }
        }
        "read" | "readdir" | "readdirplus" => {
            // struct fuse_read_in { fh, offset, size, read_flags, lock_owner, flags, padding }
            let rflags = if name == "read" { bits(fv, &[0, 2, 1, 3, !2]) } else { 0 };
            let size: u32 = if name == "read" { m32(3) } else { 64 };
            note = format!("read_flags={}", hx(rflags));
            b.u64(m64(1)).u64(m64(2)).u32(size).u32(rflags).u64(m64(4)).u32(m32(5)).u32(m32(6));
            fixed = 40;
            if name == "read" {
                expect = Expect::Call(call(
                    "read",
                    true,
                    true,
                    vec![
                        a64("fh", m64(1)),
                        a32("size", size),
                        a64("offset", m64(2)),
                        ao("lock_owner", opt(rflags & wire::FUSE_READ_LOCKOWNER != 0, m64(4))),
                        a32("flags", m32(5)),
                    ],
                ));
                reply = ReplyKind::ReadData;
            } else {
                let opn: &'static str = if name == "readdir" { "readdir" } else { "readdirplus" };
                expect = Expect::Call(call(opn, true, true, vec![a64("fh", m64(1)), a32("size", size), a64("offset", m64(2))]));
                reply = ReplyKind::DirEmpty;
            }
        }
        "write" => {
            // struct fuse_write_in { fh, offset, size, write_flags, lock_owner, flags, padding } + data
            let wflags = bits(fv, &[0, 1, 2, 3, 4, !2, !1]);
            note = format!("write_flags={}", hx(wflags));
            let data = b"write-payload-0123456789";
            // open flags of the file: bit 1 deliberately clear (it is not FUSE_WRITE_LOCKOWNER)
            let flags = 0xA1B2_C3D4u32;
            b.u64(m64(1)).u64(m64(2)).u32(data.len() as u32).u32(wflags).u64(m64(4)).u32(flags).u32(m32(6));
            fixed = 40;
            b.bytes(data);
            expect = Expect::Call(call(
                "write",
                true,
                true,
                vec![
                    a64("fh", m64(1)),
                    a32("size", data.len() as u32),
                    a64("offset", m64(2)),
                    ao("lock_owner", opt(wflags & wire::FUSE_WRITE_LOCKOWNER != 0, m64(4))),
                    ab("delayed_write", wflags & wire::FUSE_WRITE_CACHE != 0),
                    a32("flags", flags),
                    a32("write_flags", wflags),
                    abytes("data", data),
                ],
            ));
            reply = ReplyKind::Write;
        }
        "statfs" => {
            fixed = 0;
            expect = Expect::Call(call("statfs", true, true, vec![]));
            reply = ReplyKind::Statfs;
        }
        "release" | "releasedir" => {
            // struct fuse_release_in { fh, flags, release_flags, lock_owner }
            let rf = if name == "release" { bits(fv, &[0, 1, 2, 3, 4, !3]) } else { 0 };
            note = format!("release_flags={}", hx(rf));
            b.u64(m64(1)).u32(m32(2)).u32(rf).u64(m64(3));
            fixed = 24;
            if name == "release" {
                let flush = rf & wire::FUSE_RELEASE_FLUSH != 0;
                let unlock = rf & wire::FUSE_RELEASE_FLOCK_UNLOCK != 0;
                expect = Expect::Call(call(
                    "release",
                    true,
                    true,
                    vec![
                        a32("flags", m32(2)),
                        a64("fh", m64(1)),
                        ab("flush", flush),
                        ab("flock_release", unlock),
                        ao("lock_owner", opt(flush || unlock, m64(3))),
                    ],
                ));
            } else {
                expect = Expect::Call(call("releasedir", true, true, vec![a32("flags", m32(2)), a64("fh", m64(1))]));
            }
            reply = ReplyKind::Empty;
        }
        "fsync" | "fsyncdir" => {
            // struct fuse_fsync_in { fh, fsync_flags, padding }
            let ff = bits(fv, &[0, 1, 2, 3, !1]);
            note = format!("fsync_flags={}", hx(ff));
            b.u64(m64(1)).u32(ff).u32(m32(2));
            fixed = 16;
            let opn: &'static str = if name == "fsync" { "fsync" } else { "fsyncdir" };
            expect = Expect::Call(call(opn, true, true, vec![ab("datasync", ff & wire::FUSE_FSYNC_FDATASYNC != 0), a64("fh", m64(1))]));
            reply = ReplyKind::Empty;
        }
        "setxattr" => {
            // struct fuse_setxattr_in (8 byte form) { size, flags } name NUL value
            let value: &[u8] = if fv == 0 { b"VALUE\x00\x01\xff" } else { b"" };
            note = format!("value of {} bytes", value.len());
            b.u32(value.len() as u32).u32(m32(1));
            fixed = 8;
            has_name = true;
            b.bytes(&name_tail(nv));
            b.bytes(value);
            expect = if nv == NameVar::NoNul && !value.contains(&0) {
                Expect::NoCall
            } else if nv == NameVar::NoNul {
                // without its NUL the name runs into the value: the split is ambiguous; not judged
                Expect::Lenient(call("setxattr", true, true, vec![]))
            } else {
                named(nv, call("setxattr", true, true, vec![abytes("name", &nv.bytes()), abytes("value", value), a32("flags", m32(1))]))
            };
            reply = ReplyKind::Empty;
        }
        "getxattr" => {
            // struct fuse_getxattr_in { size, padding } name NUL
            b.u32(m32(1)).u32(m32(2));
            fixed = 8;
            has_name = true;
            b.bytes(&name_tail(nv));
            expect = named(nv, call("getxattr", true, true, vec![abytes("name", &nv.bytes()), a32("size", m32(1))]));
            reply = ReplyKind::Xattr;
        }
        "listxattr" => {
            b.u32(m32(1)).u32(m32(2));
            fixed = 8;
            expect = Expect::Call(call("listxattr", true, true, vec![a32("size", m32(1))]));
            reply = ReplyKind::Listxattr;
        }
        "flush" => {
            // struct fuse_flush_in { fh, unused, padding, lock_owner }
            b.u64(m64(1)).u32(m32(2)).u32(m32(3)).u64(m64(4));
            fixed = 24;
            expect = Expect::Call(call("flush", true, true, vec![a64("fh", m64(1)), a64("lock_owner", m64(4))]));
            reply = ReplyKind::Empty;
        }
        "init" => {
            // struct fuse_init_in, legacy 16 byte part: 7.31, no FUSE_INIT_EXT
            let flags = wire::FUSE_ASYNC_READ | wire::FUSE_BIG_WRITES;
            b.u32(7).u32(31).u32(0x20000).u32(flags);
            fixed = 16;
            expect = Expect::Call(Call { op: "init", args: vec![a64("capable", (flags as u64) & FsOptions::all().bits())] });
            reply = ReplyKind::Init;
        }
        "getlk" | "setlk" | "setlkw" => {
            // struct fuse_lk_in { fh, owner, lk { start, end, type, pid }, lk_flags, padding }
            b.u64(m64(1)).u64(m64(2)).u64(m64(3)).u64(m64(4)).u32(m32(5)).u32(m32(6)).u32(m32(7)).u32(m32(8));
            fixed = 48;
            let opn: &'static str = match name {
                "getlk" => "getlk",
                "setlk" => "setlk",
                _ => "setlkw",
            };
            expect = Expect::Call(call(
                opn,
                true,
                true,
                vec![
                    a64("fh", m64(1)),
                    a64("owner", m64(2)),
                    a64("lk.start", m64(3)),
                    a64("lk.end", m64(4)),
                    a32("lk.type", m32(5)),
                    a32("lk.pid", m32(6)),
                    a32("lk_flags", m32(7)),
                ],
            ));
            reply = if name == "getlk" { ReplyKind::Lk } else { ReplyKind::Empty };
        }
        "access" => {
            b.u32(m32(1)).u32(m32(2));
            fixed = 8;
            expect = Expect::Call(call("access", true, true, vec![a32("mask", m32(1))]));
            reply = ReplyKind::Empty;
        }
        "create" => {
            // struct fuse_create_in { flags, mode, umask, open_flags }
            b.u32(m32(1)).u32(m32(2)).u32(m32(3)).u32(m32(4));
            fixed = 16;
            has_name = true;
            b.bytes(&name_tail(nv));
            expect = named(
                nv,
                call(
                    "create",
                    true,
                    true,
                    vec![abytes("name", &nv.bytes()), a32("flags", m32(1)), a32("mode", m32(2)), a32("umask", m32(3)), a32("open_flags", m32(4))],
                ),
            );
            reply = ReplyKind::Create;
        }
        "interrupt" => {
            // struct fuse_interrupt_in { unique }: no FileSystem operation exists for it
            b.u64(m64(1));
            fixed = 0;
            expect = Expect::NoCall;
            reply = ReplyKind::Optional;
        }
        "bmap" => {
            b.u64(m64(1)).u32(m32(2)).u32(m32(3));
            fixed = 16;
            expect = Expect::Call(call("bmap", true, true, vec![a64("block", m64(1)), a32("blocksize", m32(2))]));
            reply = ReplyKind::Bmap;
        }
        "destroy" => {
            fixed = 0;
            expect = Expect::Call(Call { op: "destroy", args: vec![] });
            reply = ReplyKind::Empty;
        }
        "ioctl" => {
            // struct fuse_ioctl_in { fh, flags, cmd, arg, in_size, out_size } + in data
            let data: &[u8] = if fv == 0 { b"" } else { b"IN!\x00" };
            note = format!("in_size={}", data.len());
            b.u64(m64(1)).u32(m32(2)).u32(m32(3)).u64(m64(4)).u32(data.len() as u32).u32(m32(5));
            fixed = 32;
            b.bytes(data);
            expect = Expect::Call(call(
                "ioctl",
                true,
                true,
                vec![
                    a64("fh", m64(1)),
                    a32("flags", m32(2)),
                    a32("cmd", m32(3)),
                    ("in_data", if data.is_empty() { "None".to_string() } else { show_bytes(data) }),
                    a32("out_size", m32(5)),
                ],
            ));
            reply = ReplyKind::Ioctl;
        }
        "poll" => {
            // struct fuse_poll_in { fh, kh, flags, events }
            b.u64(m64(1)).u64(m64(2)).u32(m32(3)).u32(m32(4));
            fixed = 24;
            expect = Expect::Call(call("poll", true, true, vec![a64("fh", m64(1)), a64("kh", m64(2)), a32("flags", m32(3)), a32("events", m32(4))]));
            reply = ReplyKind::Poll;
        }
        "notify_reply" => {
            fixed = 0;
            expect = Expect::Call(Call { op: "notify_reply", args: vec![] });
            reply = ReplyKind::Optional;
        }
        "batch_forget" => {
            // struct fuse_batch_forget_in { count, dummy } + count x struct fuse_forget_one { nodeid, nlookup }
            let n = [0usize, 1, 3][fv % 3];
            note = format!("count={n}");
            b.u32(n as u32).u32(m32(1));
            fixed = 8;
            let mut items = Vec::new();
            for k in 0..n {
                b.u64(m64(10 + 2 * k as u64)).u64(m64(11 + 2 * k as u64));
                items.push(format!("({},{})", hx(m64(10 + 2 * k as u64)), hx(m64(11 + 2 * k as u64))));
            }
            expect = Expect::Call(call("batch_forget", true, false, vec![("items", format!("[{}]", items.join(",")))]));
            reply = ReplyKind::Never;
        }
        "fallocate" => {
            // struct fuse_fallocate_in { fh, offset, length, mode, padding }
            b.u64(m64(1)).u64(m64(2)).u64(m64(3)).u32(m32(4)).u32(m32(5));
            fixed = 32;
            expect = Expect::Call(call("fallocate", true, true, vec![a64("fh", m64(1)), a32("mode", m32(4)), a64("offset", m64(2)), a64("length", m64(3))]));
            reply = ReplyKind::Empty;
        }
        "lseek" => {
            // struct fuse_lseek_in { fh, offset, whence, padding }
            b.u64(m64(1)).u64(m64(2)).u32(m32(3)).u32(m32(4));
            fixed = 24;
            expect = Expect::Call(call("lseek", true, true, vec![a64("fh", m64(1)), a64("offset", m64(2)), a32("whence", m32(3))]));
            reply = ReplyKind::Lseek;
        }
        _ => {
            // no such operation
            b.u64(m64(1));
            fixed = 0;
            expect = Expect::NoCall;
            reply = ReplyKind::ErrorOnly;
        }
    }
    Built { body: b.0, fixed, expect, reply, has_name, flag_note: note }
}

/// what the kernel must find in the reply payload when the operation succeeded with `variant`
pub fn expected_payload(kind: ReplyKind, variant: u8) -> Option<Layout> {
    let v = variant as u32;
    Some(match kind {
        ReplyKind::Entry => wire::entry_out(&entry_vals(v)),
        ReplyKind::Attr => wire::attr_out(ATTR_TIMEOUT.0, ATTR_TIMEOUT.1, &attr_vals(v)),
        ReplyKind::Open => {
            if variant == 0 {
                wire::open_out(OPEN_FH, OPEN_FLAGS, BACKING_ID)
            } else {
                wire::open_out(0, 0, 0)
            }
        }
        ReplyKind::Opendir => {
            if variant == 0 {
                wire::open_out(OPEN_FH, OPEN_FLAGS, 0)
            } else {
                wire::open_out(0, 0, 0)
            }
        }
        ReplyKind::Create => {
            let o = if variant == 0 { wire::open_out(OPEN_FH, OPEN_FLAGS, BACKING_ID) } else { wire::open_out(0, 0, 0) };
            wire::entry_out(&entry_vals(v)).then(o)
        }
        ReplyKind::Write => wire::write_out(WRITE_COUNT as u32),
        ReplyKind::Statfs => wire::statfs_out(&statfs_vals()),
        ReplyKind::Xattr => {
            if variant == 0 {
                wire::data("getxattr value", XATTR_VALUE)
            } else {
                wire::getxattr_out(XATTR_COUNT)
            }
        }
        ReplyKind::Listxattr => {
            if variant == 0 {
                wire::data("listxattr names", XATTR_NAMES)
            } else {
                wire::getxattr_out(XATTR_COUNT)
            }
        }
        ReplyKind::Readlink => wire::data("readlink target", LINK_TARGET),
        ReplyKind::Lk => wire::lk_out(LK_OUT.0, LK_OUT.1, LK_OUT.2, LK_OUT.3),
        ReplyKind::Bmap => wire::bmap_out(BMAP_OUT),
        ReplyKind::Poll => wire::poll_out(POLL_OUT),
        ReplyKind::Lseek => wire::lseek_out(LSEEK_OUT),
        ReplyKind::Ioctl => wire::ioctl_out(IOCTL_RESULT, if variant == 0 { IOCTL_OUT_DATA } else { b"" }),
        ReplyKind::Empty | ReplyKind::DirEmpty => Layout::new("empty reply"),
        ReplyKind::ReadData => {
            let k = READ_KS[(variant as usize) % READ_KS.len()];
            wire::data("read payload", &READ_DATA[..k])
        }
        ReplyKind::Init | ReplyKind::Never | ReplyKind::Optional | ReplyKind::ErrorOnly => return None,
    })
}

#[derive(Clone, Debug)]
pub struct Case {
    pub opidx: usize,
    pub fv: usize,
    pub nv: NameVar,
    pub lenvar: LenVar,
    /// Some(n): the body is cut to its first n bytes (header.len consistent with the cut)
    pub cut: Option<usize>,
    /// batch_forget only: override of the count field
    pub count_override: Option<u32>,
    pub plan: Plan,
    pub cap: usize,
}

pub struct Outcome {
    pub panic: Option<String>,
    pub result: String,
    pub calls: Vec<Call>,
    pub packets: Vec<Vec<u8>>,
    pub returned: Option<Returned>,
    pub read_written: Vec<u8>,
}

pub fn drive(sink: &mut Sink, mock: Arc<Mock>, request: &mut [u8], cap: usize) -> Outcome {
    let fd = sink.fd();
    let server = Server::new(mock.clone());
    let mut wbuf = vec![0u8; cap];
    let r = guarded(|| {
        let reader = match Reader::<()>::from_fuse_buffer(FuseBuf::new(request)) {
            Ok(r) => r,
            Err(e) => return format!("Reader::from_fuse_buffer failed: {e:?}"),
        };
        let writer = match FuseDevWriter::<()>::new(fd, &mut wbuf) {
            Ok(w) => w,
            Err(e) => return format!("FuseDevWriter::new failed: {e:?}"),
        };
        match server.handle_message(reader, writer.into(), None, None) {
            Ok(n) => format!("Ok({n})"),
            Err(e) => format!("Err({e:?})"),
        }
    });
    let packets = sink.drain();
    let (panic, result) = match r {
        Ok(s) => (None, s),
        Err(p) => (Some(p), "panic".to_string()),
    };
    Outcome {
        panic,
        result,
        calls: mock.calls(),
        packets,
        returned: mock.returned.lock().ok().and_then(|g| *g),
        read_written: mock.read_written.lock().map(|g| g.clone()).unwrap_or_default(),
    }
}

fn plans_for(def: &OpDef) -> Vec<Plan> {
    let mut p: Vec<Plan> = (0..def.okvars).map(Plan::Ok).collect();
    if def.has_result {
        p.extend([Plan::Errno(1), Plan::Errno(2), Plan::Errno(95)]);
        p.extend([
            Plan::Kind(ErrorKind::NotFound),
            Plan::Kind(ErrorKind::PermissionDenied),
            Plan::Kind(ErrorKind::Other),
            Plan::Kind(ErrorKind::InvalidData),
        ]);
    }
    p
}

pub fn enumerate() -> Vec<Case> {
    let mut cases = Vec::new();
    for (opidx, def) in OPS.iter().enumerate() {
        let plans = plans_for(def);
        let probe = build(def.name, 0, NameVar::A);
        // A: well-formed requests
        for fv in 0..def.flagvars {
            for plan in &plans {
                for cap in CAPS {
                    cases.push(Case { opidx, fv, nv: NameVar::A, lenvar: LenVar::Exact, cut: None, count_override: None, plan: *plan, cap });
                }
            }
        }
        // B: names
        if probe.has_name {
            for nv in [NameVar::Empty, NameVar::Slash, NameVar::Long, NameVar::NoNul] {
                for fv in 0..def.flagvars {
                    for plan in plans.iter().copied() {
                        for cap in CAPS {
                            cases.push(Case { opidx, fv, nv, lenvar: LenVar::Exact, cut: None, count_override: None, plan, cap });
                        }
                    }
                }
            }
        }
        // C: header.len lies
        for lenvar in [LenVar::Minus1, LenVar::Plus1, LenVar::Zero, LenVar::ThirtyNine, LenVar::Max, LenVar::OverLimit] {
            for fv in 0..def.flagvars {
                for plan in [plans[0], Plan::Errno(2)] {
                    for cap in CAPS {
                        cases.push(Case { opidx, fv, nv: NameVar::A, lenvar, cut: None, count_override: None, plan, cap });
                    }
                }
            }
        }
        // D: truncated fixed-size bodies
        for cut in 0..probe.fixed {
            for cap in CAPS {
                cases.push(Case { opidx, fv: 0, nv: NameVar::A, lenvar: LenVar::Exact, cut: Some(cut), count_override: None, plan: plans[0], cap });
            }
        }
        // E: count field at its extremes
        if def.name == "batch_forget" {
            for fv in 0..def.flagvars {
                let n = [0u32, 1, 3][fv];
                for count in [n + 1, 65535, 65789, 1 << 28, u32::MAX] {
                    for cap in CAPS {
                        cases.push(Case { opidx, fv, nv: NameVar::A, lenvar: LenVar::Exact, cut: None, count_override: Some(count), plan: plans[0], cap });
                    }
                }
            }
        }
    }
    cases
}

fn describe(c: &Case, def: &OpDef, built: &Built, req: &[u8], hdr_len: u32) -> J {
    obj(vec![
        ("opcode", i(def.code as i128)),
        ("operation", s(def.name)),
        (
            "header",
            obj(vec![
                ("len", i(hdr_len as i128)),
                ("unique", s(hx(UNIQUE))),
                ("nodeid", s(hx(NODEID))),
                ("uid", s(hx(UID))),
                ("gid", s(hx(GID))),
                ("pid", s(hx(PID))),
            ]),
        ),
        ("request_bytes", i(req.len() as i128)),
        ("request_hex", s(hexdump(req))),
        ("flag_variant", s(format!("{} {}", c.fv, built.flag_note))),
        ("name", s(if built.has_name { c.nv.show() } else { "-" })),
        ("header_len_variant", s(format!("{:?}", c.lenvar))),
        ("body_cut_to", c.cut.map(|n| i(n as i128)).unwrap_or(J::Null)),
        ("count_override", c.count_override.map(|n| i(n as i128)).unwrap_or(J::Null)),
        ("fs_returns", s(c.plan.show())),
        ("reply_capacity", i(c.cap as i128)),
        (
            "rerun",
            s(format!("python3 /verif/rx/run.py server --src <tree> --raw --filter {}   (deterministic; this case is identified by the fields above)", def.name)),
        ),
    ])
}

fn show_calls(calls: &[Call]) -> String {
    if calls.is_empty() {
        return "no call".to_string();
    }
    calls.iter().map(|c| c.show()).collect::<Vec<_>>().join("; ")
}

/// rename2: defined flag bits must arrive, undefined ones may be dropped or passed
fn rename_flags_ok(expected: &Call, got: &Call) -> bool {
    let f = |c: &Call| -> Option<u32> {
        c.args.iter().find(|(k, _)| *k == "flags").and_then(|(_, v)| u32::from_str_radix(v.trim_start_matches("0x"), 16).ok())
    };
    match (f(expected), f(got)) {
        (Some(e), Some(g)) => (g & wire::RENAME2_DEFINED) == (e & wire::RENAME2_DEFINED) && (g & !wire::RENAME2_DEFINED == 0 || g == e),
        _ => false,
    }
}

fn same_call(def: &OpDef, expected: &Call, got: &Call) -> bool {
    if def.name == "rename2" {
        if expected.op != got.op || expected.args.len() != got.args.len() {
            return false;
        }
        for (a, b) in expected.args.iter().zip(got.args.iter()) {
            if a.0 == "flags" && b.0 == "flags" {
                continue;
            }
            if a != b {
                return false;
            }
        }
        return rename_flags_ok(expected, got);
    }
    expected == got
}

pub fn run(opts: &Opts) -> Report {
    let mut rep = Report::new("server", BOUND, opts);
    let mut sink = Sink::new();
    rep.notes.push(format!("reply sink: {}", sink.kind()));
    let mut cases = enumerate();
    permute(&mut cases, opts.seed);
    for c in &cases {
        let def = &OPS[c.opidx];
        if !opts.selects(def.name) {
            continue;
        }
        let built = build(def.name, c.fv, c.nv);
        let mut body = built.body.clone();
        if let Some(cnt) = c.count_override {
            body[0..4].copy_from_slice(&cnt.to_le_bytes());
        }
        if let Some(n) = c.cut {
            body.truncate(n);
        }
        let exact = (wire::IN_HEADER + body.len()) as u32;
        let hdr_len = c.lenvar.apply(exact);
        let hdr = InHeader { len: hdr_len, opcode: def.code, unique: UNIQUE, nodeid: NODEID, uid: UID, gid: GID, pid: PID };
        let mut req = wire::request(&hdr, &body);
        let req_copy = req.clone();

        let mock = Arc::new(Mock {
            want: if def.name == "init" { wire::FUSE_ASYNC_READ as u64 } else { 0 },
            ..Mock::new(c.plan)
        });
        let out = drive(&mut sink, mock, &mut req, c.cap);
        let shape = format!("{}|{}|{:?}|{:?}|{:?}|{:?}|{}", def.name, c.fv, c.nv, c.lenvar, c.cut, c.count_override, c.plan.show());
        rep.case(&shape);
        let input = || describe(c, def, &built, &req_copy, hdr_len);
        rep.sample(input);

        let well_formed = c.lenvar == LenVar::Exact && c.cut.is_none() && c.count_override.is_none();
        let len_lie = c.lenvar != LenVar::Exact;
        let function = format!("Server::handle_message -> {}", def.name);

        // ---------------- C01 ----------------
        if let Some(p) = &out.panic {
            rep.fail(&format!("C01.{}.panic", def.name), &function, input, "handle_message returns (Ok or Err) without panicking".into(), format!("panic: {p}"));
            continue;
        }
        if out.packets.len() > 1 {
            rep.fail(
                &format!("C01.{}.reply.count", def.name),
                &function,
                input,
                "at most one reply, delivered by exactly one write call".into(),
                format!("{} write calls of {:?} bytes", out.packets.len(), out.packets.iter().map(|p| p.len()).collect::<Vec<_>>()),
            );
            continue;
        }
        let reply = out.packets.first();
        let mut hdr_out = None;
        if let Some(msg) = reply {
            match wire::out_header(msg) {
                None => {
                    rep.fail(&format!("C01.{}.reply.frame", def.name), &function, input, "a reply is at least a 16 byte fuse_out_header".into(), format!("{} bytes written: {}", msg.len(), hexdump(msg)));
                    continue;
                }
                Some(h) => {
                    let mut bad = None;
                    if h.len as usize != msg.len() {
                        bad = Some(format!("out_header.len={} but {} bytes were written", h.len, msg.len()));
                    } else if h.unique != UNIQUE {
                        bad = Some(format!("out_header.unique={} but the request's unique is {}", hx(h.unique), hx(UNIQUE)));
                    } else if !(h.error == 0 || (-4095..=-1).contains(&h.error)) {
                        bad = Some(format!("out_header.error={} is neither 0 nor a negated errno (-4095..=-1)", h.error));
                    } else if h.error != 0 && msg.len() != wire::OUT_HEADER {
                        bad = Some(format!("error reply ({}) carries {} payload bytes", h.error, msg.len() - wire::OUT_HEADER));
                    }
                    if let Some(b) = bad {
                        rep.fail(&format!("C01.{}.reply.frame", def.name), &function, input, "one complete message: len == bytes written, unique == request's, error == 0 or negated errno, no payload on errors".into(), b);
                        continue;
                    }
                    hdr_out = Some(h);
                }
            }
        }
        if built.reply == ReplyKind::Never && reply.is_some() {
            rep.fail(
                &format!("C01.{}.noreply", def.name),
                &function,
                input,
                "FORGET / BATCH_FORGET never produce a reply, whatever their content".into(),
                format!("reply written: {} (handle_message returned {})", hexdump(reply.unwrap()), out.result),
            );
            continue;
        }

        // ---------------- C02 ----------------
        let remaps: Vec<&Call> = out.calls.iter().filter(|k| k.op.starts_with("id_remap")).collect();
        let ops: Vec<Call> = out.calls.iter().filter(|k| !k.op.starts_with("id_remap")).cloned().collect();
        let mut expected_remap = ctx_args(UID, GID, PID);
        expected_remap.push(a64("nodeid", NODEID));
        let remap_ok_shape = |r: &Call| r.op == "id_remap_with_nodeid" && r.args == expected_remap;
        if !ops.is_empty() {
            // whenever an operation is reached, the caller ids were translated exactly once, before it
            let first_is_remap = out.calls.first().map(|k| k.op.starts_with("id_remap")).unwrap_or(false);
            if remaps.len() != 1 || !first_is_remap || !remap_ok_shape(remaps[0]) {
                rep.fail(
                    &format!("C02.{}.remap", def.name),
                    "Server::handle_message -> id_remap_with_nodeid",
                    input,
                    format!("exactly one id_remap_with_nodeid({}) before the operation", expected_remap.iter().map(|(k, v)| format!("{k}={v}")).collect::<Vec<_>>().join(", ")),
                    show_calls(&out.calls),
                );
                continue;
            }
        } else if remaps.len() > 1 || remaps.iter().any(|r| !remap_ok_shape(r)) {
            rep.fail(
                &format!("C02.{}.remap", def.name),
                "Server::handle_message -> id_remap_with_nodeid",
                input,
                "at most one id_remap_with_nodeid with the header's uid/gid/pid and nodeid".into(),
                show_calls(&out.calls),
            );
            continue;
        }

        // which outcome the decoding rules allow
        let (exp_call, may_refuse, must_not_call) = if !well_formed && !len_lie {
            // truncated body or a count beyond the data present: not decodable
            (None, true, true)
        } else {
            match &built.expect {
                Expect::Call(k) => (Some(k.clone()), false, false),
                Expect::Lenient(k) => (Some(k.clone()), true, false),
                Expect::NoCall => (None, true, true),
            }
        };

        if must_not_call && !len_lie {
            if !ops.is_empty() {
                rep.fail(
                    &format!("C02.{}.malformed.nocall", def.name),
                    &function,
                    input,
                    "a request that cannot be decoded (truncated / missing NUL / count beyond the data / no such operation) reaches no operation".into(),
                    show_calls(&ops),
                );
                continue;
            }
        } else if len_lie {
            // header.len disagrees with the bytes delivered: only the operation's identity is judged
            if let Some(k) = ops.first() {
                let want = exp_call.as_ref().map(|e| e.op);
                if ops.len() > 1 || Some(k.op) != want {
                    rep.fail(
                        &format!("C02.{}.call", def.name),
                        &function,
                        input,
                        format!("no operation other than {}", want.unwrap_or("(none)")),
                        show_calls(&ops),
                    );
                    continue;
                }
            }
        } else {
            let e = exp_call.as_ref().unwrap();
            let refused = ops.is_empty() && may_refuse;
            let lenient_setxattr = def.name == "setxattr" && c.nv == NameVar::NoNul;
            if !refused && !lenient_setxattr {
                let readdir_short = matches!(built.reply, ReplyKind::DirEmpty) && c.cap < 64 + wire::OUT_HEADER && ops.is_empty();
                if readdir_short {
                    // reply buffer smaller than the requested size: refusing with an error is acceptable
                } else if ops.len() != 1 || ops[0].op != e.op {
                    rep.fail(
                        &format!("C02.{}.call", def.name),
                        &function,
                        input,
                        format!("exactly one call: {}", e.show()),
                        show_calls(&ops),
                    );
                    continue;
                } else if !same_call(def, e, &ops[0]) {
                    let diff: Vec<String> = e
                        .args
                        .iter()
                        .zip(ops[0].args.iter())
                        .filter(|(a, b)| a != b)
                        .map(|(a, b)| format!("{}: expected {} observed {}={}", a.0, a.1, b.0, b.1))
                        .collect();
                    rep.fail(
                        &format!("C02.{}.args", def.name),
                        &function,
                        input,
                        e.show(),
                        format!("{}   [differs: {}]", ops[0].show(), diff.join("; ")),
                    );
                    continue;
                }
            }
        }

        // ---------------- C01 (exactly one reply) + C03 ----------------
        if !well_formed {
            // malformed: if anything is sent it must be an error (the request was not served)
            if let Some(h) = hdr_out {
                if h.error == 0 && ops.is_empty() && built.reply != ReplyKind::Never {
                    rep.fail(
                        &format!("C03.{}.reply", def.name),
                        &function,
                        input,
                        "a request that reached no operation is answered with an error (or not at all)".into(),
                        format!("success reply of {} bytes", h.len),
                    );
                }
            }
            continue;
        }
        let called = !ops.is_empty();
        match built.reply {
            ReplyKind::Never => {}
            ReplyKind::Optional => {
                if let (Some(h), Some(Returned::Errno(e))) = (hdr_out, out.returned) {
                    if h.error != -e {
                        rep.fail(&format!("C03.{}.reply", def.name), &function, input, format!("error {}", -e), format!("error {}", h.error));
                    }
                }
            }
            ReplyKind::ErrorOnly => match hdr_out {
                None => rep.fail(
                    &format!("C01.{}.reply.missing", def.name),
                    &function,
                    input,
                    "exactly one (error) reply for an opcode without an operation".into(),
                    format!("no reply; handle_message returned {}", out.result),
                ),
                Some(h) if h.error == 0 => rep.fail(
                    &format!("C03.{}.reply", def.name),
                    &function,
                    input,
                    "an error reply (the operation does not exist)".into(),
                    format!("success reply of {} bytes", h.len),
                ),
                _ => {}
            },
            ReplyKind::Init => check_simple_init(&mut rep, def, &function, &out, hdr_out, reply, c, input),
            kind => {
                if !called {
                    // refused (lenient name / short readdir buffer): an error reply, or nothing
                    if let Some(h) = hdr_out {
                        if h.error == 0 {
                            rep.fail(
                                &format!("C03.{}.reply", def.name),
                                &function,
                                input,
                                "a request that reached no operation is answered with an error".into(),
                                format!("success reply of {} bytes", h.len),
                            );
                        }
                    }
                    continue;
                }
                let returned = out.returned.unwrap_or(Returned::Ok);
                match returned {
                    Returned::Errno(e) => match hdr_out {
                        None => rep.fail(
                            &format!("C01.{}.reply.missing", def.name),
                            &function,
                            input,
                            format!("exactly one reply: error {}", -e),
                            format!("no reply; handle_message returned {}", out.result),
                        ),
                        Some(h) if h.error != -e => rep.fail(
                            &format!("C03.{}.reply.errno", def.name),
                            "Server::handle_message -> do_reply_error",
                            input,
                            format!("out_header.error = {} (the negated errno the file system returned)", -e),
                            format!("out_header.error = {}", h.error),
                        ),
                        _ => {}
                    },
                    Returned::KindOnly => match hdr_out {
                        None => rep.fail(
                            &format!("C01.{}.reply.missing", def.name),
                            &function,
                            input,
                            "exactly one reply: some negated errno".into(),
                            format!("no reply; handle_message returned {}", out.result),
                        ),
                        Some(h) if h.error == 0 => rep.fail(
                            &format!("C03.{}.reply.errno", def.name),
                            "Server::handle_message -> do_reply_error",
                            input,
                            "out_header.error in -4095..=-1 (the file system returned an error)".into(),
                            "out_header.error = 0".into(),
                        ),
                        _ => {}
                    },
                    Returned::Ok => {
                        let variant = match c.plan {
                            Plan::Ok(v) => v,
                            _ => 0,
                        };
                        let lay = match kind {
                            ReplyKind::ReadData => wire::data("read payload", &out.read_written),
                            k => expected_payload(k, variant).unwrap_or_default(),
                        };
                        let need = wire::OUT_HEADER + lay.size;
                        match (hdr_out, reply) {
                            (None, _) => {
                                if c.cap >= need {
                                    rep.fail(
                                        &format!("C01.{}.reply.missing", def.name),
                                        &function,
                                        input,
                                        format!("exactly one reply of {need} bytes (the reply buffer holds {})", c.cap),
                                        format!("no reply; handle_message returned {}", out.result),
                                    );
                                }
                            }
                            (Some(h), Some(msg)) => {
                                if h.error != 0 {
                                    if c.cap >= need {
                                        rep.fail(
                                            &format!("C03.{}.reply", def.name),
                                            &function,
                                            input,
                                            format!("success reply of {need} bytes encoding the result of the file system"),
                                            format!("error reply {}", h.error),
                                        );
                                    }
                                } else if let Some((field, e, o)) = lay.diff(&msg[wire::OUT_HEADER..]) {
                                    rep.fail(
                                        &format!("C03.{}.reply", def.name),
                                        &function,
                                        input,
                                        format!("{field} = {e}"),
                                        format!("{field} = {o}   [reply: {}]", hexdump(msg)),
                                    );
                                }
                            }
                            _ => {}
                        }
                    }
                }
            }
        }
    }
    if opts.selects("notify_inval_inode notify_inval_entry notify") {
        run_notify(&mut rep, &mut sink);
    }
    rep
}

/// C03, last clause: "notification messages carry the given arguments with a length equal to
/// their size". Layouts: struct fuse_notify_inval_inode_out { ino, off, len } with code
/// FUSE_NOTIFY_INVAL_INODE = 2, struct fuse_notify_inval_entry_out { parent, namelen, flags }
/// + name + NUL with code FUSE_NOTIFY_INVAL_ENTRY = 3; unique = 0, the code travels in `error`.
fn run_notify(rep: &mut Report, sink: &mut Sink) {
    let server = Server::new(Arc::new(Mock::new(Plan::Ok(0))));
    let names: [&[u8]; 4] = [b"a", b"abcdefg", b"abcdefgh", &[b'n'; 255]];
    let triples: [(u64, u64, u64); 3] = [(m64(1), m64(2) & 0x7fff_ffff_ffff_ffff, m64(3) & 0x7fff_ffff_ffff_ffff), (1, 0, 0), (u64::MAX, 0, u64::MAX)];
    for cap in [8192usize, 64] {
        for (ino, off, len) in triples {
            let fd = sink.fd();
            let mut wbuf = vec![0u8; cap];
            let r = guarded(|| {
                let w = FuseDevWriter::<()>::new(fd, &mut wbuf).unwrap();
                server.notify_inval_inode(w, ino, off, len).map_err(|e| format!("{e:?}"))
            });
            let packets = sink.drain();
            rep.case("notify_inval_inode");
            let input = || obj(vec![("api", s("Server::notify_inval_inode")), ("ino", s(hx(ino))), ("off", s(hx(off))), ("len", s(hx(len))), ("buffer", i(cap as i128))]);
            let lay = Layout::new("fuse_notify_inval_inode_out").u64("ino", ino).u64("off", off).u64("len", len);
            check_notify(rep, "notify_inval_inode", 2, &lay, r, &packets, input);
        }
        for name in names {
            let parent = m64(7);
            let fd = sink.fd();
            let mut wbuf = vec![0u8; cap];
            let cname = std::ffi::CString::new(name).unwrap();
            let r = guarded(|| {
                let w = FuseDevWriter::<()>::new(fd, &mut wbuf).unwrap();
                server.notify_inval_entry(w, parent, &cname).map_err(|e| format!("{e:?}"))
            });
            let packets = sink.drain();
            rep.case("notify_inval_entry");
            let input = || obj(vec![("api", s("Server::notify_inval_entry")), ("parent", s(hx(parent))), ("name_len", i(name.len() as i128)), ("buffer", i(cap as i128))]);
            let mut with_nul = name.to_vec();
            with_nul.push(0);
            let lay = Layout::new("fuse_notify_inval_entry_out").u64("parent", parent).u32("namelen", name.len() as u32).u32("flags", 0).raw("name+NUL", &with_nul);
            if wire::OUT_HEADER + lay.size > cap {
                // does not fit: nothing (or an error return) is acceptable, but no partial message
                if packets.iter().any(|p| wire::out_header(p).map(|h| h.len as usize != p.len()).unwrap_or(true)) {
                    rep.fail("C03.notify_inval_entry.bytes", "Server::notify_inval_entry", input, "no partial message".into(), format!("{:?}", packets.iter().map(|p| p.len()).collect::<Vec<_>>()));
                }
                continue;
            }
            check_notify(rep, "notify_inval_entry", 3, &lay, r, &packets, input);
        }
    }
}

fn check_notify(rep: &mut Report, what: &str, code: i32, lay: &Layout, r: Result<Result<usize, String>, String>, packets: &[Vec<u8>], input: impl Fn() -> J + Copy) {
    let function = format!("Server::{what}");
    let obl = format!("C03.{what}.bytes");
    match r {
        Err(p) => return rep.fail(&format!("C01.{what}.panic"), &function, input, "no panic".into(), format!("panic: {p}")),
        Ok(Err(e)) => return rep.fail(&obl, &function, input, "the notification is sent".into(), format!("Err({e})")),
        Ok(Ok(_)) => {}
    }
    if packets.len() != 1 {
        return rep.fail(&obl, &function, input, "one message, one write call".into(), format!("{} write calls", packets.len()));
    }
    let msg = &packets[0];
    let Some(h) = wire::out_header(msg) else {
        return rep.fail(&obl, &function, input, "a fuse_out_header".into(), format!("{} bytes", msg.len()));
    };
    if h.len as usize != msg.len() || h.unique != 0 || h.error != code {
        return rep.fail(
            &obl,
            &function,
            input,
            format!("out_header {{ len = {} = bytes written, error = notify code {code}, unique = 0 }}", wire::OUT_HEADER + lay.size),
            format!("len={} bytes={} error={} unique={}", h.len, msg.len(), h.error, hx(h.unique)),
        );
    }
    if let Some((field, e, o)) = lay.diff(&msg[wire::OUT_HEADER..]) {
        rep.fail(&obl, &function, input, format!("{field} = {e}"), format!("{field} = {o}   [{}]", hexdump(msg)));
    }
}

#[allow(clippy::too_many_arguments)]
fn check_simple_init(
    rep: &mut Report,
    def: &OpDef,
    function: &str,
    out: &Outcome,
    hdr_out: Option<wire::OutHeader>,
    reply: Option<&Vec<u8>>,
    c: &Case,
    input: impl FnOnce() -> J,
) {
    let returned = out.returned.unwrap_or(Returned::Ok);
    let need = wire::OUT_HEADER + 64;
    match (hdr_out, reply) {
        (None, _) => {
            if c.cap >= need || returned != Returned::Ok {
                rep.fail(
                    &format!("C01.{}.reply.missing", def.name),
                    function,
                    input,
                    "exactly one reply to INIT".into(),
                    format!("no reply; handle_message returned {}", out.result),
                );
            }
        }
        (Some(h), Some(msg)) => match returned {
            Returned::Errno(e) => {
                if h.error != -e {
                    rep.fail(&format!("C03.{}.reply.errno", def.name), function, input, format!("out_header.error = {}", -e), format!("out_header.error = {}", h.error));
                }
            }
            Returned::KindOnly => {
                if h.error == 0 {
                    rep.fail(&format!("C03.{}.reply.errno", def.name), function, input, "an error reply".into(), "out_header.error = 0".into());
                }
            }
            Returned::Ok => {
                if h.error != 0 {
                    if c.cap >= need {
                        rep.fail(&format!("C03.{}.reply", def.name), function, input, "success reply".into(), format!("error reply {}", h.error));
                    }
                    return;
                }
                let p = &msg[wire::OUT_HEADER..];
                match wire::init_out(p) {
                    Some(o) if p.len() == 64 && o.major == 7 && o.flags == Some(wire::FUSE_ASYNC_READ) => {}
                    o => rep.fail(
                        &format!("C03.{}.reply", def.name),
                        function,
                        input,
                        "fuse_init_out of 64 bytes (minor 31 >= 23), major 7, flags = ASYNC_READ (offered ASYNC_READ|BIG_WRITES, wanted ASYNC_READ)".into(),
                        format!("{} payload bytes, decoded {:?}", p.len(), o),
                    ),
                }
            }
        },
        _ => {}
    }
}

#[allow(dead_code)]
pub fn list_ops() -> J {
    arr(OPS.iter().map(|d| s(d.name)))
}
