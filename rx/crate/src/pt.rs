//! Group `pt`: the REAL `PassthroughFs` on a temporary directory.
//!
//! Every scenario gets a directory under `std::env::temp_dir()` (`rx-pt-XXXXXX/s<N>/`, fresh
//! content, everything removed at the end of the run) with two children: `export/` (the exported tree) and - for the escape
//! scenarios - `outside/` (a sentinel tree that must never be reached). The export is populated
//! with plain std::fs / libc calls, a `PassthroughFs::<()>` is built on it and driven through
//! the public `FileSystem` trait only. Nothing outside that temporary directory is written.
//!
//! This file holds the shared plumbing (the `World` = export + file system + client model +
//! request trace); the oracles live in pt_seal.rs (C18), pt_handles.rs (C15), pt_refs.rs (C08),
//! pt_list.rs (C16), pt_escape.rs (C06) and pt_effect.rs (C05).
use std::collections::{BTreeMap, BTreeSet};
use std::ffi::CString;
use std::fs;
use std::io;
use std::os::unix::fs::{FileTypeExt, MetadataExt, PermissionsExt};
use std::path::{Path, PathBuf};

use fuse_backend_rs::abi::fuse_abi::{stat64, CreateIn, FsOptions, SetattrValid};
use fuse_backend_rs::api::filesystem::{Context, DirEntry, Entry, FileSystem, ZeroCopyReader, ZeroCopyWriter};
use fuse_backend_rs::file_buf::FileVolatileSlice;
use fuse_backend_rs::file_traits::FileReadWriteVolatile;
use fuse_backend_rs::passthrough::{CachePolicy, Config, PassthroughFs};
use vmm_sys_util::tempdir::TempDir;

use crate::json::{arr, obj, s, J};
use crate::report::{guarded, permute, Opts, Report};

pub const ROOT: u64 = 1;
pub type R<T> = Result<T, i32>;

const BOUND: &str = "real PassthroughFs on a fresh temp dir per scenario, uid 0, public FileSystem API only. \
C18: pre-existing file sizes {0,1,10,4103} x open flags {RDONLY,WRONLY,RDWR}x{0,APPEND}x{0,TRUNC} x write (offset {0,1,size-1,size,size+1} x len {0,1,5} x request flags {0,APPEND}), \
create of an existing/new name x {0,TRUNC} x 3 access modes, setattr SIZE {0,size-1,size,size+1} x {handle,no handle,no_open}, 9 fallocate modes x 8 ranges x {open,no_open}, each against an unsealed twin; \
C15: every sequence of <=2 of 14 macro operations (open/io/opendir/readdirplus/failing create+open+lookup+release/create/release/forget/destroy) x {no_open}x{no_opendir}x{inode_file_handles}, <=3 on two configurations, /proc/self/fd counted; stale-handle matrix; \
C08: every sequence of <=2 of 28 operations and <=3 of 9 lookup/forget/rename/unlink operations x {use_host_ino}x{inode_file_handles}, getattr on every known inode after every step; \
C16: directories of {0,1,2,3,7,40} entries (name lengths 1,8,31,255; files, dirs, symlinks) x {k entries per call, k in 1,2,3,all; size budget min,128,4096} x {one handle, two handles, no_opendir} x {readdir, readdirplus} + going back from 3 offsets; \
C06: 11 hostile names x 10 name-taking operations x 2 parents, 5 outward symlinks x 20 inode operations, x 3 configurations; \
C05: every sequence of <=2 of 33 operations (default configuration) and two 33-step scripts x 5 configurations against a shadow directory driven by libc";

// ---------------------------------------------------------------------------------------------
// export description
// ---------------------------------------------------------------------------------------------

/// paths are relative to the scenario directory ("export/f", "outside/sentinel")
#[derive(Clone, Debug)]
pub enum Node {
    File(String, Vec<u8>),
    Dir(String),
    Sym(String, String),
    Fifo(String),
    Hard(String, String),
}

pub fn file(p: &str, data: &[u8]) -> Node {
    Node::File(p.to_string(), data.to_vec())
}
pub fn dir(p: &str) -> Node {
    Node::Dir(p.to_string())
}
pub fn sym(p: &str, target: &str) -> Node {
    Node::Sym(p.to_string(), target.to_string())
}
pub fn fifo(p: &str) -> Node {
    Node::Fifo(p.to_string())
}
pub fn hard(p: &str, existing: &str) -> Node {
    Node::Hard(p.to_string(), existing.to_string())
}

pub fn pattern(n: usize) -> Vec<u8> {
    (0..n).map(|k| b'a' + (k % 23) as u8).collect()
}

pub fn show_bytes(b: &[u8]) -> String {
    let head: String = b.iter().take(24).map(|c| if c.is_ascii_graphic() || *c == b' ' { *c as char } else { '.' }).collect();
    if b.len() > 24 {
        format!("{} bytes \"{}..\"", b.len(), head)
    } else {
        format!("{} bytes \"{}\"", b.len(), head)
    }
}

impl Node {
    pub fn show(&self) -> String {
        match self {
            Node::File(p, d) => format!("file {} ({})", short_name(p), show_bytes(d)),
            Node::Dir(p) => format!("dir {}", short_name(p)),
            Node::Sym(p, t) => format!("symlink {} -> {}", short_name(p), t),
            Node::Fifo(p) => format!("fifo {}", short_name(p)),
            Node::Hard(p, e) => format!("hardlink {} = {}", short_name(p), short_name(e)),
        }
    }
}

fn short_name(p: &str) -> String {
    if p.len() > 48 {
        format!("{}..({} chars)", &p[..40], p.len())
    } else {
        p.to_string()
    }
}

#[derive(Clone, Copy, Debug, Default, PartialEq, Eq)]
pub struct Cfg {
    pub seal: bool,
    pub no_open: bool,
    pub no_opendir: bool,
    pub ifh: bool,
    pub host_ino: bool,
    pub writeback: bool,
}

impl Cfg {
    pub fn show(&self) -> String {
        format!(
            "Config{{do_import:true, seal_size:{}, no_open:{}, no_opendir:{}, inode_file_handles:{}, use_host_ino:{}, writeback:{}, cache_policy:{}}}{}",
            self.seal,
            self.no_open,
            self.no_opendir,
            self.ifh,
            self.host_ino,
            self.writeback,
            if self.no_open || self.writeback { "Always" } else { "default(Auto)" },
            if self.needs_init() { " + init(ZERO_MESSAGE_OPEN|ZERO_MESSAGE_OPENDIR|WRITEBACK_CACHE)" } else { "" }
        )
    }
    pub fn needs_init(&self) -> bool {
        self.no_open || self.no_opendir || self.writeback
    }
}

// ---------------------------------------------------------------------------------------------
// in-memory request payloads
// ---------------------------------------------------------------------------------------------

pub struct MemReader {
    data: Vec<u8>,
    pos: usize,
}

impl io::Read for MemReader {
    fn read(&mut self, buf: &mut [u8]) -> io::Result<usize> {
        let n = buf.len().min(self.data.len() - self.pos);
        buf[..n].copy_from_slice(&self.data[self.pos..self.pos + n]);
        self.pos += n;
        Ok(n)
    }
}

impl ZeroCopyReader for MemReader {
    fn read_to(&mut self, f: &mut dyn FileReadWriteVolatile, count: usize, off: u64) -> io::Result<usize> {
        let n = count.min(self.data.len() - self.pos);
        // like the transport readers: the (possibly empty) payload goes to the file at `off`
        let slice = unsafe { FileVolatileSlice::from_raw_ptr(self.data.as_mut_ptr().add(self.pos), n) };
        let w = f.write_at_volatile(slice, off)?;
        self.pos += w;
        Ok(w)
    }
}

pub struct MemWriter {
    pub data: Vec<u8>,
}

impl io::Write for MemWriter {
    fn write(&mut self, buf: &[u8]) -> io::Result<usize> {
        self.data.extend_from_slice(buf);
        Ok(buf.len())
    }
    fn flush(&mut self) -> io::Result<()> {
        Ok(())
    }
}

impl ZeroCopyWriter for MemWriter {
    fn write_from(&mut self, f: &mut dyn FileReadWriteVolatile, count: usize, off: u64) -> io::Result<usize> {
        let mut buf = vec![0u8; count.max(1)];
        let slice = unsafe { FileVolatileSlice::from_raw_ptr(buf.as_mut_ptr(), count) };
        let n = f.read_at_volatile(slice, off)?;
        self.data.extend_from_slice(&buf[..n]);
        Ok(n)
    }
    fn available_bytes(&self) -> usize {
        usize::MAX
    }
}

// ---------------------------------------------------------------------------------------------
// names for errnos / flags (witness text only)
// ---------------------------------------------------------------------------------------------

pub fn ename(e: i32) -> String {
    let n = match e {
        libc::EPERM => "EPERM",
        libc::ENOENT => "ENOENT",
        libc::EIO => "EIO",
        libc::EBADF => "EBADF",
        libc::EACCES => "EACCES",
        libc::EEXIST => "EEXIST",
        libc::EXDEV => "EXDEV",
        libc::ENOTDIR => "ENOTDIR",
        libc::EISDIR => "EISDIR",
        libc::EINVAL => "EINVAL",
        libc::ENOSPC => "ENOSPC",
        libc::ENOSYS => "ENOSYS",
        libc::ENOTEMPTY => "ENOTEMPTY",
        libc::ELOOP => "ELOOP",
        libc::EOPNOTSUPP => "EOPNOTSUPP",
        libc::ENAMETOOLONG => "ENAMETOOLONG",
        libc::ESTALE => "ESTALE",
        libc::EMLINK => "EMLINK",
        libc::ENXIO => "ENXIO",
        libc::EFBIG => "EFBIG",
        libc::EBUSY => "EBUSY",
        -1 => "error without errno",
        _ => return format!("errno {}", e),
    };
    n.to_string()
}

pub fn oflags(f: i32) -> String {
    let mut v = vec![match f & libc::O_ACCMODE {
        libc::O_RDONLY => "O_RDONLY",
        libc::O_WRONLY => "O_WRONLY",
        _ => "O_RDWR",
    }
    .to_string()];
    for (bit, name) in [
        (libc::O_APPEND, "O_APPEND"),
        (libc::O_TRUNC, "O_TRUNC"),
        (libc::O_CREAT, "O_CREAT"),
        (libc::O_EXCL, "O_EXCL"),
        (libc::O_DIRECTORY, "O_DIRECTORY"),
        (libc::O_NOFOLLOW, "O_NOFOLLOW"),
    ] {
        if f & bit != 0 {
            v.push(name.to_string());
        }
    }
    v.join("|")
}

pub fn show_res<T: std::fmt::Debug>(r: &R<T>) -> String {
    match r {
        Ok(v) => format!("Ok({:?})", v),
        Err(e) => format!("Err({})", ename(*e)),
    }
}

fn en(e: &io::Error) -> i32 {
    e.raw_os_error().unwrap_or(-1)
}

pub fn pad8(n: usize) -> usize {
    (n + 7) & !7
}

pub fn count_fds() -> usize {
    fs::read_dir("/proc/self/fd").map(|d| d.count()).unwrap_or(0).saturating_sub(1)
}

// ---------------------------------------------------------------------------------------------
// scenario directories
// ---------------------------------------------------------------------------------------------
//
// One `rx-pt-XXXXXX/` directory is created under std::env::temp_dir() per run and removed at the
// end. Every scenario gets `rx-pt-XXXXXX/s<N>/{export,outside}` reset to exactly its layout before
// the file system is built: everything that is not verifiably (kind, bytes, mode, owner, link
// count, link target) part of the node list is removed and re-created. Directories of the layout
// and untouched objects are reused by later scenarios with the same directory skeleton, because
// on the ext4 of the sandbox a rmdir costs ~6 ms and every create/unlink ~0.1 ms (a fresh mkdtemp
// + remove_dir_all per scenario would cost minutes for the group). The PassthroughFs is always new.

struct Pool {
    base: TempDir,
    slots: BTreeMap<(String, usize), PathBuf>,
    next: usize,
    trash: Vec<PathBuf>,
}

static POOL: std::sync::Mutex<Option<Pool>> = std::sync::Mutex::new(None);

fn pool_open() -> Result<(), String> {
    let mut prefix = std::env::temp_dir();
    prefix.push("rx-pt-");
    let base = TempDir::new_with_prefix(prefix).map_err(|e| format!("cannot create a temp dir: {}", e))?;
    fs::create_dir(base.as_path().join("trash")).map_err(|e| format!("mkdir trash: {}", e))?;
    *POOL.lock().unwrap() = Some(Pool { base, slots: BTreeMap::new(), next: 0, trash: Vec::new() });
    Ok(())
}

/// remove everything (in parallel: the cost is latency of the block device, not CPU)
fn pool_close() {
    let Some(pool) = POOL.lock().unwrap().take() else { return };
    let mut victims: Vec<PathBuf> = pool.slots.values().cloned().collect();
    victims.extend(pool.trash.iter().cloned());
    let victims = std::sync::Arc::new(std::sync::Mutex::new(victims));
    let mut th = Vec::new();
    for _ in 0..8 {
        let v = victims.clone();
        th.push(std::thread::spawn(move || loop {
            let Some(p) = v.lock().unwrap().pop() else { break };
            let _ = fs::remove_dir_all(&p);
        }));
    }
    for t in th {
        let _ = t.join();
    }
    drop(pool); // TempDir::drop removes the rest
}

/// does the object at `p` already equal the node (kind, content, mode, link count)?
fn node_intact(top: &Path, n: &Node, nodes: &[Node]) -> bool {
    let (p, want_links) = match n {
        Node::File(p, _) => (p, 1 + nodes.iter().filter(|h| matches!(h, Node::Hard(_, e) if e == p)).count() as u64),
        Node::Sym(p, _) | Node::Fifo(p) | Node::Hard(p, _) => (p, 0),
        Node::Dir(_) => return true,
    };
    let Ok(m) = fs::symlink_metadata(top.join(p)) else { return false };
    match n {
        Node::File(_, d) => m.file_type().is_file() && m.len() == d.len() as u64 && m.mode() & 0o7777 == 0o644 && m.nlink() == want_links && m.uid() == 0 && fs::read(top.join(p)).map_or(false, |c| &c == d),
        Node::Sym(_, t) => m.file_type().is_symlink() && m.uid() == 0 && fs::read_link(top.join(p)).map_or(false, |x| x.to_string_lossy() == t.as_str()),
        Node::Fifo(_) => m.file_type().is_fifo() && m.mode() & 0o7777 == 0o644 && m.nlink() == 1,
        Node::Hard(_, e) => fs::symlink_metadata(top.join(e)).map_or(false, |me| me.ino() == m.ino() && me.dev() == m.dev()),
        Node::Dir(_) => true,
    }
}

/// remove everything under `rel` that is not an intact part of the layout
fn wipe(top: &Path, rel: &str, keep_dirs: &BTreeSet<String>, keep_files: &BTreeSet<String>, trash: &mut Vec<PathBuf>, trash_dir: &Path) -> io::Result<()> {
    let p = if rel.is_empty() { top.to_path_buf() } else { top.join(rel) };
    for e in fs::read_dir(&p)? {
        let e = e?;
        let name = e.file_name().to_string_lossy().to_string();
        let r = if rel.is_empty() { name.clone() } else { format!("{}/{}", rel, name) };
        let ft = e.file_type()?;
        if ft.is_dir() {
            if e.metadata().map_or(true, |m| m.mode() & 0o7777 != 0o755) {
                let _ = fs::set_permissions(e.path(), fs::Permissions::from_mode(0o755));
            }
            if keep_dirs.contains(&r) {
                wipe(top, &r, keep_dirs, keep_files, trash, trash_dir)?;
            } else {
                let dst = trash_dir.join(format!("t{}", trash.len()));
                fs::rename(e.path(), &dst)?;
                trash.push(dst);
            }
        } else if !keep_files.contains(&r) {
            fs::remove_file(e.path())?;
        }
    }
    Ok(())
}

fn acquire_slot(nodes: &[Node], lane: usize) -> Result<PathBuf, String> {
    let mut g = POOL.lock().unwrap();
    let pool = g.as_mut().ok_or("scenario directory pool is not open")?;
    let mut keep: BTreeSet<String> = BTreeSet::new();
    keep.insert("export".to_string());
    for n in nodes {
        if let Node::Dir(p) = n {
            keep.insert(p.clone());
        }
    }
    let sig: String = keep.iter().cloned().collect::<Vec<_>>().join("|");
    let key = (sig, lane);
    let top = match pool.slots.get(&key) {
        Some(p) => p.clone(),
        None => {
            let p = pool.base.as_path().join(format!("s{}", pool.next));
            pool.next += 1;
            // (a child process forked by in_child() may have created the same slot already)
            if !p.is_dir() {
                fs::create_dir(&p).map_err(|e| format!("mkdir {}: {}", p.display(), e))?;
            }
            pool.slots.insert(key, p.clone());
            p
        }
    };
    // objects that are verifiably what the layout says (kind, bytes, mode, owner, link count) stay;
    // a file with hard links stays only together with all of them
    let mut intact: BTreeSet<String> = BTreeSet::new();
    for n in nodes {
        let ok = node_intact(&top, n, nodes);
        match n {
            Node::File(p, _) | Node::Sym(p, _) | Node::Fifo(p) | Node::Hard(p, _) if ok => {
                intact.insert(p.clone());
            }
            _ => {}
        }
    }
    for n in nodes {
        if let Node::Hard(p, e) = n {
            if !intact.contains(p) || !intact.contains(e) {
                intact.remove(p);
                intact.remove(e);
            }
        }
    }
    for n in nodes {
        if let Node::Hard(p, e) = n {
            if !intact.contains(e) {
                intact.remove(p);
            }
        }
    }
    let trash_dir = pool.base.as_path().join("trash");
    wipe(&top, "", &keep, &intact, &mut pool.trash, &trash_dir).map_err(|e| format!("cannot reset {}: {}", top.display(), e))?;
    if !top.join("export").is_dir() {
        fs::create_dir(top.join("export")).map_err(|e| format!("mkdir export: {}", e))?;
    }
    if fs::metadata(top.join("export")).map_or(true, |m| m.mode() & 0o7777 != 0o755) {
        let _ = fs::set_permissions(top.join("export"), fs::Permissions::from_mode(0o755));
    }
    let mut todo: Vec<Node> = Vec::new();
    for n in nodes {
        match n {
            Node::Dir(p) if top.join(p).is_dir() => {}
            Node::File(p, _) | Node::Sym(p, _) | Node::Fifo(p) | Node::Hard(p, _) if intact.contains(p) => {}
            other => todo.push(other.clone()),
        }
    }
    populate(&top, &todo)?;
    Ok(top)
}

// ---------------------------------------------------------------------------------------------
// World
// ---------------------------------------------------------------------------------------------

#[derive(Clone, Debug)]
pub struct Step {
    pub op: &'static str,
    pub text: String,
    /// Ok(summary value) / Err(errno)
    pub res: Result<i64, i32>,
    /// sizes of the watched (pre-existing regular) files after this request
    pub sizes: Vec<u64>,
}

#[derive(Clone, Debug)]
pub struct DEnt {
    pub ino: u64,
    pub off: u64,
    pub typ: u32,
    pub name: Vec<u8>,
    /// readdirplus: (inode number, st_mode, st_ino)
    pub entry: Option<(u64, u32, u64)>,
}

pub struct World {
    pub fs: PassthroughFs<()>,
    pub top: PathBuf,
    pub root: PathBuf,
    pub ctx: Context,
    pub cfg: Cfg,
    pub nodes: Vec<String>,
    pub trace: Vec<Step>,
    /// C08 client model: references the client holds per inode number
    pub refs: BTreeMap<u64, u64>,
    /// every inode number the client was ever told
    pub seen: BTreeSet<u64>,
    /// inode number -> host (dev, ino) of the entry that last carried it
    pub host_of: BTreeMap<u64, (u64, u64)>,
    /// host (dev, ino) -> inode number handed out for it
    pub num_of: BTreeMap<(u64, u64), u64>,
    /// violations of "one number <-> one host file / same number again" seen when entries arrive
    pub id_conflicts: Vec<String>,
    /// (dev, ino) of objects outside the export + attributes/data that leaked
    pub forbidden: BTreeSet<(u64, u64)>,
    pub forbidden_data: Vec<Vec<u8>>,
    pub leaks: Vec<String>,
    pub watch: Vec<PathBuf>,
    pub watch0: Vec<u64>,
    pub eff_no_open: bool,
    pub eff_no_opendir: bool,
    /// entries readdirplus offered but the client refused: (name, inode number)
    pub refused: Vec<(Vec<u8>, u64)>,
    /// the client's readdir callback fails (EIO) at the n-th entry offered within one request
    pub cb_error_at: Option<usize>,
    /// a handle's descriptor was found closed behind the library's back: releasing the handle or
    /// dropping the file system would close it a second time, which aborts a process built with
    /// debug assertions ("IO Safety violation"). The scenario then skips the release and leaks the World.
    pub poisoned: bool,
    /// scenario label, part of the witness when set
    pub label: String,
}

fn cstr(name: &str) -> CString {
    CString::new(name.as_bytes().iter().cloned().filter(|b| *b != 0).collect::<Vec<u8>>()).unwrap()
}

pub fn populate(top: &Path, nodes: &[Node]) -> Result<(), String> {
    for n in nodes {
        let r: io::Result<()> = (|| match n {
            Node::File(p, d) => {
                fs::write(top.join(p), d)?;
                fs::set_permissions(top.join(p), fs::Permissions::from_mode(0o644))
            }
            Node::Dir(p) => {
                fs::create_dir(top.join(p))?;
                fs::set_permissions(top.join(p), fs::Permissions::from_mode(0o755))
            }
            Node::Sym(p, t) => std::os::unix::fs::symlink(t, top.join(p)),
            Node::Fifo(p) => {
                let c = CString::new(top.join(p).to_string_lossy().as_bytes()).unwrap();
                if unsafe { libc::mkfifo(c.as_ptr(), 0o644) } == 0 {
                    Ok(())
                } else {
                    Err(io::Error::last_os_error())
                }
            }
            Node::Hard(p, e) => fs::hard_link(top.join(e), top.join(p)),
        })();
        if let Err(e) = r {
            return Err(format!("cannot create {}: {}", n.show(), e));
        }
    }
    Ok(())
}

impl World {
    /// `lane`: worlds that are alive at the same time (sealed export + twin) use different lanes
    pub fn new(nodes: &[Node], cfg: Cfg, lane: usize) -> Result<World, String> {
        let top = acquire_slot(nodes, lane)?;
        let root = top.join("export");
        let c = Config {
            root_dir: root.to_string_lossy().to_string(),
            do_import: true,
            seal_size: cfg.seal,
            no_open: cfg.no_open,
            no_opendir: cfg.no_opendir,
            inode_file_handles: cfg.ifh,
            use_host_ino: cfg.host_ino,
            writeback: cfg.writeback,
            cache_policy: if cfg.no_open || cfg.writeback { CachePolicy::Always } else { Default::default() },
            ..Default::default()
        };
        let pfs = PassthroughFs::<()>::new(c).map_err(|e| format!("PassthroughFs::new: {}", e))?;
        pfs.import().map_err(|e| format!("import: {}", e))?;
        let mut eff_no_open = false;
        let mut eff_no_opendir = false;
        if cfg.needs_init() {
            let caps = FsOptions::ZERO_MESSAGE_OPEN | FsOptions::ZERO_MESSAGE_OPENDIR | FsOptions::WRITEBACK_CACHE;
            let got = pfs.init(caps).map_err(|e| format!("init: {}", e))?;
            eff_no_open = got.contains(FsOptions::ZERO_MESSAGE_OPEN);
            eff_no_opendir = got.contains(FsOptions::ZERO_MESSAGE_OPENDIR);
            if eff_no_open != cfg.no_open || eff_no_opendir != cfg.no_opendir {
                return Err(format!("init did not negotiate the requested no_open/no_opendir ({:?})", got));
            }
        }
        let watch = Vec::new();
        let mut w = World {
            fs: pfs,
            top,
            root,
            ctx: Context::default(),
            cfg,
            nodes: nodes.iter().map(|n| n.show()).collect(),
            trace: Vec::new(),
            refs: BTreeMap::new(),
            seen: BTreeSet::new(),
            host_of: BTreeMap::new(),
            num_of: BTreeMap::new(),
            id_conflicts: Vec::new(),
            forbidden: BTreeSet::new(),
            forbidden_data: Vec::new(),
            leaks: Vec::new(),
            watch,
            watch0: Vec::new(),
            eff_no_open,
            eff_no_opendir,
            refused: Vec::new(),
            cb_error_at: None,
            poisoned: false,
            label: String::new(),
        };
        w.watch0 = w.sizes();
        Ok(w)
    }

    /// record the sizes of these files (relative to export/) after every request
    pub fn watch_files(&mut self, names: &[&str]) {
        self.watch = names.iter().map(|n| self.root.join(n)).collect();
        self.watch0 = self.sizes();
    }

    pub fn sizes(&self) -> Vec<u64> {
        self.watch.iter().map(|p| fs::symlink_metadata(p).map(|m| m.len()).unwrap_or(u64::MAX)).collect()
    }

    pub fn path(&self, rel: &str) -> PathBuf {
        self.root.join(rel)
    }

    /// witness: export + configuration + request script so far (+ extra fields)
    pub fn witness(&self, extra: Vec<(&str, J)>) -> J {
        let mut v = vec![
            ("export", arr(self.nodes.iter().map(|n| s(n.clone())))),
            ("config", s(self.cfg.show())),
            ("script", arr(self.trace.iter().map(|t| s(t.text.clone())))),
        ];
        if !self.label.is_empty() && !extra.iter().any(|(k, _)| *k == "scenario") {
            v.push(("scenario", s(self.label.clone())));
        }
        v.extend(extra);
        obj(v)
    }

    fn push<T>(&mut self, op: &'static str, call: String, r: &R<T>, ok: impl FnOnce(&T) -> (i64, String)) {
        let (res, shown) = match r {
            Ok(v) => {
                let (n, t) = ok(v);
                (Ok(n), format!("Ok({})", t))
            }
            Err(e) => (Err(*e), format!("Err({})", ename(*e))),
        };
        let sizes = if self.watch.is_empty() { Vec::new() } else { self.sizes() };
        let n = self.trace.len();
        self.trace.push(Step { op, text: format!("#{} {} -> {}", n, call, shown), res, sizes });
    }

    pub fn last(&self) -> usize {
        self.trace.len() - 1
    }

    fn note_attr(&mut self, op: &str, st: &stat64) {
        if self.forbidden.contains(&(st.st_dev, st.st_ino)) {
            self.leaks.push(format!("{} returned the attributes of an object outside the export (dev {}, ino {}, mode {:o})", op, st.st_dev, st.st_ino, st.st_mode));
        }
    }

    /// an entry reached the client: one more reference, identity bookkeeping
    fn note_entry(&mut self, op: &str, e: &Entry) {
        self.note_attr(op, &e.attr);
        *self.refs.entry(e.inode).or_insert(0) += 1;
        self.seen.insert(e.inode);
        let host = (e.attr.st_dev, e.attr.st_ino);
        if let Some(prev) = self.num_of.get(&host) {
            if *prev != e.inode {
                self.id_conflicts.push(format!("{}: host file (dev {}, ino {}) was inode {} before and is inode {} now", op, host.0, host.1, prev, e.inode));
            }
        }
        if let Some(prev) = self.host_of.get(&e.inode) {
            if *prev != host && self.refs.get(&e.inode).copied().unwrap_or(0) > 1 {
                self.id_conflicts.push(format!("{}: inode {} denotes host file (dev {}, ino {}) while the client still holds it for (dev {}, ino {})", op, e.inode, host.0, host.1, prev.0, prev.1));
            }
        }
        self.num_of.insert(host, e.inode);
        self.host_of.insert(e.inode, host);
    }

    /// the harness knows that the last name of this host file is gone: its identity may be reused
    pub fn host_gone(&mut self, host: (u64, u64)) {
        self.num_of.remove(&host);
    }

    // ---- requests ----------------------------------------------------------------------------

    pub fn lookup(&mut self, parent: u64, name: &str) -> R<Entry> {
        let r = self.fs.lookup(&self.ctx, parent, &cstr(name)).map_err(|e| en(&e));
        if let Ok(e) = &r {
            self.note_entry("lookup", e);
        }
        self.push("lookup", format!("lookup(parent={}, {:?})", parent, short_name(name)), &r, |e| (e.inode as i64, format!("inode {} mode {:o} st_ino {}", e.inode, e.attr.st_mode, e.attr.st_ino)));
        r
    }

    pub fn forget(&mut self, ino: u64, n: u64) {
        self.fs.forget(&self.ctx, ino, n);
        if ino != ROOT {
            if let Some(c) = self.refs.get_mut(&ino) {
                *c = c.saturating_sub(n);
            }
        }
        self.push::<()>("forget", format!("forget(inode={}, count={})", ino, n), &Ok(()), |_| (0, String::new()));
    }

    pub fn getattr(&mut self, ino: u64, h: Option<u64>) -> R<stat64> {
        let r = self.fs.getattr(&self.ctx, ino, h).map(|x| x.0).map_err(|e| en(&e));
        if let Ok(st) = &r {
            self.note_attr("getattr", st);
        }
        self.push("getattr", format!("getattr(inode={}, handle={:?})", ino, h), &r, |st| (st.st_size, format!("mode {:o} size {} st_ino {}", st.st_mode, st.st_size, st.st_ino)));
        r
    }

    pub fn setattr(&mut self, ino: u64, h: Option<u64>, valid: SetattrValid, size: i64, mode: u32) -> R<stat64> {
        let mut a: stat64 = unsafe { std::mem::zeroed() };
        a.st_size = size;
        a.st_mode = mode;
        let r = self.fs.setattr(&self.ctx, ino, a, h, valid).map(|x| x.0).map_err(|e| en(&e));
        if let Ok(st) = &r {
            self.note_attr("setattr", st);
        }
        self.push("setattr", format!("setattr(inode={}, handle={:?}, valid={:?}, size={}, mode={:o})", ino, h, valid, size, mode), &r, |st| (st.st_size, format!("mode {:o} size {}", st.st_mode, st.st_size)));
        r
    }

    pub fn open(&mut self, ino: u64, flags: i32) -> R<u64> {
        let r = self.fs.open(&self.ctx, ino, flags as u32, 0).map_err(|e| en(&e)).and_then(|x| x.0.ok_or(-1));
        self.push("open", format!("open(inode={}, {})", ino, oflags(flags)), &r, |h| (*h as i64, format!("handle {}", h)));
        r
    }

    pub fn create(&mut self, parent: u64, name: &str, flags: i32, mode: u32) -> R<(Entry, Option<u64>)> {
        let args = CreateIn { flags: flags as u32, mode, umask: 0, fuse_flags: 0 };
        let r = self.fs.create(&self.ctx, parent, &cstr(name), args).map(|x| (x.0, x.1)).map_err(|e| en(&e));
        if let Ok((e, _)) = &r {
            self.note_entry("create", e);
        }
        self.push("create", format!("create(parent={}, {:?}, {}, mode={:o})", parent, short_name(name), oflags(flags), mode), &r, |(e, h)| (e.inode as i64, format!("inode {} handle {:?} size {}", e.inode, h, e.attr.st_size)));
        r
    }

    pub fn read(&mut self, ino: u64, h: u64, size: u32, off: u64, flags: i32) -> R<Vec<u8>> {
        let mut wr = MemWriter { data: Vec::new() };
        let r = self.fs.read(&self.ctx, ino, h, &mut wr, size, off, None, flags as u32).map_err(|e| en(&e)).map(|_| wr.data);
        if let Ok(d) = &r {
            for f in &self.forbidden_data {
                if !f.is_empty() && d.windows(f.len()).any(|x| x == &f[..]) {
                    self.leaks.push(format!("read(inode={}) returned data of a file outside the export: {}", ino, show_bytes(d)));
                }
            }
        }
        self.push("read", format!("read(inode={}, handle={}, size={}, offset={}, flags={})", ino, h, size, off, oflags(flags)), &r, |d| (d.len() as i64, show_bytes(d)));
        r
    }

    pub fn write(&mut self, ino: u64, h: u64, data: &[u8], off: u64, flags: i32) -> R<usize> {
        let mut rd = MemReader { data: data.to_vec(), pos: 0 };
        let r = self.fs.write(&self.ctx, ino, h, &mut rd, data.len() as u32, off, None, false, flags as u32, 0).map_err(|e| en(&e));
        self.push("write", format!("write(inode={}, handle={}, offset={}, len={}, flags={})", ino, h, off, data.len(), oflags(flags)), &r, |n| (*n as i64, format!("{} bytes", n)));
        r
    }

    pub fn fallocate(&mut self, ino: u64, h: u64, mode: u32, off: u64, len: u64) -> R<()> {
        let r = self.fs.fallocate(&self.ctx, ino, h, mode, off, len).map_err(|e| en(&e));
        self.push("fallocate", format!("fallocate(inode={}, handle={}, mode={:#x}, offset={}, length={})", ino, h, mode, off, len), &r, |_| (0, String::new()));
        r
    }

    pub fn fsync(&mut self, ino: u64, h: u64) -> R<()> {
        let r = self.fs.fsync(&self.ctx, ino, false, h).map_err(|e| en(&e));
        self.push("fsync", format!("fsync(inode={}, handle={})", ino, h), &r, |_| (0, String::new()));
        r
    }

    pub fn release(&mut self, ino: u64, h: u64) -> R<()> {
        let r = self.fs.release(&self.ctx, ino, 0, h, false, false, None).map_err(|e| en(&e));
        self.push("release", format!("release(inode={}, handle={})", ino, h), &r, |_| (0, String::new()));
        r
    }

    pub fn opendir(&mut self, ino: u64) -> R<u64> {
        let r = self.fs.opendir(&self.ctx, ino, libc::O_RDONLY as u32).map_err(|e| en(&e)).and_then(|x| x.0.ok_or(-1));
        self.push("opendir", format!("opendir(inode={})", ino), &r, |h| (*h as i64, format!("handle {}", h)));
        r
    }

    pub fn releasedir(&mut self, ino: u64, h: u64) -> R<()> {
        let r = self.fs.releasedir(&self.ctx, ino, 0, h).map_err(|e| en(&e));
        self.push("releasedir", format!("releasedir(inode={}, handle={})", ino, h), &r, |_| (0, String::new()));
        r
    }

    /// one READDIR / READDIRPLUS request; the client accepts at most `k` entries and at most
    /// `size` bytes of the wire encoding the server would produce. Returns the delivered entries.
    pub fn readdir(&mut self, ino: u64, h: u64, size: u32, off: u64, k: usize, plus: bool) -> R<Vec<DEnt>> {
        let mut out: Vec<DEnt> = Vec::new();
        let mut refused: Vec<(Vec<u8>, u64)> = Vec::new();
        let mut entries: Vec<Entry> = Vec::new();
        let mut used = 0usize;
        let mut offered = 0usize;
        let err_at = self.cb_error_at;
        let res = if !plus {
            self.fs.readdir(&self.ctx, ino, h, size, off, &mut |de: DirEntry| {
                offered += 1;
                if err_at == Some(offered - 1) {
                    return Err(io::Error::from_raw_os_error(libc::EIO));
                }
                let wire = 24 + pad8(de.name.len());
                if out.len() < k && used + wire <= size as usize {
                    used += wire;
                    out.push(DEnt { ino: de.ino, off: de.offset, typ: de.type_, name: de.name.to_vec(), entry: None });
                    Ok(wire)
                } else {
                    Ok(0)
                }
            })
        } else {
            self.fs.readdirplus(&self.ctx, ino, h, size, off, &mut |de: DirEntry, e: Entry| {
                offered += 1;
                if err_at == Some(offered - 1) {
                    refused.push((de.name.to_vec(), e.inode));
                    return Err(io::Error::from_raw_os_error(libc::EIO));
                }
                let wire = 128 + 24 + pad8(de.name.len());
                if out.len() < k && used + wire <= size as usize {
                    used += wire;
                    out.push(DEnt { ino: de.ino, off: de.offset, typ: de.type_, name: de.name.to_vec(), entry: Some((e.inode, e.attr.st_mode, e.attr.st_ino)) });
                    entries.push(e);
                    Ok(wire)
                } else {
                    refused.push((de.name.to_vec(), e.inode));
                    Ok(0)
                }
            })
        };
        let r = res.map_err(|e| en(&e)).map(|_| out);
        // references are held for the entries that were delivered, whatever the final result
        for e in &entries {
            self.note_entry("readdirplus", e);
        }
        for (n, i) in refused {
            self.seen.insert(i);
            self.refused.push((n, i));
        }
        let op = if plus { "readdirplus" } else { "readdir" };
        let cbe = err_at.map(|n| format!(", its callback fails with EIO at entry #{}", n)).unwrap_or_default();
        self.push(op, format!("{}(inode={}, handle={}, size={}, offset={}; client accepts <= {} entries{})", op, ino, h, size, off, if k == usize::MAX { "all".to_string() } else { k.to_string() }, cbe), &r, |v| {
            (v.len() as i64, format!("{} entries: {}", v.len(), v.iter().map(|d| format!("{}@{}", short_name(&String::from_utf8_lossy(&d.name)), d.off)).collect::<Vec<_>>().join(" ")))
        });
        r
    }

    pub fn mkdir(&mut self, parent: u64, name: &str, mode: u32) -> R<Entry> {
        let r = self.fs.mkdir(&self.ctx, parent, &cstr(name), mode, 0).map_err(|e| en(&e));
        if let Ok(e) = &r {
            self.note_entry("mkdir", e);
        }
        self.push("mkdir", format!("mkdir(parent={}, {:?}, mode={:o})", parent, short_name(name), mode), &r, |e| (e.inode as i64, format!("inode {}", e.inode)));
        r
    }

    pub fn mknod(&mut self, parent: u64, name: &str, mode: u32) -> R<Entry> {
        let r = self.fs.mknod(&self.ctx, parent, &cstr(name), mode, 0, 0).map_err(|e| en(&e));
        if let Ok(e) = &r {
            self.note_entry("mknod", e);
        }
        self.push("mknod", format!("mknod(parent={}, {:?}, mode={:o})", parent, short_name(name), mode), &r, |e| (e.inode as i64, format!("inode {}", e.inode)));
        r
    }

    pub fn unlink(&mut self, parent: u64, name: &str) -> R<()> {
        let r = self.fs.unlink(&self.ctx, parent, &cstr(name)).map_err(|e| en(&e));
        self.push("unlink", format!("unlink(parent={}, {:?})", parent, short_name(name)), &r, |_| (0, String::new()));
        r
    }

    pub fn rmdir(&mut self, parent: u64, name: &str) -> R<()> {
        let r = self.fs.rmdir(&self.ctx, parent, &cstr(name)).map_err(|e| en(&e));
        self.push("rmdir", format!("rmdir(parent={}, {:?})", parent, short_name(name)), &r, |_| (0, String::new()));
        r
    }

    pub fn rename(&mut self, od: u64, on: &str, nd: u64, nn: &str) -> R<()> {
        let r = self.fs.rename(&self.ctx, od, &cstr(on), nd, &cstr(nn), 0).map_err(|e| en(&e));
        self.push("rename", format!("rename(olddir={}, {:?}, newdir={}, {:?})", od, short_name(on), nd, short_name(nn)), &r, |_| (0, String::new()));
        r
    }

    pub fn symlink(&mut self, target: &str, parent: u64, name: &str) -> R<Entry> {
        let r = self.fs.symlink(&self.ctx, &cstr(target), parent, &cstr(name)).map_err(|e| en(&e));
        if let Ok(e) = &r {
            self.note_entry("symlink", e);
        }
        self.push("symlink", format!("symlink(target={:?}, parent={}, {:?})", target, parent, short_name(name)), &r, |e| (e.inode as i64, format!("inode {} mode {:o}", e.inode, e.attr.st_mode)));
        r
    }

    pub fn link(&mut self, ino: u64, newparent: u64, name: &str) -> R<Entry> {
        let r = self.fs.link(&self.ctx, ino, newparent, &cstr(name)).map_err(|e| en(&e));
        if let Ok(e) = &r {
            self.note_entry("link", e);
        }
        self.push("link", format!("link(inode={}, newparent={}, {:?})", ino, newparent, short_name(name)), &r, |e| (e.inode as i64, format!("inode {} nlink {}", e.inode, e.attr.st_nlink)));
        r
    }

    pub fn readlink(&mut self, ino: u64) -> R<Vec<u8>> {
        let r = self.fs.readlink(&self.ctx, ino).map_err(|e| en(&e));
        self.push("readlink", format!("readlink(inode={})", ino), &r, |d| (d.len() as i64, format!("{:?}", String::from_utf8_lossy(d))));
        r
    }

    /// DESTROY (the library re-imports the root): the client forgets everything it knew
    pub fn destroy(&mut self) {
        self.fs.destroy();
        self.refs.clear();
        self.push::<()>("destroy", "destroy()".to_string(), &Ok(()), |_| (0, String::new()));
    }

    /// client gives back every reference it holds
    pub fn forget_all(&mut self) {
        let held: Vec<(u64, u64)> = self.refs.iter().filter(|(i, c)| **i != ROOT && **c > 0).map(|(i, c)| (*i, *c)).collect();
        for (i, c) in held {
            self.forget(i, c);
        }
    }
}

// ---------------------------------------------------------------------------------------------
// tree snapshots (C05, C06)
// ---------------------------------------------------------------------------------------------

/// relative path -> description (type, mode, size, content, link target, hard-link group)
pub fn snapshot(base: &Path, with_times: bool) -> BTreeMap<String, String> {
    let mut out = BTreeMap::new();
    let mut first: BTreeMap<(u64, u64), String> = BTreeMap::new();
    fn walk(base: &Path, rel: &str, with_times: bool, out: &mut BTreeMap<String, String>, first: &mut BTreeMap<(u64, u64), String>) {
        let p = if rel.is_empty() { base.to_path_buf() } else { base.join(rel) };
        let Ok(m) = fs::symlink_metadata(&p) else {
            out.insert(rel.to_string(), "unreadable".to_string());
            return;
        };
        let ft = m.file_type();
        let times = if with_times { format!(" mtime={}.{}", m.mtime(), m.mtime_nsec()) } else { String::new() };
        let mut d = if ft.is_dir() {
            format!("dir mode={:o}", m.mode() & 0o7777)
        } else if ft.is_symlink() {
            format!("symlink -> {:?}", fs::read_link(&p).map(|t| t.to_string_lossy().to_string()).unwrap_or_default())
        } else if ft.is_fifo() {
            format!("fifo mode={:o}", m.mode() & 0o7777)
        } else if ft.is_file() {
            let data = fs::read(&p).unwrap_or_default();
            format!("file mode={:o} size={} nlink={} data={}{}", m.mode() & 0o7777, m.len(), m.nlink(), crate::report::hexdump(&data[..data.len().min(64)]), times)
        } else {
            format!("special mode={:o}", m.mode())
        };
        if !ft.is_dir() {
            let id = (m.dev(), m.ino());
            match first.get(&id) {
                Some(f) => d.push_str(&format!(" same-file-as={}", f)),
                None => {
                    first.insert(id, rel.to_string());
                }
            }
        }
        out.insert(if rel.is_empty() { ".".to_string() } else { rel.to_string() }, d);
        if ft.is_dir() {
            let mut names: Vec<String> = fs::read_dir(&p).map(|rd| rd.filter_map(|e| e.ok()).map(|e| e.file_name().to_string_lossy().to_string()).collect()).unwrap_or_default();
            names.sort();
            for n in names {
                let r = if rel.is_empty() { n } else { format!("{}/{}", rel, n) };
                walk(base, &r, with_times, out, first);
            }
        }
    }
    walk(base, "", with_times, &mut out, &mut first);
    out
}

pub fn snapshot_diff(a: &BTreeMap<String, String>, b: &BTreeMap<String, String>) -> Vec<String> {
    let mut d = Vec::new();
    for (k, v) in a {
        match b.get(k) {
            None => d.push(format!("{}: [{}] vs missing", k, v)),
            Some(w) if w != v => d.push(format!("{}: [{}] vs [{}]", k, v, w)),
            _ => {}
        }
    }
    for (k, w) in b {
        if !a.contains_key(k) {
            d.push(format!("{}: missing vs [{}]", k, w));
        }
    }
    d
}

pub fn host_id(p: &Path) -> Option<(u64, u64)> {
    fs::symlink_metadata(p).ok().map(|m| (m.dev(), m.ino()))
}

// ---------------------------------------------------------------------------------------------
// driver
// ---------------------------------------------------------------------------------------------

pub struct Cx<'a> {
    pub rep: &'a mut Report,
    pub opts: &'a Opts,
    pub tool_errors: u64,
}

impl Cx<'_> {
    /// does a scenario with this label take part (--filter / --scenario)?
    pub fn selects(&self, label: &str) -> bool {
        self.opts.selects(label) && self.opts.scenario.as_ref().map_or(true, |f| label.contains(f.as_str()))
    }

    pub fn tool_error(&mut self, what: String) {
        self.tool_errors += 1;
        if self.rep.notes.len() < 30 {
            self.rep.notes.push(format!("tool-error: {}", what));
        }
    }

    /// run one scenario; a panic inside (library or harness) never becomes a property failure
    pub fn scenario(&mut self, label: &str, f: impl FnOnce(&mut Cx)) {
        if !self.selects(label) {
            return;
        }
        if std::env::var_os("RX_PT_TRACE").is_some() {
            eprintln!("pt: {}", label);
        }
        let r = guarded(|| f(self));
        if let Err(m) = r {
            self.tool_error(format!("scenario [{}] panicked: {}", label, m));
        }
    }

    pub fn world(&mut self, nodes: &[Node], cfg: Cfg) -> Option<World> {
        self.world_lane(nodes, cfg, 0)
    }

    pub fn world_lane(&mut self, nodes: &[Node], cfg: Cfg, lane: usize) -> Option<World> {
        match World::new(nodes, cfg, lane) {
            Ok(w) => Some(w),
            Err(e) => {
                self.tool_error(e);
                None
            }
        }
    }

    /// account for the requests of a finished world
    pub fn account(&mut self, w: &World, shape: &str) {
        self.rep.cases += w.trace.len() as u64;
        self.rep.distinct.insert(shape.to_string());
        if self.rep.samples.len() < 3 && matches!(self.rep.distinct.len(), 1 | 900 | 5000) {
            self.rep.samples.push(w.witness(vec![("scenario", s(shape))]));
        }
    }
}

/// Run `f` in a forked child (the harness is single-threaded). Ok if the child ended normally,
/// Err(signal) if it was killed - e.g. by the abort of a build with debug assertions when the
/// library closes a descriptor twice ("IO Safety violation"). The parent is not affected.
pub fn in_child(f: impl FnOnce()) -> Result<(), i32> {
    unsafe {
        let pid = libc::fork();
        if pid < 0 {
            return Ok(());
        }
        if pid == 0 {
            let devnull = libc::open(b"/dev/null\0".as_ptr() as *const libc::c_char, libc::O_WRONLY);
            if devnull >= 0 {
                libc::dup2(devnull, 1);
                libc::dup2(devnull, 2);
            }
            let _ = std::panic::catch_unwind(std::panic::AssertUnwindSafe(f));
            libc::_exit(0);
        }
        let mut st: libc::c_int = 0;
        libc::waitpid(pid, &mut st, 0);
        if libc::WIFSIGNALED(st) {
            Err(libc::WTERMSIG(st))
        } else {
            Ok(())
        }
    }
}

pub fn seeded<T>(mut v: Vec<T>, opts: &Opts) -> Vec<T> {
    permute(&mut v, opts.seed);
    v
}

fn clean_stale() {
    if let Ok(rd) = fs::read_dir(std::env::temp_dir()) {
        for e in rd.filter_map(|e| e.ok()) {
            if e.file_name().to_string_lossy().starts_with("rx-pt-") {
                let _ = fs::remove_dir_all(e.path());
            }
        }
    }
}

pub fn run(opts: &Opts) -> Report {
    let mut rep = Report::new("pt", BOUND, opts);
    clean_stale();
    unsafe { libc::umask(0) };
    if let Err(e) = pool_open() {
        rep.notes.push(format!("tool-error: {}", e));
        rep.tool_errors = 1;
        return rep;
    }
    let uid = unsafe { libc::geteuid() };
    rep.notes.push(format!("euid {}; temp dir {}", uid, std::env::temp_dir().display()));
    if uid != 0 {
        rep.notes.push("not running as root: scenarios that need CAP_DAC_READ_SEARCH (inode_file_handles) fall back to O_PATH descriptors inside the library".to_string());
    }
    let mut cx = Cx { rep: &mut rep, opts, tool_errors: 0 };
    let t0 = std::time::Instant::now();
    let mut times = Vec::new();
    for (name, f) in [
        ("C18", crate::pt_seal::run as fn(&mut Cx)),
        ("C15", crate::pt_handles::run as fn(&mut Cx)),
        ("C08", crate::pt_refs::run as fn(&mut Cx)),
        ("C16", crate::pt_list::run as fn(&mut Cx)),
        ("C06", crate::pt_escape::run as fn(&mut Cx)),
        ("C05", crate::pt_effect::run as fn(&mut Cx)),
    ] {
        let before = (cx.rep.cases, cx.rep.distinct.len(), t0.elapsed());
        f(&mut cx);
        times.push(format!("{}: {} requests in {} scenarios, {} ms", name, cx.rep.cases - before.0, cx.rep.distinct.len() - before.1, (t0.elapsed() - before.2).as_millis()));
    }
    let te = cx.tool_errors;
    pool_close();
    rep.notes.push(times.join("; "));
    rep.tool_errors = te;
    rep
}
