//! C15 - handles and descriptors are released when the client releases them.
//!
//! Oracle [S]: the number of entries of /proc/self/fd after the file system was built (import +
//! init) is the "freshly started server". After any script, once the client has released every
//! handle it holds and forgotten every reference (client model of pt.rs), the number is the same
//! (`C15.fds.balanced`) and no inode number the client ever saw resolves any more
//! (`C15.inodes.released`); the same after DESTROY (`C15.fds.destroy`), which re-imports the root.
//! A handle works only with its inode and only until released (`C15.handle.stale`), distinct opens
//! get distinct handles (`C15.handle.distinct`).
use crate::json::{i, s};
use crate::pt::*;

#[derive(Clone, Copy, Debug, PartialEq, Eq)]
enum M {
    OpenA,
    Io,
    OpenDirRoot,
    PlusAll,
    PlusOne,
    CreateOnFifo,
    OpenFifo,
    LookupMissing,
    ReleaseWrong,
    CreateNew,
    CreateExisting,
    ReleaseLast,
    ForgetLast,
    Destroy,
}

const ALPHABET: [M; 14] = [
    M::OpenA,
    M::Io,
    M::OpenDirRoot,
    M::PlusAll,
    M::PlusOne,
    M::CreateOnFifo,
    M::OpenFifo,
    M::LookupMissing,
    M::ReleaseWrong,
    M::CreateNew,
    M::CreateExisting,
    M::ReleaseLast,
    M::ForgetLast,
    M::Destroy,
];

fn nodes() -> Vec<Node> {
    vec![
        file("export/a", b"0123456789"),
        file("export/b", b"bbbbb"),
        dir("export/d"),
        file("export/d/x", b"x"),
        file("export/d/y", b"y"),
        file("export/d/z", b"z"),
        fifo("export/p"),
        sym("export/s", "a"),
    ]
}

struct Client {
    /// outstanding handles: (inode, handle, is_dir)
    handles: Vec<(u64, u64, bool)>,
    /// order in which references were taken (for ForgetLast)
    taken: Vec<u64>,
    a_ino: Option<u64>,
    created: usize,
}

fn step(w: &mut World, c: &mut Client, m: M, cx: &mut Cx, label: &str) {
    match m {
        M::OpenA => {
            if let Ok(e) = w.lookup(ROOT, "a") {
                c.taken.push(e.inode);
                c.a_ino = Some(e.inode);
                if let Ok(h) = w.open(e.inode, libc::O_RDWR) {
                    c.handles.push((e.inode, h, false));
                }
            }
        }
        M::Io => {
            let tgt = if w.eff_no_open { c.a_ino.filter(|i| w.refs.get(i).copied().unwrap_or(0) > 0).map(|i| (i, 0u64)) } else { c.handles.iter().rev().find(|h| !h.2).map(|h| (h.0, h.1)) };
            if let Some((ino, h)) = tgt {
                let _ = w.read(ino, h, 4, 0, libc::O_RDWR);
                let _ = w.write(ino, h, b"IO", 1, libc::O_RDWR);
            }
        }
        M::OpenDirRoot => {
            if w.eff_no_opendir {
                let _ = w.readdir(ROOT, 0, 4096, 0, 2, false);
            } else if let Ok(h) = w.opendir(ROOT) {
                c.handles.push((ROOT, h, true));
                let _ = w.readdir(ROOT, h, 4096, 0, 2, false);
            }
        }
        M::PlusAll | M::PlusOne => {
            let k = if m == M::PlusAll { usize::MAX } else { 1 };
            let h = if w.eff_no_opendir { Some(0) } else { w.opendir(ROOT).ok() };
            if let Some(h) = h {
                if let Ok(v) = w.readdir(ROOT, h, 4096, 0, k, true) {
                    for d in v {
                        if let Some((ino, _, _)) = d.entry {
                            c.taken.push(ino);
                        }
                    }
                }
                if !w.eff_no_opendir {
                    let _ = w.releasedir(ROOT, h);
                }
            }
        }
        M::CreateOnFifo => {
            // fails (the FIFO exists and special files are never opened); the client learns no inode
            if let Ok((e, h)) = w.create(ROOT, "p", libc::O_RDWR, 0o644) {
                c.taken.push(e.inode);
                if let Some(h) = h {
                    c.handles.push((e.inode, h, false));
                }
            }
        }
        M::OpenFifo => {
            if let Ok(e) = w.lookup(ROOT, "p") {
                c.taken.push(e.inode);
                if let Ok(h) = w.open(e.inode, libc::O_RDONLY | libc::O_NONBLOCK) {
                    c.handles.push((e.inode, h, false));
                }
            }
        }
        M::LookupMissing => {
            if let Ok(e) = w.lookup(ROOT, "nope") {
                c.taken.push(e.inode);
            }
        }
        M::ReleaseWrong => {
            if let Some(&(ino, h, is_dir)) = c.handles.last() {
                let wrong = ino + 1000;
                let r = if is_dir { w.releasedir(wrong, h) } else { w.release(wrong, h) };
                let skip = if is_dir { w.eff_no_opendir } else { w.eff_no_open };
                if !skip && r != Err(libc::EBADF) {
                    if r.is_ok() {
                        c.handles.pop();
                    }
                    let t = w.trace[w.last()].text.clone();
                    cx.rep.fail("C15.handle.stale", "PassthroughFs::release", || w.witness(vec![("scenario", s(label))]), "release with an inode the handle was not opened on fails with EBADF".to_string(), t);
                }
            }
        }
        M::CreateNew => {
            c.created += 1;
            let name = format!("n{}", c.created);
            if let Ok((e, h)) = w.create(ROOT, &name, libc::O_CREAT | libc::O_EXCL | libc::O_RDWR, 0o644) {
                c.taken.push(e.inode);
                if let Some(h) = h {
                    c.handles.push((e.inode, h, false));
                }
            }
        }
        M::CreateExisting => {
            if let Ok((e, h)) = w.create(ROOT, "a", libc::O_CREAT | libc::O_RDWR, 0o644) {
                c.taken.push(e.inode);
                c.a_ino = Some(e.inode);
                if let Some(h) = h {
                    c.handles.push((e.inode, h, false));
                }
            }
        }
        M::ReleaseLast => {
            if let Some((ino, h, is_dir)) = c.handles.pop() {
                let _ = if is_dir { w.releasedir(ino, h) } else { w.release(ino, h) };
            }
        }
        M::ForgetLast => {
            while let Some(ino) = c.taken.pop() {
                if w.refs.get(&ino).copied().unwrap_or(0) > 0 {
                    w.forget(ino, 1);
                    break;
                }
            }
        }
        M::Destroy => {
            w.destroy();
            c.handles.clear();
            c.taken.clear();
            c.a_ino = None;
        }
    }
}

fn check_fds(w: &World, cx: &mut Cx, obligation: &str, label: &str, base: usize, when: &str) -> bool {
    let now = count_fds();
    if now != base {
        cx.rep.fail(
            obligation,
            "PassthroughFs",
            || w.witness(vec![("scenario", s(label)), ("fds_fresh_server", i(base as i64))]),
            format!("{} open descriptors {} (as the freshly built file system)", base, when),
            format!("{} open descriptors", now),
        );
        return false;
    }
    true
}

fn run_script(cx: &mut Cx, cfg: Cfg, seq: &[M], label: &str) {
    let Some(mut w) = cx.world(&nodes(), cfg) else { return };
    let base = count_fds();
    let mut c = Client { handles: Vec::new(), taken: Vec::new(), a_ino: None, created: 0 };
    for m in seq {
        step(&mut w, &mut c, *m, cx, label);
        if *m == M::Destroy && !check_fds(&w, cx, "C15.fds.destroy", label, base, "right after DESTROY") {
            cx.account(&w, label);
            return;
        }
    }
    // the client lets go of everything
    while let Some((ino, h, is_dir)) = c.handles.pop() {
        let r = if is_dir { w.releasedir(ino, h) } else { w.release(ino, h) };
        if r.is_err() {
            let t = w.trace[w.last()].text.clone();
            cx.rep.fail("C15.release.ok", "PassthroughFs::release", || w.witness(vec![("scenario", s(label))]), "releasing a handle the client holds succeeds".to_string(), t);
        }
    }
    w.forget_all();
    let ok = check_fds(&w, cx, "C15.fds.balanced", label, base, "after the client released every handle and forgot every inode");
    if ok {
        let seen: Vec<u64> = w.seen.iter().cloned().filter(|x| *x != ROOT).collect();
        for ino in seen {
            if w.getattr(ino, None).is_ok() {
                let t = w.trace[w.last()].text.clone();
                cx.rep.fail("C15.inodes.released", "PassthroughFs::forget", || w.witness(vec![("scenario", s(label))]), format!("inode {} no longer resolves (EBADF): the client holds no reference to it", ino), t);
                break;
            }
        }
    }
    // DESTROY + re-initialisation, three times, with something held in between
    for round in 0..3 {
        if round == 1 {
            if let Ok(e) = w.lookup(ROOT, "a") {
                let _ = w.open(e.inode, libc::O_RDONLY);
            }
            let _ = w.opendir(ROOT);
        }
        w.destroy();
        if !check_fds(&w, cx, "C15.fds.destroy", label, base, &format!("after DESTROY #{}", round + 1)) {
            break;
        }
    }
    if let Ok(e) = w.lookup(ROOT, "a") {
        w.forget(e.inode, 1);
        check_fds(&w, cx, "C15.fds.balanced", label, base, "after lookup + forget on the re-imported file system");
    } else {
        let t = w.trace[w.last()].text.clone();
        cx.rep.fail("C15.destroy.reimport", "PassthroughFs::destroy", || w.witness(vec![("scenario", s(label))]), "the file system serves requests again after DESTROY (the root is re-imported)".to_string(), t);
    }
    cx.account(&w, label);
}

/// a handle is usable only with its inode and only until released
fn stale_matrix(cx: &mut Cx, cfg: Cfg, label: &str) {
    let Some(mut w) = cx.world(&nodes(), cfg) else { return };
    let base = count_fds();
    let (Ok(a), Ok(b), Ok(d)) = (w.lookup(ROOT, "a"), w.lookup(ROOT, "b"), w.lookup(ROOT, "d")) else {
        cx.tool_error(format!("[{}] lookups of a, b, d failed", label));
        return;
    };
    let (a, b, d) = (a.inode, b.inode, d.inode);
    let expect = |w: &World, cx: &mut Cx, r: Result<i64, i32>, want: &str, ok: bool| {
        if !ok {
            let t = w.trace[w.last()].text.clone();
            let _ = r;
            cx.rep.fail("C15.handle.stale", "PassthroughFs (handle table)", || w.witness(vec![("scenario", s(label))]), want.to_string(), t);
        }
    };
    if !w.eff_no_open {
        let hs: Vec<u64> = vec![w.open(a, libc::O_RDWR), w.open(a, libc::O_RDWR), w.open(b, libc::O_RDWR)].into_iter().filter_map(|r| r.ok()).collect();
        let hd = if w.eff_no_opendir { None } else { w.opendir(ROOT).ok() };
        let hcr = w.create(ROOT, "fresh", libc::O_CREAT | libc::O_EXCL | libc::O_RDWR, 0o644).ok().map(|x| (x.0.inode, x.1));
        let hc = hcr.and_then(|x| x.1);
        let mut all: Vec<u64> = hs.clone();
        all.extend(hd);
        all.extend(hc);
        let mut uniq = all.clone();
        uniq.sort();
        uniq.dedup();
        if hs.len() != 3 || uniq.len() != all.len() {
            cx.rep.fail("C15.handle.distinct", "PassthroughFs::open", || w.witness(vec![("scenario", s(label))]), "five opens (a, a, b, opendir /, create) give five distinct handles".to_string(), format!("handles {:?}", all));
        } else {
            let (h1, h2) = (hs[0], hs[1]);
            let wrong = "EBADF and no effect: the handle was opened on another inode";
            let r = w.read(b, h1, 4, 0, libc::O_RDWR);
            expect(&w, cx, Ok(0), wrong, r == Err(libc::EBADF));
            let r = w.write(b, h1, b"XX", 0, libc::O_RDWR);
            expect(&w, cx, Ok(0), wrong, r == Err(libc::EBADF));
            let r = w.fsync(b, h1);
            expect(&w, cx, Ok(0), wrong, r == Err(libc::EBADF));
            let r = w.getattr(b, Some(h1));
            expect(&w, cx, Ok(0), wrong, r.is_err());
            let r = w.fallocate(b, h1, 0, 0, 1);
            expect(&w, cx, Ok(0), wrong, r == Err(libc::EBADF));
            let r = w.release(b, h1);
            expect(&w, cx, Ok(0), wrong, r == Err(libc::EBADF));
            if let Some(hd) = hd {
                let r = w.readdir(d, hd, 4096, 0, usize::MAX, false);
                expect(&w, cx, Ok(0), wrong, r.is_err());
                let r = w.releasedir(d, hd);
                expect(&w, cx, Ok(0), wrong, r == Err(libc::EBADF));
            }
            let r = w.read(a, h1, 4, 0, libc::O_RDWR);
            expect(&w, cx, Ok(0), "the handle still works with its own inode after the refused requests", r == Ok(b"0123".to_vec()));
            let r = w.release(a, h1);
            expect(&w, cx, Ok(0), "release of a live handle succeeds", r.is_ok());
            let gone = "EBADF and no effect: the handle was released";
            let r = w.read(a, h1, 4, 0, libc::O_RDWR);
            expect(&w, cx, Ok(0), gone, r == Err(libc::EBADF));
            let r = w.write(a, h1, b"YY", 0, libc::O_RDWR);
            expect(&w, cx, Ok(0), gone, r == Err(libc::EBADF));
            let r = w.fsync(a, h1);
            expect(&w, cx, Ok(0), gone, r == Err(libc::EBADF));
            let r = w.release(a, h1);
            expect(&w, cx, Ok(0), gone, r == Err(libc::EBADF));
            let r = w.read(a, h2, 4, 0, libc::O_RDWR);
            expect(&w, cx, Ok(0), "the second handle of the same inode is not affected by the release of the first", r == Ok(b"0123".to_vec()));
            if let Some(hd) = hd {
                let _ = w.releasedir(ROOT, hd);
                let r = w.readdir(ROOT, hd, 4096, 0, usize::MAX, false);
                expect(&w, cx, Ok(0), gone, r.is_err());
                let r = w.releasedir(ROOT, hd);
                expect(&w, cx, Ok(0), gone, r == Err(libc::EBADF));
            }
            let (ca, cb) = (std::fs::read(w.path("a")).unwrap_or_default(), std::fs::read(w.path("b")).unwrap_or_default());
            if ca != b"0123456789" || cb != b"bbbbb" {
                cx.rep.fail("C15.handle.stale", "PassthroughFs::write", || w.witness(vec![("scenario", s(label))]), "files a and b unchanged by the refused writes".to_string(), format!("a: {}, b: {}", show_bytes(&ca), show_bytes(&cb)));
            }
            let _ = w.release(a, h2);
            let _ = w.release(b, hs[2]);
            if let (Some(hc), Some((fresh, _))) = (hc, hcr) {
                let _ = w.release(fresh, hc);
            }
        }
    }
    w.forget_all();
    w.destroy();
    check_fds(&w, cx, "C15.fds.destroy", label, base, "after the stale-handle matrix and DESTROY");
    cx.account(&w, label);
}

pub fn run(cx: &mut Cx) {
    let mut configs = Vec::new();
    for no_open in [false, true] {
        for no_opendir in [false, true] {
            for ifh in [false, true] {
                configs.push(Cfg { no_open, no_opendir, ifh, ..Default::default() });
            }
        }
    }
    // does the library really get file handles here? (it silently falls back to O_PATH descriptors)
    {
        let probe = |ifh: bool| -> Option<i64> {
            let mut w = World::new(&nodes(), Cfg { ifh, ..Default::default() }, 0).ok()?;
            let before = count_fds() as i64;
            let _e = w.lookup(ROOT, "a").ok()?;
            Some(count_fds() as i64 - before)
        };
        match (probe(false), probe(true)) {
            (Some(x), Some(y)) => cx.rep.notes.push(format!(
                "C15: a looked-up inode costs {} descriptor(s) with inode_file_handles off and {} with it on{}",
                x,
                y,
                if y >= x { " - name_to_handle_at is not usable here, the library fell back to O_PATH descriptors: the inode_file_handles configurations do not exercise file handles" } else { " (file handles in use)" }
            )),
            _ => cx.tool_error("inode_file_handles probe failed".to_string()),
        }
    }
    let mut scripts: Vec<(Cfg, Vec<M>)> = Vec::new();
    for (n, cfg) in configs.iter().enumerate() {
        for a in ALPHABET {
            scripts.push((*cfg, vec![a]));
            for b in ALPHABET {
                scripts.push((*cfg, vec![a, b]));
                if n == 0 || n == configs.len() - 1 {
                    for c in ALPHABET {
                        scripts.push((*cfg, vec![a, b, c]));
                    }
                }
            }
        }
    }
    for (cfg, seq) in seeded(scripts, cx.opts) {
        let label = format!("C15 script no_open={} no_opendir={} inode_file_handles={} {:?}", cfg.no_open, cfg.no_opendir, cfg.ifh, seq);
        cx.scenario(&label, |cx| run_script(cx, cfg, &seq, &label));
    }
    for cfg in configs {
        let label = format!("C15 stale-handle matrix no_open={} no_opendir={} inode_file_handles={}", cfg.no_open, cfg.no_opendir, cfg.ifh);
        cx.scenario(&label, |cx| stale_matrix(cx, cfg, &label));
    }
}
