//! Shared plumbing: command line options, the result object, the deterministic
//! permutation used by --seed, the reply sink (counts write calls) and panic capture.
use std::collections::{HashMap, HashSet};
use std::os::unix::io::RawFd;
use std::sync::Mutex;

use crate::json::{arr, i, obj, s, J};

pub const MAX_FAILURES: usize = 20;
pub const MAX_PER_OBLIGATION: u32 = 3;

#[derive(Clone, Debug, Default)]
pub struct Opts {
    pub filter: Option<String>,
    pub seed: Option<u64>,
    pub property: Option<String>,
    pub scenario: Option<String>,
}

impl Opts {
    /// does a case whose tag string is `tags` take part in this run?
    pub fn selects(&self, tags: &str) -> bool {
        match &self.filter {
            None => true,
            Some(f) => tags.contains(f.as_str()),
        }
    }
}

pub struct Failure {
    pub obligation: String,
    pub property: String,
    pub function: String,
    pub input: J,
    pub expected: String,
    pub observed: String,
}

pub struct Report {
    pub group: String,
    pub cases: u64,
    pub distinct: HashSet<String>,
    pub bound: String,
    pub failures: Vec<Failure>,
    pub failure_total: u64,
    pub per_obligation: HashMap<String, u32>,
    pub samples: Vec<J>,
    pub notes: Vec<String>,
    pub property: Option<String>,
    /// scenarios the harness itself could not run (pt group); reported by run.py as tool-error, never as failures
    pub tool_errors: u64,
}

impl Report {
    pub fn new(group: &str, bound: &str, opts: &Opts) -> Report {
        Report {
            group: group.to_string(),
            cases: 0,
            distinct: HashSet::new(),
            bound: bound.to_string(),
            failures: Vec::new(),
            failure_total: 0,
            per_obligation: HashMap::new(),
            samples: Vec::new(),
            notes: Vec::new(),
            property: opts.property.clone(),
            tool_errors: 0,
        }
    }

    /// one execution of the code under test
    pub fn case(&mut self, shape: &str) {
        self.cases += 1;
        if !self.distinct.contains(shape) {
            self.distinct.insert(shape.to_string());
        }
    }

    pub fn sample(&mut self, input: impl FnOnce() -> J) {
        // three examples spread over the run: the 1st, the 500th and the 4000th case
        if self.samples.len() < 3 && (self.cases == 1 || self.cases == 500 || self.cases == 4000) {
            self.samples.push(input());
        }
    }

    pub fn fail(
        &mut self,
        obligation: &str,
        function: &str,
        input: impl FnOnce() -> J,
        expected: String,
        observed: String,
    ) {
        let property = obligation.split('.').next().unwrap_or("").to_string();
        if let Some(p) = &self.property {
            if *p != property {
                return;
            }
        }
        self.failure_total += 1;
        let n = self.per_obligation.entry(obligation.to_string()).or_insert(0);
        *n += 1;
        if *n > MAX_PER_OBLIGATION || self.failures.len() >= MAX_FAILURES {
            return;
        }
        self.failures.push(Failure {
            obligation: obligation.to_string(),
            property,
            function: function.to_string(),
            input: input(),
            expected,
            observed,
        });
    }

    pub fn to_json(&self) -> J {
        let mut obls: Vec<(&String, &u32)> = self.per_obligation.iter().collect();
        obls.sort();
        obj(vec![
            ("group", s(self.group.clone())),
            ("cases", i(self.cases as i128)),
            ("distinct", i(self.distinct.len() as i128)),
            ("bound", s(self.bound.clone())),
            ("failure_total", i(self.failure_total as i128)),
            ("tool_errors", i(self.tool_errors as i128)),
            (
                "failed_obligations",
                J::Obj(obls.into_iter().map(|(k, v)| (k.clone(), i(*v as i128))).collect()),
            ),
            ("samples", arr(self.samples.iter().cloned())),
            ("notes", arr(self.notes.iter().map(|n| s(n.clone())))),
            (
                "failures",
                arr(self.failures.iter().map(|f| {
                    obj(vec![
                        ("obligation", s(f.obligation.clone())),
                        ("property", s(f.property.clone())),
                        ("function", s(f.function.clone())),
                        ("input", f.input.clone()),
                        ("expected", s(f.expected.clone())),
                        ("observed", s(f.observed.clone())),
                    ])
                })),
            ),
        ])
    }
}

/// Deterministic permutation (xorshift64* driven Fisher-Yates). The set of cases never
/// depends on the seed, only their order (hence which failures are among the first 20).
pub fn permute<T>(v: &mut [T], seed: Option<u64>) {
    let Some(seed) = seed else { return };
    let mut x = seed.wrapping_mul(0x9E37_79B9_7F4A_7C15) | 1;
    let mut next = move || {
        x ^= x >> 12;
        x ^= x << 25;
        x ^= x >> 27;
        x.wrapping_mul(0x2545_F491_4F6C_DD1D)
    };
    for n in (1..v.len()).rev() {
        let k = (next() % (n as u64 + 1)) as usize;
        v.swap(n, k);
    }
}

// --------------------------------------------------------------------------------------
// reply sink
// --------------------------------------------------------------------------------------

/// Where the `FuseDevWriter` under test writes its replies.
///
/// Preferred: an AF_UNIX datagram socket pair - like /dev/fuse, every write()/writev()
/// call arrives as one separate packet, so the harness sees write-call boundaries exactly.
/// Fallback (socketpair unavailable): a temp file that is read back and truncated after
/// every request; then only "length field == bytes emitted" can be checked.
pub enum Sink {
    Packets { tx: RawFd, rx: RawFd },
    File { file: std::fs::File },
}

impl Sink {
    pub fn new() -> Sink {
        let mut fds = [0 as libc::c_int; 2];
        let rc = unsafe {
            libc::socketpair(
                libc::AF_UNIX,
                libc::SOCK_DGRAM | libc::SOCK_CLOEXEC,
                0,
                fds.as_mut_ptr(),
            )
        };
        if rc == 0 {
            unsafe {
                let fl = libc::fcntl(fds[1], libc::F_GETFL);
                libc::fcntl(fds[1], libc::F_SETFL, fl | libc::O_NONBLOCK);
                // never block the writer either: a full queue shows up as a write error
                let fl = libc::fcntl(fds[0], libc::F_GETFL);
                libc::fcntl(fds[0], libc::F_SETFL, fl | libc::O_NONBLOCK);
            }
            return Sink::Packets { tx: fds[0], rx: fds[1] };
        }
        let file = vmm_sys_util::tempfile::TempFile::new()
            .expect("rx: cannot create a temp file for replies")
            .into_file();
        Sink::File { file }
    }

    pub fn kind(&self) -> &'static str {
        match self {
            Sink::Packets { .. } => "datagram socket pair (one packet per write call)",
            Sink::File { .. } => "temp file (bytes only)",
        }
    }

    pub fn fd(&self) -> RawFd {
        use std::os::unix::io::AsRawFd;
        match self {
            Sink::Packets { tx, .. } => *tx,
            Sink::File { file } => file.as_raw_fd(),
        }
    }

    /// everything written since the last drain, one Vec per write call
    pub fn drain(&mut self) -> Vec<Vec<u8>> {
        match self {
            Sink::Packets { rx, .. } => {
                let mut out = Vec::new();
                let mut buf = vec![0u8; 1 << 17];
                loop {
                    let n = unsafe { libc::recv(*rx, buf.as_mut_ptr() as *mut libc::c_void, buf.len(), 0) };
                    if n < 0 {
                        break;
                    }
                    out.push(buf[..n as usize].to_vec());
                }
                out
            }
            Sink::File { file } => {
                use std::io::{Read, Seek, SeekFrom};
                let mut all = Vec::new();
                let _ = file.seek(SeekFrom::Start(0));
                let _ = file.read_to_end(&mut all);
                let _ = file.set_len(0);
                let _ = file.seek(SeekFrom::Start(0));
                if all.is_empty() {
                    Vec::new()
                } else {
                    vec![all]
                }
            }
        }
    }
}

impl Drop for Sink {
    fn drop(&mut self) {
        if let Sink::Packets { tx, rx } = self {
            unsafe {
                libc::close(*tx);
                libc::close(*rx);
            }
        }
    }
}

// --------------------------------------------------------------------------------------
// panic capture
// --------------------------------------------------------------------------------------

static LAST_PANIC: Mutex<Option<String>> = Mutex::new(None);

pub fn install_panic_hook() {
    std::panic::set_hook(Box::new(|info| {
        let msg = if let Some(m) = info.payload().downcast_ref::<&str>() {
            m.to_string()
        } else if let Some(m) = info.payload().downcast_ref::<String>() {
            m.clone()
        } else {
            "panic".to_string()
        };
        let loc = info
            .location()
            .map(|l| format!(" at {}:{}", l.file(), l.line()))
            .unwrap_or_default();
        if let Ok(mut g) = LAST_PANIC.lock() {
            *g = Some(format!("{msg}{loc}"));
        }
    }));
}

/// run `f`, turning a panic into Err(message)
pub fn guarded<T>(f: impl FnOnce() -> T) -> Result<T, String> {
    if let Ok(mut g) = LAST_PANIC.lock() {
        *g = None;
    }
    match std::panic::catch_unwind(std::panic::AssertUnwindSafe(f)) {
        Ok(v) => Ok(v),
        Err(_) => {
            let m = LAST_PANIC
                .lock()
                .ok()
                .and_then(|mut g| g.take())
                .unwrap_or_else(|| "panic".to_string());
            Err(m)
        }
    }
}

pub fn hx<T: std::fmt::LowerHex>(v: T) -> String {
    format!("{:#x}", v)
}

pub fn hexdump(b: &[u8]) -> String {
    let mut o = String::new();
    for (n, x) in b.iter().enumerate() {
        if n >= 96 {
            o.push_str(&format!("..(+{} bytes)", b.len() - n));
            break;
        }
        o.push_str(&format!("{:02x}", x));
    }
    o
}
