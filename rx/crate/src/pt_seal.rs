//! C18 - a size-sealed export never lets a client change a file's size.
//!
//! Every scenario runs the same straight-line request script twice: on an export with
//! `seal_size: true` and on an identical export without sealing (the "twin"). Oracle [S]:
//!  * `.size`     after EVERY request of the sealed run the size of every pre-existing regular
//!                file is what it was;
//!  * `.refused`  a request that changes a size on the twin is answered with an error when sealed;
//!  * `.within`   a request whose byte range lies inside the current size (and that is not a
//!                truncation / SIZE request) has the twin's result (value or errno; for fallocate
//!                only Ok vs Err) and leaves the same file content;
//!  * `.handle_alive` after a refused request the same handle still works.
//! Truncating opens/creates and SIZE requests that would not change the size (O_TRUNC on an empty
//! file, SIZE == current size) may be refused or served: both readings of the statement pass.
use fuse_backend_rs::abi::fuse_abi::SetattrValid;

use crate::json::{i, s};
use crate::pt::*;

const SIZES: [usize; 4] = [0, 1, 10, 4096 + 7];
const ACCS: [i32; 3] = [libc::O_RDONLY, libc::O_WRONLY, libc::O_RDWR];
const FALLOC_MODES: [u32; 9] = [
    0,
    libc::FALLOC_FL_KEEP_SIZE as u32,
    (libc::FALLOC_FL_PUNCH_HOLE | libc::FALLOC_FL_KEEP_SIZE) as u32,
    libc::FALLOC_FL_ZERO_RANGE as u32,
    (libc::FALLOC_FL_ZERO_RANGE | libc::FALLOC_FL_KEEP_SIZE) as u32,
    libc::FALLOC_FL_COLLAPSE_RANGE as u32,
    libc::FALLOC_FL_INSERT_RANGE as u32,
    libc::FALLOC_FL_UNSHARE_RANGE as u32,
    0x80,
];

#[derive(Clone, Debug)]
enum Case {
    Write { size: usize, acc: i32, app_open: bool, trunc: bool, off: u64, len: usize, app_req: bool, no_open: bool },
    Create { size: usize, existing: bool, trunc: bool, acc: i32 },
    SetSize { size: usize, newsize: i64, handle: bool, no_open: bool },
    SetMode { size: usize, handle: bool },
    Falloc { size: usize, mode: u32, off: u64, len: u64, no_open: bool },
}

impl Case {
    fn op(&self) -> &'static str {
        match self {
            Case::Write { .. } => "write",
            Case::Create { .. } => "create",
            Case::SetSize { .. } | Case::SetMode { .. } => "setattr",
            Case::Falloc { .. } => "fallocate",
        }
    }
    fn size(&self) -> usize {
        match self {
            Case::Write { size, .. } | Case::Create { size, .. } | Case::SetSize { size, .. } | Case::SetMode { size, .. } | Case::Falloc { size, .. } => *size,
        }
    }
    fn no_open(&self) -> bool {
        matches!(self, Case::Write { no_open: true, .. } | Case::SetSize { no_open: true, .. } | Case::Falloc { no_open: true, .. })
    }
    fn label(&self) -> String {
        format!("C18 {} {:?}", self.op(), self)
    }
}

#[derive(Clone, Copy, Debug, PartialEq)]
enum Kind {
    /// the request under test: `within` = byte range inside the size and not a truncation
    Main { within: bool, strict_errno: bool },
    /// must succeed in the sealed run whenever the handle was obtained
    Alive,
    /// follow-up request that stays within the size: compared with the twin
    Probe,
}

struct Mark {
    idx: usize,
    kind: Kind,
    op: &'static str,
}

fn offsets(size: usize) -> Vec<u64> {
    let mut v: Vec<u64> = Vec::new();
    for c in [0i64, 1, size as i64 - 1, size as i64, size as i64 + 1] {
        if c >= 0 && !v.contains(&(c as u64)) {
            v.push(c as u64);
        }
    }
    v
}

fn cases() -> Vec<Case> {
    let mut v = Vec::new();
    for size in SIZES {
        for acc in ACCS {
            for app_open in [false, true] {
                for trunc in [false, true] {
                    for off in offsets(size) {
                        for len in [0usize, 1, 5] {
                            for app_req in [false, true] {
                                v.push(Case::Write { size, acc, app_open, trunc, off, len, app_req, no_open: false });
                            }
                        }
                    }
                }
            }
        }
        for off in offsets(size) {
            for len in [0usize, 1, 5] {
                for app_req in [false, true] {
                    v.push(Case::Write { size, acc: libc::O_RDWR, app_open: false, trunc: false, off, len, app_req, no_open: true });
                }
            }
        }
        for acc in ACCS {
            for trunc in [false, true] {
                v.push(Case::Create { size, existing: true, trunc, acc });
            }
        }
        for trunc in [false, true] {
            v.push(Case::Create { size, existing: false, trunc, acc: libc::O_WRONLY });
        }
        let mut news: Vec<i64> = Vec::new();
        for c in [0i64, size as i64 - 1, size as i64, size as i64 + 1] {
            if c >= 0 && !news.contains(&c) {
                news.push(c);
            }
        }
        for newsize in news {
            v.push(Case::SetSize { size, newsize, handle: false, no_open: false });
            v.push(Case::SetSize { size, newsize, handle: true, no_open: false });
            v.push(Case::SetSize { size, newsize, handle: false, no_open: true });
        }
        v.push(Case::SetMode { size, handle: false });
        v.push(Case::SetMode { size, handle: true });
        let sz = size as i64;
        let mut ranges: Vec<(u64, u64)> = Vec::new();
        for (o, l) in [(0, 1), (sz - 1, 1), (sz - 1, 2), (sz, 1), (sz + 1, 5), (0, sz), (0, sz + 1), (0, 0), (0, 4096), (4096, 4096)] {
            if o >= 0 && l >= 0 && !ranges.contains(&(o as u64, l as u64)) {
                ranges.push((o as u64, l as u64));
            }
        }
        for mode in FALLOC_MODES {
            for (off, len) in &ranges {
                for no_open in [false, true] {
                    v.push(Case::Falloc { size, mode, off: *off, len: *len, no_open });
                }
            }
        }
    }
    v
}

const DATA: &[u8] = b"WXYZ!";

/// the straight-line script; the number and order of requests never depends on results
fn script(c: &Case, w: &mut World) -> Vec<Mark> {
    let mut m = Vec::new();
    let size = c.size();
    match *c {
        Case::Write { acc, app_open, trunc, off, len, app_req, no_open, .. } => {
            let ino = w.lookup(ROOT, "f").map(|e| e.inode).unwrap_or(u64::MAX);
            let of = acc | if app_open { libc::O_APPEND } else { 0 } | if trunc { libc::O_TRUNC } else { 0 };
            let mut opened = no_open;
            let h = if no_open {
                0
            } else {
                let r = w.open(ino, of);
                m.push(Mark { idx: w.last(), kind: Kind::Main { within: !trunc, strict_errno: true }, op: "open" });
                opened = r.is_ok();
                r.unwrap_or(u64::MAX)
            };
            if acc != libc::O_WRONLY {
                let _ = w.read(ino, h, size as u32 + 5, 0, acc);
                if !trunc {
                    m.push(Mark { idx: w.last(), kind: Kind::Main { within: true, strict_errno: true }, op: "read" });
                }
            }
            let rf = acc | if app_req { libc::O_APPEND } else { 0 };
            let eff = if app_req { size as u64 } else { off };
            let within = !trunc && eff + len as u64 <= size as u64;
            let _ = w.write(ino, h, &DATA[..len], off, rf);
            m.push(Mark { idx: w.last(), kind: Kind::Main { within, strict_errno: true }, op: "write" });
            if !no_open {
                let r = w.getattr(ino, Some(h));
                if opened {
                    m.push(Mark { idx: w.last(), kind: Kind::Alive, op: "write" });
                    w.poisoned |= r == Err(libc::EBADF);
                }
            }
            if w.poisoned {
                return m; // any further use of the handle would close its descriptor a second time
            }
            let _ = w.write(ino, h, &b"Q"[..size.min(1)], 0, acc);
            if !trunc {
                m.push(Mark { idx: w.last(), kind: Kind::Probe, op: "write" });
            }
            if !no_open && !w.poisoned {
                let _ = w.release(ino, h);
            }
            w.forget(ino, 1);
        }
        Case::Create { existing, trunc, acc, .. } => {
            let name = if existing { "f" } else { "fresh" };
            let fl = libc::O_CREAT | acc | if trunc { libc::O_TRUNC } else { 0 };
            let r = w.create(ROOT, name, fl, 0o644);
            m.push(Mark { idx: w.last(), kind: Kind::Main { within: !(trunc && existing), strict_errno: true }, op: "create" });
            let r_ok = r.is_ok();
            let (ino, h) = match r {
                Ok((e, h)) => (e.inode, h.unwrap_or(u64::MAX)),
                Err(_) => (u64::MAX, u64::MAX),
            };
            let _ = w.getattr(ino, None);
            let _ = w.write(ino, h, &b"Q"[..size.min(1)], 0, acc);
            if !(trunc && existing) && existing {
                m.push(Mark { idx: w.last(), kind: Kind::Probe, op: "create" });
            }
            // (a write to the NEW file is refused too: the library seals every file; either way the handle must survive)
            let r = w.getattr(ino, Some(h));
            if r_ok {
                m.push(Mark { idx: w.last(), kind: Kind::Alive, op: "create" });
                w.poisoned |= r == Err(libc::EBADF);
                if w.poisoned {
                    return m;
                }
            }
            let _ = w.release(ino, h);
            w.forget(ino, 1);
        }
        Case::SetSize { newsize, handle, no_open, .. } => {
            let ino = w.lookup(ROOT, "f").map(|e| e.inode).unwrap_or(u64::MAX);
            let h = if handle && !no_open { w.open(ino, libc::O_RDWR).ok() } else { None };
            let _ = w.setattr(ino, h, SetattrValid::SIZE, newsize, 0);
            m.push(Mark { idx: w.last(), kind: Kind::Main { within: false, strict_errno: false }, op: "setattr" });
            if let Some(h) = h {
                let _ = w.getattr(ino, Some(h));
                m.push(Mark { idx: w.last(), kind: Kind::Alive, op: "setattr" });
                let _ = w.release(ino, h);
            }
            w.forget(ino, 1);
        }
        Case::SetMode { handle, .. } => {
            let ino = w.lookup(ROOT, "f").map(|e| e.inode).unwrap_or(u64::MAX);
            let h = if handle { w.open(ino, libc::O_RDWR).ok() } else { None };
            let _ = w.setattr(ino, h, SetattrValid::MODE, 0, 0o600);
            m.push(Mark { idx: w.last(), kind: Kind::Main { within: true, strict_errno: true }, op: "setattr" });
            if let Some(h) = h {
                let _ = w.release(ino, h);
            }
            w.forget(ino, 1);
        }
        Case::Falloc { mode, off, len, no_open, .. } => {
            let ino = w.lookup(ROOT, "f").map(|e| e.inode).unwrap_or(u64::MAX);
            let mut opened = false;
            let h = if no_open {
                0
            } else {
                let r = w.open(ino, libc::O_RDWR);
                opened = r.is_ok();
                r.unwrap_or(u64::MAX)
            };
            let _ = w.fallocate(ino, h, mode, off, len);
            m.push(Mark { idx: w.last(), kind: Kind::Main { within: off + len <= size as u64, strict_errno: false }, op: "fallocate" });
            if !no_open {
                let r = w.getattr(ino, Some(h));
                if opened {
                    m.push(Mark { idx: w.last(), kind: Kind::Alive, op: "fallocate" });
                    w.poisoned |= r == Err(libc::EBADF);
                }
                if w.poisoned {
                    return m;
                }
                let _ = w.write(ino, h, &b"Q"[..size.min(1)], 0, libc::O_RDWR);
                m.push(Mark { idx: w.last(), kind: Kind::Probe, op: "fallocate" });
                if !w.poisoned {
                    let _ = w.release(ino, h);
                }
            }
            w.forget(ino, 1);
        }
    }
    m
}

fn same(a: &Result<i64, i32>, b: &Result<i64, i32>, strict_errno: bool) -> bool {
    match (a, b) {
        (Ok(x), Ok(y)) => x == y,
        (Err(x), Err(y)) => !strict_errno || x == y,
        _ => false,
    }
}

pub fn run(cx: &mut Cx) {
    let mut twin_changed_total = 0u64;
    let mut refused_total = 0u64;
    let mut within_total = 0u64;
    // Without open support every request works on a descriptor of its own; a defect that closes it
    // twice kills a process built with debug assertions. One child process tries all sealed no_open
    // scripts first: if it survives they are safe to run here, otherwise each one is tried in a
    // child of its own so that the offending script can be named.
    let all = seeded(cases(), cx.opts);
    let risky: Vec<Case> = all.iter().filter(|c| c.no_open() && cx.selects(&c.label())).cloned().collect();
    let canary_ok = risky.is_empty()
        || in_child(|| {
            for c in &risky {
                let nodes = vec![file("export/f", &pattern(c.size())), file("export/g", &pattern(10))];
                if let Ok(mut w) = World::new(&nodes, Cfg { seal: true, no_open: true, ..Default::default() }, 0) {
                    let _ = script(c, &mut w);
                }
            }
        })
        .is_ok();
    for c in all {
        let label = c.label();
        let tc = &mut twin_changed_total;
        let rt = &mut refused_total;
        let wt = &mut within_total;
        cx.scenario(&label, |cx| {
            let nodes = vec![file("export/f", &pattern(c.size())), file("export/g", &pattern(10))];
            let no = c.no_open();
            if no && !canary_ok {
                // without open support every request works on a descriptor of its own: a defect that closes
                // it twice kills a process built with debug assertions, so the sealed run is tried in a child first
                let died = in_child(|| {
                    if let Ok(mut w) = World::new(&nodes, Cfg { seal: true, no_open: true, ..Default::default() }, 0) {
                        let _ = script(&c, &mut w);
                    }
                });
                if let Err(sig) = died {
                    let Some(mut twin) = cx.world_lane(&nodes, Cfg { seal: false, no_open: no, ..Default::default() }, 1) else { return };
                    let _ = script(&c, &mut twin);
                    cx.account(&twin, &label);
                    cx.rep.fail(
                        &format!("C18.{}.handle_alive", c.op()),
                        &format!("PassthroughFs::{}", c.op()),
                        || twin.witness(vec![("note", s("the script is shown with the results of the unsealed twin; the run on the sealed export (seal_size:true, otherwise the same configuration) did not survive"))]),
                        "the sealed export answers every request of the script (refusing those that would change a size) and keeps serving".to_string(),
                        format!("the serving process was killed by signal {} during the script (SIGABRT = 6: a descriptor was closed twice, 'IO Safety violation' in a build with debug assertions)", sig),
                    );
                    return;
                }
            }
            let Some(mut sealed) = cx.world(&nodes, Cfg { seal: true, no_open: no, ..Default::default() }) else { return };
            let Some(mut twin) = cx.world_lane(&nodes, Cfg { seal: false, no_open: no, ..Default::default() }, 1) else { return };
            sealed.label = label.clone();
            twin.label = label.clone();
            sealed.watch_files(&["f", "g"]);
            twin.watch_files(&["f", "g"]);
            let marks = script(&c, &mut sealed);
            let _ = script(&c, &mut twin);
            cx.account(&sealed, &label);
            cx.rep.cases += twin.trace.len() as u64;
            if sealed.trace.len() != twin.trace.len() && !sealed.poisoned {
                cx.tool_error(format!("[{}] sealed and twin scripts differ in length", label));
                return;
            }
            let func = format!("PassthroughFs::{}", c.op());
            // (1) sizes never change on the sealed export
            for (n, st) in sealed.trace.iter().enumerate() {
                if st.sizes != sealed.watch0 {
                    let (op, txt, sizes) = (st.op, st.text.clone(), st.sizes.clone());
                    let w0 = sealed.watch0.clone();
                    cx.rep.fail(
                        &format!("C18.{}.size", if op == "getattr" || op == "lookup" || op == "forget" || op == "release" { c.op() } else { op }),
                        &format!("PassthroughFs::{}", op),
                        || sealed.witness(vec![("offending_request", i(n as i64))]),
                        format!("sizes of the pre-existing files [f, g] stay {:?} after every request on the sealed export", w0),
                        format!("after {} the sizes are {:?}", txt, sizes),
                    );
                    break;
                }
            }
            // (2) marked requests
            let mut all_within = true;
            for mk in &marks {
                let sres = sealed.trace[mk.idx].res;
                let tres = twin.trace[mk.idx].res;
                let before = if mk.idx == 0 { twin.watch0.clone() } else { twin.trace[mk.idx - 1].sizes.clone() };
                let changed = twin.trace[mk.idx].sizes != before;
                match mk.kind {
                    Kind::Main { within, strict_errno } => {
                        if changed {
                            *tc += 1;
                            all_within = false;
                            if sres.is_ok() {
                                let txt = sealed.trace[mk.idx].text.clone();
                                let after = twin.trace[mk.idx].sizes.clone();
                                cx.rep.fail(
                                    &format!("C18.{}.refused", mk.op),
                                    &func,
                                    || sealed.witness(vec![("request", i(mk.idx as i64))]),
                                    format!("refused: without sealing this request changes the sizes of [f, g] from {:?} to {:?}", before, after),
                                    txt,
                                );
                            } else {
                                *rt += 1;
                            }
                        } else if within {
                            *wt += 1;
                            if !same(&sres, &tres, strict_errno) {
                                let txt = sealed.trace[mk.idx].text.clone();
                                let ttxt = twin.trace[mk.idx].text.clone();
                                cx.rep.fail(
                                    &format!("C18.{}.within", mk.op),
                                    &func,
                                    || sealed.witness(vec![("request", i(mk.idx as i64))]),
                                    format!("as without sealing (the request stays within the current size): {}", ttxt),
                                    txt,
                                );
                            }
                        } else {
                            all_within = false;
                        }
                    }
                    Kind::Alive => {
                        if sres.is_err() {
                            let txt = sealed.trace[mk.idx].text.clone();
                            cx.rep.fail(
                                &format!("C18.{}.handle_alive", mk.op),
                                &func,
                                || sealed.witness(vec![("request", i(mk.idx as i64))]),
                                "the handle is still usable after the preceding request (refused or not): getattr through the handle succeeds".to_string(),
                                txt,
                            );
                        }
                    }
                    Kind::Probe => {
                        if !same(&sres, &tres, true) {
                            // which request came before? a refused one -> the handle was damaged
                            let prev_refused = sealed.trace[..mk.idx].iter().rev().find(|t| t.op == mk.op || t.op == "write" || t.op == "fallocate").map_or(false, |t| t.res.is_err());
                            let txt = sealed.trace[mk.idx].text.clone();
                            let ttxt = twin.trace[mk.idx].text.clone();
                            cx.rep.fail(
                                &format!("C18.{}.{}", mk.op, if prev_refused { "handle_alive" } else { "within" }),
                                &func,
                                || sealed.witness(vec![("request", i(mk.idx as i64))]),
                                format!("a write inside the current size on the same handle behaves as without sealing: {}", ttxt),
                                txt,
                            );
                        }
                    }
                }
            }
            // (3) same content when everything stayed within the size
            if all_within && !marks.is_empty() {
                for name in ["f", "g"] {
                    let a = std::fs::read(sealed.path(name)).unwrap_or_default();
                    let b = std::fs::read(twin.path(name)).unwrap_or_default();
                    if a != b {
                        cx.rep.fail(
                            &format!("C18.{}.within", c.op()),
                            &func,
                            || sealed.witness(vec![("file", s(name))]),
                            format!("content of {} as on the unsealed twin: {}", name, show_bytes(&b)),
                            show_bytes(&a),
                        );
                    }
                }
            }
            if sealed.poisoned {
                std::mem::forget(sealed);
            }
            if twin.poisoned {
                std::mem::forget(twin);
            }
        });
    }
    cx.rep.notes.push(format!(
        "C18 control (sealing off): {} of the enumerated requests change a file size on the unsealed twin ({} of them were refused by the sealed export); {} requests stayed within the size and were compared with the twin",
        twin_changed_total, refused_total, within_total
    ));
}
