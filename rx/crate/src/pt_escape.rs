//! C06 - nothing outside the exported directory is reachable; names are single components.
//!
//! Layout: `<scenario>/export` is exported, `<scenario>/outside/{sentinel,victim}` must never be
//! read, created in, modified or deleted. The export holds symlinks to `../outside/sentinel`,
//! `/etc/passwd` (only ever looked up / opened read-only: the harness never issues a mutating
//! request through it), `../outside` (directory), a dangling `../outside/newfile`.
//! Oracle [S] (`C06.escape.<op>`):
//!  * a name containing '/' is refused by lookup, and "."/".."/names with '/' are refused by every
//!    operation that creates, removes, renames or links a name, with EINVAL (the value
//!    `validate_path_component` documents) and the whole scenario tree is unchanged;
//!  * lookup of ".." at the root is the root; "." / ".." inside stay inside;
//!  * a symlink is looked up as a symlink (S_IFLNK, the link's own st_ino), cannot be opened,
//!    listed, truncated or used as a parent; no request changes `outside/` (content, mode, mtime,
//!    link count) and no reply carries attributes (st_dev, st_ino) or data of an outside object.
use fuse_backend_rs::abi::fuse_abi::SetattrValid;

use crate::json::s;
use crate::pt::*;

const SENTINEL: &[u8] = b"SENTINEL-CONTENT";
const VICTIM: &[u8] = b"VICTIM-CONTENT";

fn nodes() -> Vec<Node> {
    vec![
        dir("outside"),
        file("outside/sentinel", SENTINEL),
        file("outside/victim", VICTIM),
        file("export/f", b"inside"),
        dir("export/sub"),
        file("export/sub/g", b"g"),
        sym("export/esc_file", "../outside/sentinel"),
        sym("export/esc_abs", "/etc/passwd"),
        sym("export/esc_dir", "../outside"),
        sym("export/dangling", "../outside/newfile"),
        sym("export/sub/esc_up", "../../outside/sentinel"),
    ]
}

/// "@ABS@" is replaced by the absolute path of the scenario directory. Absolute paths of real
/// system objects ("/", "/etc/passwd") are only ever LOOKED UP: were the name check missing, a
/// mutating request with such a name would damage the sandbox itself.
const BAD: [&str; 11] = ["a/b", "sub/g", "@ABS@/outside/victim", "@ABS@/outside/new", "../outside/new", "sub/../../outside/new", "../outside/sentinel", "../outside/victim", ".", "..", "../outside"];
const LOOKUP_ONLY: [&str; 3] = ["/", "/etc/passwd", "//"];

fn configs() -> Vec<Cfg> {
    vec![Cfg::default(), Cfg { ifh: true, ..Default::default() }, Cfg { no_open: true, no_opendir: true, ..Default::default() }]
}

fn arm(w: &mut World) {
    for p in [w.top.clone(), w.top.join("outside"), w.top.join("outside/sentinel"), w.top.join("outside/victim"), "/etc/passwd".into(), "/".into(), "/etc".into(), std::env::temp_dir()] {
        if let Some(id) = host_id(&p) {
            w.forbidden.insert(id);
        }
    }
    if let Some(parent) = w.top.parent() {
        if let Some(id) = host_id(parent) {
            w.forbidden.insert(id);
        }
    }
    w.forbidden_data = vec![SENTINEL.to_vec(), VICTIM.to_vec(), b"root:x:0:0".to_vec()];
}

struct Guard {
    outside: std::collections::BTreeMap<String, String>,
    whole: std::collections::BTreeMap<String, String>,
}

impl Guard {
    fn new(w: &World) -> Guard {
        Guard { outside: snapshot(&w.top.join("outside"), true), whole: snapshot(&w.top, false) }
    }
    /// outside/ untouched and nothing leaked? (reports and returns false otherwise)
    fn outside_ok(&self, w: &World, cx: &mut Cx, op: &str, label: &str) -> bool {
        let now = snapshot(&w.top.join("outside"), true);
        let d = snapshot_diff(&self.outside, &now);
        if !d.is_empty() {
            let t = w.trace[w.last()].text.clone();
            cx.rep.fail(&format!("C06.escape.{}", op), &format!("PassthroughFs::{}", op), || w.witness(vec![("scenario", s(label))]), "outside/ (next to the exported directory) is never created in, modified or deleted from".to_string(), format!("after {}: {}", t, d.join("; ")));
            return false;
        }
        if let Some(l) = w.leaks.first() {
            cx.rep.fail(&format!("C06.escape.{}", op), &format!("PassthroughFs::{}", op), || w.witness(vec![("scenario", s(label))]), "no reply carries attributes or data of an object outside the export".to_string(), l.clone());
            return false;
        }
        true
    }
    fn whole_ok(&self, w: &World, cx: &mut Cx, op: &str, label: &str) -> bool {
        let now = snapshot(&w.top, false);
        let d = snapshot_diff(&self.whole, &now);
        if !d.is_empty() {
            let t = w.trace[w.last()].text.clone();
            cx.rep.fail(&format!("C06.escape.{}", op), &format!("PassthroughFs::{}", op), || w.witness(vec![("scenario", s(label))]), "a refused name changes nothing, inside or outside the export".to_string(), format!("after {}: {}", t, d.join("; ")));
            return false;
        }
        true
    }
}

/// every name-taking operation with a hostile name under `parent_name`
fn bad_names(cx: &mut Cx, cfg: Cfg, bad: &str, in_sub: bool, label: &str) {
    let Some(mut w) = cx.world(&nodes(), cfg) else { return };
    arm(&mut w);
    let bad_owned = bad.replace("@ABS@", &w.top.to_string_lossy());
    let bad = bad_owned.as_str();
    let g = Guard::new(&w);
    let parent = if in_sub {
        match w.lookup(ROOT, "sub") {
            Ok(e) => e.inode,
            Err(_) => return,
        }
    } else {
        ROOT
    };
    let f_ino = w.lookup(ROOT, "f").map(|e| e.inode).unwrap_or(u64::MAX);
    let mut judge = |w: &mut World, cx: &mut Cx, op: &'static str, r: Result<(), i32>| -> bool {
        if r != Err(libc::EINVAL) {
            let t = w.trace[w.last()].text.clone();
            cx.rep.fail(&format!("C06.escape.{}", op), &format!("PassthroughFs::{}", op), || w.witness(vec![("scenario", s(label))]), format!("{} with a name that is not a single component (or is \".\" / \"..\") is refused with EINVAL before anything is touched", op), t);
            return false;
        }
        g.whole_ok(w, cx, op, label) && g.outside_ok(w, cx, op, label)
    };
    let has_slash = bad.contains('/');
    'ops: {
        if has_slash {
            let r = w.lookup(parent, bad).map(|_| ());
            if !judge(&mut w, cx, "lookup", r) {
                break 'ops;
            }
            for name in LOOKUP_ONLY {
                let r = w.lookup(parent, name).map(|_| ());
                if !judge(&mut w, cx, "lookup", r) {
                    break 'ops;
                }
            }
        }
        let r = w.create(parent, bad, libc::O_CREAT | libc::O_WRONLY | libc::O_TRUNC, 0o644).map(|_| ());
        if !judge(&mut w, cx, "create", r) {
            break 'ops;
        }
        let r = w.mkdir(parent, bad, 0o755).map(|_| ());
        if !judge(&mut w, cx, "mkdir", r) {
            break 'ops;
        }
        let r = w.mknod(parent, bad, libc::S_IFREG | 0o644).map(|_| ());
        if !judge(&mut w, cx, "mknod", r) {
            break 'ops;
        }
        let r = w.symlink("anything", parent, bad).map(|_| ());
        if !judge(&mut w, cx, "symlink", r) {
            break 'ops;
        }
        let r = w.link(f_ino, parent, bad).map(|_| ());
        if !judge(&mut w, cx, "link", r) {
            break 'ops;
        }
        let r = w.rename(ROOT, "f", parent, bad);
        if !judge(&mut w, cx, "rename", r) {
            break 'ops;
        }
        let r = w.rename(parent, bad, ROOT, "moved-in");
        if !judge(&mut w, cx, "rename", r) {
            break 'ops;
        }
        let r = w.unlink(parent, bad);
        if !judge(&mut w, cx, "unlink", r) {
            break 'ops;
        }
        let r = w.rmdir(parent, bad);
        if !judge(&mut w, cx, "rmdir", r) {
            break 'ops;
        }
    }
    cx.account(&w, label);
}

fn dots(cx: &mut Cx, cfg: Cfg, label: &str) {
    let Some(mut w) = cx.world(&nodes(), cfg) else { return };
    arm(&mut w);
    let g = Guard::new(&w);
    let root_id = host_id(&w.root);
    let sub = w.lookup(ROOT, "sub").map(|e| e.inode).unwrap_or(u64::MAX);
    let sub_id = host_id(&w.path("sub"));
    let mut probe = |w: &mut World, cx: &mut Cx, parent: u64, name: &str, want_ino: u64, want_host: Option<(u64, u64)>| {
        let r = w.lookup(parent, name);
        let ok = match &r {
            Ok(e) => e.inode == want_ino && Some((e.attr.st_dev, e.attr.st_ino)) == want_host,
            Err(_) => false,
        };
        if !ok {
            let t = w.trace[w.last()].text.clone();
            cx.rep.fail("C06.escape.lookup", "PassthroughFs::lookup", || w.witness(vec![("scenario", s(label))]), format!("lookup({}, {:?}) resolves to inode {} (host {:?}): \"..\" at the root is the root, dots never leave the export", parent, name, want_ino, want_host), t);
        }
        g.outside_ok(w, cx, "lookup", label);
    };
    probe(&mut w, cx, ROOT, "..", ROOT, root_id);
    probe(&mut w, cx, ROOT, ".", ROOT, root_id);
    probe(&mut w, cx, sub, "..", ROOT, root_id);
    probe(&mut w, cx, sub, ".", sub, sub_id);
    // a directory in use is renamed: its ".." is still inside
    let _ = w.rename(ROOT, "sub", ROOT, "sub-renamed");
    probe(&mut w, cx, sub, "..", ROOT, root_id);
    let r = w.lookup(sub, "g");
    if r.is_err() {
        let t = w.trace[w.last()].text.clone();
        cx.rep.fail("C06.escape.rename", "PassthroughFs::rename", || w.witness(vec![("scenario", s(label))]), "a looked-up directory keeps working after it was renamed".to_string(), t);
    }
    // hard link inside the export
    if let Ok(f) = w.lookup(ROOT, "f") {
        let _ = w.link(f.inode, sub, "hl");
        g.outside_ok(&w, cx, "link", label);
    }
    cx.account(&w, label);
}

/// requests on the inode of a symlink that points outside
fn through_symlink(cx: &mut Cx, cfg: Cfg, parent_name: Option<&str>, link: &str, label: &str) {
    let Some(mut w) = cx.world(&nodes(), cfg) else { return };
    arm(&mut w);
    let g = Guard::new(&w);
    let harmless_only = link == "esc_abs"; // never a mutating request towards /etc/passwd
    let parent = match parent_name {
        Some(p) => match w.lookup(ROOT, p) {
            Ok(e) => e.inode,
            Err(_) => return,
        },
        None => ROOT,
    };
    let rel = match parent_name {
        Some(p) => format!("{}/{}", p, link),
        None => link.to_string(),
    };
    let link_id = host_id(&w.path(&rel));
    let f_ino = w.lookup(ROOT, "f").map(|e| e.inode).unwrap_or(u64::MAX);
    let e = w.lookup(parent, link);
    let ino = match &e {
        Ok(e) if e.attr.st_mode & libc::S_IFMT == libc::S_IFLNK && Some((e.attr.st_dev, e.attr.st_ino)) == link_id => e.inode,
        _ => {
            let t = w.trace[w.last()].text.clone();
            cx.rep.fail("C06.escape.lookup", "PassthroughFs::lookup", || w.witness(vec![("scenario", s(label))]), format!("the symlink {} is looked up as itself: S_IFLNK, host {:?} (symlinks are never followed)", rel, link_id), t);
            cx.account(&w, label);
            return;
        }
    };
    let mut must_fail = |w: &mut World, cx: &mut Cx, op: &'static str, failed: bool, what: &str| -> bool {
        if !failed {
            let t = w.trace[w.last()].text.clone();
            cx.rep.fail(&format!("C06.escape.{}", op), &format!("PassthroughFs::{}", op), || w.witness(vec![("scenario", s(label))]), format!("{} on the inode of the symlink {} fails: {}", op, rel, what), t);
            return false;
        }
        g.outside_ok(w, cx, op, label)
    };
    'ops: {
        let mut flagsets = vec![libc::O_RDONLY, libc::O_RDONLY | libc::O_DIRECTORY];
        if !harmless_only {
            flagsets.extend([libc::O_WRONLY, libc::O_RDWR | libc::O_TRUNC, libc::O_WRONLY | libc::O_APPEND]);
        }
        for fl in flagsets {
            let r = w.open(ino, fl);
            let failed = r.is_err();
            if let Ok(h) = r {
                let _ = w.read(ino, h, 64, 0, fl);
                let _ = w.release(ino, h);
            }
            if !must_fail(&mut w, cx, "open", failed, "a symlink is never opened for I/O") {
                break 'ops;
            }
        }
        // I/O without a handle (what a no_open client sends); with open support handle 0 is stale anyway
        let r = w.read(ino, 0, 64, 0, libc::O_RDONLY);
        if !must_fail(&mut w, cx, "read", r.is_err(), "there is nothing to read through a symlink") {
            break 'ops;
        }
        let r = w.opendir(ino);
        let failed = r.is_err();
        if let Ok(h) = r {
            let _ = w.readdir(ino, h, 4096, 0, usize::MAX, true);
            let _ = w.releasedir(ino, h);
        }
        if !must_fail(&mut w, cx, "opendir", failed, "a symlink to a directory is not a directory") {
            break 'ops;
        }
        let r = w.readdir(ino, 0, 4096, 0, usize::MAX, false);
        if !must_fail(&mut w, cx, "readdir", r.is_err(), "a symlink cannot be listed") {
            break 'ops;
        }
        let r = w.readdir(ino, 0, 4096, 0, usize::MAX, true);
        if !must_fail(&mut w, cx, "readdirplus", r.is_err(), "a symlink cannot be listed") {
            break 'ops;
        }
        for name in ["sentinel", "victim", "."] {
            let r = w.lookup(ino, name);
            if !must_fail(&mut w, cx, "lookup", r.is_err(), "a symlink is not a parent directory") {
                break 'ops;
            }
        }
        let _ = w.getattr(ino, None);
        let _ = w.readlink(ino);
        if !g.outside_ok(&w, cx, "getattr", label) {
            break 'ops;
        }
        if harmless_only {
            break 'ops;
        }
        let r = w.write(ino, 0, b"HACKED", 0, libc::O_WRONLY);
        if !must_fail(&mut w, cx, "write", r.is_err(), "nothing is written through a symlink") {
            break 'ops;
        }
        let r = w.setattr(ino, None, SetattrValid::SIZE, 0, 0);
        if !must_fail(&mut w, cx, "setattr", r.is_err(), "the target of a symlink is never truncated") {
            break 'ops;
        }
        let r = w.fallocate(ino, 0, 0, 0, 100);
        if !must_fail(&mut w, cx, "fallocate", r.is_err(), "nothing is allocated through a symlink") {
            break 'ops;
        }
        // attribute changes may succeed or not, but only ever on the link itself
        let _ = w.setattr(ino, None, SetattrValid::MODE, 0, 0o600);
        if !g.outside_ok(&w, cx, "setattr", label) {
            break 'ops;
        }
        let _ = w.setattr(ino, None, SetattrValid::UID | SetattrValid::GID, 0, 0);
        if !g.outside_ok(&w, cx, "setattr", label) {
            break 'ops;
        }
        let _ = w.setattr(ino, None, SetattrValid::MTIME | SetattrValid::ATIME, 0, 0);
        if !g.outside_ok(&w, cx, "setattr", label) {
            break 'ops;
        }
        // the symlink as parent directory
        let r = w.create(ino, "new", libc::O_CREAT | libc::O_WRONLY, 0o644);
        if !must_fail(&mut w, cx, "create", r.is_err(), "a symlink is not a parent directory") {
            break 'ops;
        }
        let r = w.mkdir(ino, "newdir", 0o755);
        if !must_fail(&mut w, cx, "mkdir", r.is_err(), "a symlink is not a parent directory") {
            break 'ops;
        }
        let r = w.symlink("x", ino, "news");
        if !must_fail(&mut w, cx, "symlink", r.is_err(), "a symlink is not a parent directory") {
            break 'ops;
        }
        let r = w.link(f_ino, ino, "newhl");
        if !must_fail(&mut w, cx, "link", r.is_err(), "a symlink is not a parent directory") {
            break 'ops;
        }
        let r = w.unlink(ino, "victim");
        if !must_fail(&mut w, cx, "unlink", r.is_err(), "a symlink is not a parent directory") {
            break 'ops;
        }
        let r = w.rename(ROOT, "f", ino, "moved-out");
        if !must_fail(&mut w, cx, "rename", r.is_err(), "a symlink is not a parent directory") {
            break 'ops;
        }
        let r = w.rename(ino, "victim", ROOT, "moved-in");
        if !must_fail(&mut w, cx, "rename", r.is_err(), "a symlink is not a parent directory") {
            break 'ops;
        }
        // operations on the NAME of the link act on the link
        let _ = w.create(parent, link, libc::O_CREAT | libc::O_WRONLY | libc::O_TRUNC, 0o644);
        if !g.outside_ok(&w, cx, "create", label) {
            break 'ops;
        }
        let _ = w.create(parent, link, libc::O_CREAT | libc::O_EXCL | libc::O_WRONLY, 0o644);
        if !g.outside_ok(&w, cx, "create", label) {
            break 'ops;
        }
        let _ = w.mkdir(parent, link, 0o755);
        if !g.outside_ok(&w, cx, "mkdir", label) {
            break 'ops;
        }
        let _ = w.link(ino, ROOT, "hl-of-link");
        if !g.outside_ok(&w, cx, "link", label) {
            break 'ops;
        }
        let _ = w.rmdir(parent, link);
        if !g.outside_ok(&w, cx, "rmdir", label) {
            break 'ops;
        }
        let _ = w.rename(parent, link, ROOT, "renamed-link");
        if !g.outside_ok(&w, cx, "rename", label) {
            break 'ops;
        }
        let _ = w.unlink(ROOT, "renamed-link");
        if !g.outside_ok(&w, cx, "unlink", label) {
            break 'ops;
        }
        let _ = w.getattr(ino, None);
        g.outside_ok(&w, cx, "getattr", label);
    }
    cx.account(&w, label);
}

/// symlinks made through the file system + a full readdirplus of the export
fn made_links(cx: &mut Cx, cfg: Cfg, label: &str) {
    let Some(mut w) = cx.world(&nodes(), cfg) else { return };
    arm(&mut w);
    let g = Guard::new(&w);
    for (target, name, harmless) in [("../outside/sentinel", "made", false), ("/etc/passwd", "made-abs", true), ("../outside", "made-dir", false), ("../outside/created-by-link", "made-dangling", false)] {
        let r = w.symlink(target, ROOT, name);
        match r {
            Ok(e) if e.attr.st_mode & libc::S_IFMT == libc::S_IFLNK => {
                let r = w.open(e.inode, libc::O_RDONLY);
                if let Ok(h) = r {
                    let _ = w.read(e.inode, h, 64, 0, libc::O_RDONLY);
                    let t = w.trace[w.last() - 1].text.clone();
                    cx.rep.fail("C06.escape.open", "PassthroughFs::open", || w.witness(vec![("scenario", s(label))]), "a symlink created through the file system is never opened".to_string(), t);
                }
                if !harmless {
                    let _ = w.create(ROOT, name, libc::O_CREAT | libc::O_WRONLY | libc::O_TRUNC, 0o644);
                    let _ = w.setattr(e.inode, None, SetattrValid::SIZE, 0, 0);
                }
            }
            _ => {
                let t = w.trace[w.last()].text.clone();
                cx.rep.fail("C06.escape.symlink", "PassthroughFs::symlink", || w.witness(vec![("scenario", s(label))]), "symlink() creates the link and returns it as S_IFLNK".to_string(), t);
            }
        }
        if !g.outside_ok(&w, cx, "symlink", label) {
            cx.account(&w, label);
            return;
        }
    }
    let h = if w.eff_no_opendir { Some(0) } else { w.opendir(ROOT).ok() };
    if let Some(h) = h {
        let _ = w.readdir(ROOT, h, 8192, 0, usize::MAX, true);
        g.outside_ok(&w, cx, "readdirplus", label);
    }
    cx.account(&w, label);
}

pub fn run(cx: &mut Cx) {
    #[derive(Clone)]
    enum Sc {
        Bad(Cfg, &'static str, bool),
        Dots(Cfg),
        Link(Cfg, Option<&'static str>, &'static str),
        Made(Cfg),
    }
    let mut v = Vec::new();
    for cfg in configs() {
        for b in BAD {
            v.push(Sc::Bad(cfg, b, false));
            v.push(Sc::Bad(cfg, b, true));
        }
        v.push(Sc::Dots(cfg));
        for l in ["esc_file", "esc_abs", "esc_dir", "dangling"] {
            v.push(Sc::Link(cfg, None, l));
        }
        v.push(Sc::Link(cfg, Some("sub"), "esc_up"));
        v.push(Sc::Made(cfg));
    }
    for sc in seeded(v, cx.opts) {
        match sc {
            Sc::Bad(cfg, b, in_sub) => {
                let label = format!("C06 hostile name {:?} parent={} no_open={} inode_file_handles={}", b, if in_sub { "sub" } else { "root" }, cfg.no_open, cfg.ifh);
                cx.scenario(&label, |cx| bad_names(cx, cfg, b, in_sub, &label));
            }
            Sc::Dots(cfg) => {
                let label = format!("C06 dots and renames no_open={} inode_file_handles={}", cfg.no_open, cfg.ifh);
                cx.scenario(&label, |cx| dots(cx, cfg, &label));
            }
            Sc::Link(cfg, p, l) => {
                let label = format!("C06 symlink {}{} no_open={} inode_file_handles={}", p.map(|x| format!("{}/", x)).unwrap_or_default(), l, cfg.no_open, cfg.ifh);
                cx.scenario(&label, |cx| through_symlink(cx, cfg, p, l, &label));
            }
            Sc::Made(cfg) => {
                let label = format!("C06 symlinks made through the file system no_open={} inode_file_handles={}", cfg.no_open, cfg.ifh);
                cx.scenario(&label, |cx| made_links(cx, cfg, &label));
            }
        }
    }
}
