//! FUSE wire format, written from the kernel header /usr/include/linux/fuse.h
//! (protocol 7.38) - NOT from the library's `abi` module. Request builders and reply
//! layouts. Everything is little endian (x86_64 / aarch64 hosts).
//!
//! Two places where the header of a newer kernel is followed instead of the installed one,
//! because the library's public API exposes the newer field:
//!   * fuse_open_out.padding is `backing_id` since 7.40 (API: the `Option<u32>` "passthrough"
//!     value returned by open/create);
//!   * fuse_setxattr_in is used in its 8 byte form (FUSE_COMPAT_SETXATTR_IN_SIZE): the 16 byte
//!     form is only sent after FUSE_SETXATTR_EXT was negotiated, which the library never does.

pub const IN_HEADER: usize = 40; // struct fuse_in_header
pub const OUT_HEADER: usize = 16; // struct fuse_out_header
pub const ATTR: usize = 88; // struct fuse_attr
pub const ENTRY_OUT: usize = 40 + ATTR; // struct fuse_entry_out
pub const ATTR_OUT: usize = 16 + ATTR; // struct fuse_attr_out
pub const OPEN_OUT: usize = 16;
pub const DIRENT: usize = 24; // offsetof(struct fuse_dirent, name)
pub const INIT_IN_LEGACY: usize = 16; // major, minor, max_readahead, flags
pub const INIT_IN_EXT_TAIL: usize = 48; // flags2 + unused[11]

/// enum fuse_opcode
pub mod op {
    pub const LOOKUP: u32 = 1;
    pub const FORGET: u32 = 2;
    pub const GETATTR: u32 = 3;
    pub const SETATTR: u32 = 4;
    pub const READLINK: u32 = 5;
    pub const SYMLINK: u32 = 6;
    pub const MKNOD: u32 = 8;
    pub const MKDIR: u32 = 9;
    pub const UNLINK: u32 = 10;
    pub const RMDIR: u32 = 11;
    pub const RENAME: u32 = 12;
    pub const LINK: u32 = 13;
    pub const OPEN: u32 = 14;
    pub const READ: u32 = 15;
    pub const WRITE: u32 = 16;
    pub const STATFS: u32 = 17;
    pub const RELEASE: u32 = 18;
    pub const FSYNC: u32 = 20;
    pub const SETXATTR: u32 = 21;
    pub const GETXATTR: u32 = 22;
    pub const LISTXATTR: u32 = 23;
    pub const REMOVEXATTR: u32 = 24;
    pub const FLUSH: u32 = 25;
    pub const INIT: u32 = 26;
    pub const OPENDIR: u32 = 27;
    pub const READDIR: u32 = 28;
    pub const RELEASEDIR: u32 = 29;
    pub const FSYNCDIR: u32 = 30;
    pub const GETLK: u32 = 31;
    pub const SETLK: u32 = 32;
    pub const SETLKW: u32 = 33;
    pub const ACCESS: u32 = 34;
    pub const CREATE: u32 = 35;
    pub const INTERRUPT: u32 = 36;
    pub const BMAP: u32 = 37;
    pub const DESTROY: u32 = 38;
    pub const IOCTL: u32 = 39;
    pub const POLL: u32 = 40;
    pub const NOTIFY_REPLY: u32 = 41;
    pub const BATCH_FORGET: u32 = 42;
    pub const FALLOCATE: u32 = 43;
    pub const READDIRPLUS: u32 = 44;
    pub const RENAME2: u32 = 45;
    pub const LSEEK: u32 = 46;
}

// flag bits that select optional arguments (fuse.h)
pub const FUSE_GETATTR_FH: u32 = 1 << 0;
pub const FATTR_FH: u32 = 1 << 6;
pub const FUSE_READ_LOCKOWNER: u32 = 1 << 1;
pub const FUSE_WRITE_CACHE: u32 = 1 << 0;
pub const FUSE_WRITE_LOCKOWNER: u32 = 1 << 1;
pub const FUSE_RELEASE_FLUSH: u32 = 1 << 0;
pub const FUSE_RELEASE_FLOCK_UNLOCK: u32 = 1 << 1;
pub const FUSE_FSYNC_FDATASYNC: u32 = 1 << 0;
/// RENAME_NOREPLACE | RENAME_EXCHANGE | RENAME_WHITEOUT (linux/fs.h): the defined rename2 flags
pub const RENAME2_DEFINED: u32 = 7;
pub const FUSE_INIT_EXT: u32 = 1 << 30;
/// FUSE_HAS_INODE_DAX is bit 33, i.e. bit 1 of flags2
pub const FUSE_HAS_INODE_DAX_64: u64 = 1 << 33;
pub const FUSE_ASYNC_READ: u32 = 1 << 0;
pub const FUSE_BIG_WRITES: u32 = 1 << 5;
pub const FUSE_MAX_PAGES: u32 = 1 << 22;

#[derive(Default, Clone)]
pub struct Buf(pub Vec<u8>);

impl Buf {
    pub fn new() -> Buf {
        Buf(Vec::new())
    }
    pub fn u16(&mut self, v: u16) -> &mut Buf {
        self.0.extend_from_slice(&v.to_le_bytes());
        self
    }
    pub fn u32(&mut self, v: u32) -> &mut Buf {
        self.0.extend_from_slice(&v.to_le_bytes());
        self
    }
    pub fn u64(&mut self, v: u64) -> &mut Buf {
        self.0.extend_from_slice(&v.to_le_bytes());
        self
    }
    pub fn bytes(&mut self, v: &[u8]) -> &mut Buf {
        self.0.extend_from_slice(v);
        self
    }
}

#[derive(Clone, Copy, Debug)]
pub struct InHeader {
    pub len: u32,
    pub opcode: u32,
    pub unique: u64,
    pub nodeid: u64,
    pub uid: u32,
    pub gid: u32,
    pub pid: u32,
}

/// struct fuse_in_header (total_extlen / padding = 0) followed by `body`
pub fn request(h: &InHeader, body: &[u8]) -> Vec<u8> {
    let mut b = Buf::new();
    b.u32(h.len).u32(h.opcode).u64(h.unique).u64(h.nodeid).u32(h.uid).u32(h.gid).u32(h.pid).u16(0).u16(0);
    b.bytes(body);
    b.0
}

pub fn rd16(b: &[u8], off: usize) -> u16 {
    u16::from_le_bytes([b[off], b[off + 1]])
}
pub fn rd32(b: &[u8], off: usize) -> u32 {
    u32::from_le_bytes([b[off], b[off + 1], b[off + 2], b[off + 3]])
}
pub fn rd64(b: &[u8], off: usize) -> u64 {
    let mut x = [0u8; 8];
    x.copy_from_slice(&b[off..off + 8]);
    u64::from_le_bytes(x)
}

/// struct fuse_out_header
#[derive(Clone, Copy, Debug)]
pub struct OutHeader {
    pub len: u32,
    pub error: i32,
    pub unique: u64,
}

pub fn out_header(msg: &[u8]) -> Option<OutHeader> {
    if msg.len() < OUT_HEADER {
        return None;
    }
    Some(OutHeader { len: rd32(msg, 0), error: rd32(msg, 4) as i32, unique: rd64(msg, 8) })
}

// --------------------------------------------------------------------------------------
// reply layouts
// --------------------------------------------------------------------------------------

#[derive(Clone, Debug)]
pub enum Val {
    U(usize, u64),
    B(Vec<u8>),
}

#[derive(Clone, Debug)]
pub struct Field {
    pub name: String,
    pub off: usize,
    pub val: Val,
}

/// The expected content of a reply payload: total size plus the meaningful fields at the
/// offsets the kernel reads them from. Padding / dummy / spare fields are not listed and
/// therefore not compared.
#[derive(Clone, Debug, Default)]
pub struct Layout {
    pub what: String,
    pub size: usize,
    pub fields: Vec<Field>,
}

impl Layout {
    pub fn new(what: &str) -> Layout {
        Layout { what: what.to_string(), size: 0, fields: Vec::new() }
    }
    fn put(&mut self, name: &str, size: usize, v: u64) {
        self.fields.push(Field { name: format!("{}.{}", self.what, name), off: self.size, val: Val::U(size, v) });
        self.size += size;
    }
    pub fn u64(mut self, name: &str, v: u64) -> Layout {
        self.put(name, 8, v);
        self
    }
    pub fn u32(mut self, name: &str, v: u32) -> Layout {
        self.put(name, 4, v as u64);
        self
    }
    pub fn u16(mut self, name: &str, v: u16) -> Layout {
        self.put(name, 2, v as u64);
        self
    }
    /// bytes the kernel does not interpret (padding, dummy, unused, spare)
    pub fn skip(mut self, size: usize) -> Layout {
        self.size += size;
        self
    }
    pub fn raw(mut self, name: &str, b: &[u8]) -> Layout {
        self.fields.push(Field { name: format!("{}.{}", self.what, name), off: self.size, val: Val::B(b.to_vec()) });
        self.size += b.len();
        self
    }
    /// `other` placed directly behind `self`
    pub fn then(mut self, other: Layout) -> Layout {
        let base = self.size;
        for mut f in other.fields {
            f.off += base;
            self.fields.push(f);
        }
        self.size += other.size;
        if self.what.is_empty() {
            self.what = other.what;
        }
        self
    }

    /// first difference between `payload` and this layout, as (field, expected, observed)
    pub fn diff(&self, payload: &[u8]) -> Option<(String, String, String)> {
        if payload.len() != self.size {
            return Some((
                format!("{} payload length", self.what),
                format!("{} bytes", self.size),
                format!("{} bytes", payload.len()),
            ));
        }
        for f in &self.fields {
            match &f.val {
                Val::U(size, v) => {
                    let got = match size {
                        2 => rd16(payload, f.off) as u64,
                        4 => rd32(payload, f.off) as u64,
                        _ => rd64(payload, f.off),
                    };
                    if got != *v {
                        return Some((
                            format!("{} (offset {})", f.name, f.off),
                            format!("{:#x}", v),
                            format!("{:#x}", got),
                        ));
                    }
                }
                Val::B(b) => {
                    let got = &payload[f.off..f.off + b.len()];
                    if got != &b[..] {
                        return Some((
                            format!("{} (offset {}, {} bytes)", f.name, f.off, b.len()),
                            crate::report::hexdump(b),
                            crate::report::hexdump(got),
                        ));
                    }
                }
            }
        }
        None
    }
}

/// values of a struct fuse_attr
#[derive(Clone, Copy, Debug, Default, PartialEq, Eq)]
pub struct AttrVals {
    pub ino: u64,
    pub size: u64,
    pub blocks: u64,
    pub atime: u64,
    pub mtime: u64,
    pub ctime: u64,
    pub atimensec: u32,
    pub mtimensec: u32,
    pub ctimensec: u32,
    pub mode: u32,
    pub nlink: u32,
    pub uid: u32,
    pub gid: u32,
    pub rdev: u32,
    pub blksize: u32,
    pub flags: u32,
}

/// struct fuse_attr; `flags` is only compared when `with_flags`
pub fn attr(a: &AttrVals, with_flags: bool) -> Layout {
    let l = Layout::new("fuse_attr")
        .u64("ino", a.ino)
        .u64("size", a.size)
        .u64("blocks", a.blocks)
        .u64("atime", a.atime)
        .u64("mtime", a.mtime)
        .u64("ctime", a.ctime)
        .u32("atimensec", a.atimensec)
        .u32("mtimensec", a.mtimensec)
        .u32("ctimensec", a.ctimensec)
        .u32("mode", a.mode)
        .u32("nlink", a.nlink)
        .u32("uid", a.uid)
        .u32("gid", a.gid)
        .u32("rdev", a.rdev)
        .u32("blksize", a.blksize);
    if with_flags {
        l.u32("flags", a.flags)
    } else {
        l.skip(4)
    }
}

/// values of a struct fuse_entry_out
#[derive(Clone, Copy, Debug, Default, PartialEq, Eq)]
pub struct EntryVals {
    pub nodeid: u64,
    pub generation: u64,
    pub entry_valid: u64,
    pub attr_valid: u64,
    pub entry_valid_nsec: u32,
    pub attr_valid_nsec: u32,
    pub attr: AttrVals,
}

pub fn entry_out(e: &EntryVals) -> Layout {
    Layout::new("fuse_entry_out")
        .u64("nodeid", e.nodeid)
        .u64("generation", e.generation)
        .u64("entry_valid", e.entry_valid)
        .u64("attr_valid", e.attr_valid)
        .u32("entry_valid_nsec", e.entry_valid_nsec)
        .u32("attr_valid_nsec", e.attr_valid_nsec)
        .then(attr(&e.attr, true))
}

/// struct fuse_attr_out (dummy not compared; attr.flags cannot be expressed through the
/// `(stat64, Duration)` the API returns, so it is not compared either)
pub fn attr_out(valid: u64, valid_nsec: u32, a: &AttrVals) -> Layout {
    Layout::new("fuse_attr_out").u64("attr_valid", valid).u32("attr_valid_nsec", valid_nsec).skip(4).then(attr(a, false))
}

/// struct fuse_open_out
pub fn open_out(fh: u64, open_flags: u32, backing_id: u32) -> Layout {
    Layout::new("fuse_open_out").u64("fh", fh).u32("open_flags", open_flags).u32("backing_id", backing_id)
}

/// struct fuse_write_out
pub fn write_out(size: u32) -> Layout {
    Layout::new("fuse_write_out").u32("size", size).skip(4)
}

#[derive(Clone, Copy, Debug, Default)]
pub struct StatfsVals {
    pub blocks: u64,
    pub bfree: u64,
    pub bavail: u64,
    pub files: u64,
    pub ffree: u64,
    pub bsize: u32,
    pub namelen: u32,
    pub frsize: u32,
}

/// struct fuse_statfs_out { struct fuse_kstatfs st; }
pub fn statfs_out(v: &StatfsVals) -> Layout {
    Layout::new("fuse_kstatfs")
        .u64("blocks", v.blocks)
        .u64("bfree", v.bfree)
        .u64("bavail", v.bavail)
        .u64("files", v.files)
        .u64("ffree", v.ffree)
        .u32("bsize", v.bsize)
        .u32("namelen", v.namelen)
        .u32("frsize", v.frsize)
        .skip(4 + 6 * 4)
}

/// struct fuse_getxattr_out
pub fn getxattr_out(size: u32) -> Layout {
    Layout::new("fuse_getxattr_out").u32("size", size).skip(4)
}

/// struct fuse_lk_out { struct fuse_file_lock lk; }
pub fn lk_out(start: u64, end: u64, typ: u32, pid: u32) -> Layout {
    Layout::new("fuse_lk_out.lk").u64("start", start).u64("end", end).u32("type", typ).u32("pid", pid)
}

pub fn bmap_out(block: u64) -> Layout {
    Layout::new("fuse_bmap_out").u64("block", block)
}

pub fn poll_out(revents: u32) -> Layout {
    Layout::new("fuse_poll_out").u32("revents", revents).skip(4)
}

pub fn lseek_out(offset: u64) -> Layout {
    Layout::new("fuse_lseek_out").u64("offset", offset)
}

/// struct fuse_ioctl_out followed by the output data; flags / in_iovs / out_iovs cannot be
/// expressed through the API (`IoctlData { result, data }`), the kernel requires them to be
/// zero for a plain (non-retry) reply
pub fn ioctl_out(result: i32, data: &[u8]) -> Layout {
    Layout::new("fuse_ioctl_out")
        .u32("result", result as u32)
        .u32("flags", 0)
        .u32("in_iovs", 0)
        .u32("out_iovs", 0)
        .raw("data", data)
}

pub fn data(what: &str, b: &[u8]) -> Layout {
    Layout::new(what).raw("bytes", b)
}

/// FUSE_REC_ALIGN
pub fn align8(x: usize) -> usize {
    (x + 7) & !7
}

/// one struct fuse_dirent incl. name and zero padding to 8 bytes
pub fn dirent(ino: u64, off: u64, typ: u32, name: &[u8]) -> Layout {
    let pad = align8(DIRENT + name.len()) - (DIRENT + name.len());
    Layout::new("fuse_dirent")
        .u64("ino", ino)
        .u64("off", off)
        .u32("namelen", name.len() as u32)
        .u32("type", typ)
        .raw("name", name)
        .raw("padding", &vec![0u8; pad])
}

/// one struct fuse_direntplus
pub fn direntplus(e: &EntryVals, ino: u64, off: u64, typ: u32, name: &[u8]) -> Layout {
    entry_out(e).then(dirent(ino, off, typ, name))
}

/// fields of struct fuse_init_out as far as present in a reply of `len` payload bytes
#[derive(Clone, Copy, Debug, Default)]
pub struct InitOut {
    pub major: u32,
    pub minor: u32,
    pub max_readahead: Option<u32>,
    pub flags: Option<u32>,
    pub max_write: Option<u32>,
    pub flags2: Option<u32>,
}

pub fn init_out(p: &[u8]) -> Option<InitOut> {
    if p.len() < 8 {
        return None;
    }
    let mut o = InitOut { major: rd32(p, 0), minor: rd32(p, 4), ..Default::default() };
    if p.len() >= 24 {
        o.max_readahead = Some(rd32(p, 8));
        o.flags = Some(rd32(p, 12));
        o.max_write = Some(rd32(p, 20));
    }
    if p.len() >= 64 {
        o.flags2 = Some(rd32(p, 32));
    }
    Some(o)
}
