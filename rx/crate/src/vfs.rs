//! Group `vfs` (C07, C14): mount / over-mount / umount histories on `Vfs` with recording
//! backends; after every step the namespace is walked and every request is compared with a
//! reference model of "which mount owns this inode" and "which id mapping applies".
//!
//! The model (from the property statements):
//!   * a mount table path -> mount instance; mounting on a mounted path replaces (kills) the
//!     previous instance, umount kills it; an inode number learned from a dead instance is
//!     stale: requests on it fail and reach no backend;
//!   * ROOT_ID is the root of the instance mounted on "/" if there is one, else the pseudo
//!     root; a pseudo directory exists for every ancestor of a live mount path; looking up
//!     the last component of a live mount path in its pseudo parent yields that mount's root;
//!   * effective mapping of an instance = its own mapping if given, else the global one;
//!     (internal, external, range): ids shown to the client are internal->external, ids shown
//!     to the backend are external->internal, ids outside the range pass unchanged.
use std::any::Any;
use std::collections::HashMap;
use std::ffi::{CStr, CString};
use std::io;
use std::sync::{Arc, Mutex};
use std::time::Duration;

use fuse_backend_rs::abi::fuse_abi::{stat64, SetattrValid, ROOT_ID};
use fuse_backend_rs::api::filesystem::{Context, DirEntry, Entry, FileSystem};
use fuse_backend_rs::api::{BackendFileSystem, Vfs, VfsOptions};

use crate::json::{arr, obj, s, J};
use crate::report::{guarded, hx, permute, Opts, Report};

pub const BOUND: &str = "Vfs with recording backends (own root inode numbers 1, 2, 7, ...; children f0, f1, d, d/x with owner ids from {0,5,6,65535,65536,70000}); \
every sequence of 1, 2 or 3 steps from {mount(path, per-mount mapping None|Some((0,200000,65536))), umount(path of a live mount)} with path in {\"/\", \"/a\", \"/a/b\"} (a mount on a mounted path is an over-mount) \
x global id_mapping in {none, (0,100000,65536), (0,1000,65536)}; after each step, for callers (uid,gid) in {(0,0),(100005,100006),(200005,200006),(1005,1006),(170000,71000)}: \
from ROOT_ID and every directory inode learned so far (pseudo directories, mount roots, sub-directory d, including inodes of unmounted / over-mounted instances): lookup of {a,b,f0,f1,d,x,nope}, getattr, readdir, readdirplus, setattr(uid,gid) of f0, mkdir; \
rename and link between every ordered pair of known directory inodes (first caller only); each request preceded by id_remap_with_nodeid as Server::handle_message does; \
at most 3 mounts per history, so no index wrap-around / slot reuse; Vfs not initialised (no INIT), no persist feature";

type Map = (u32, u32, u32);
const PER_MOUNT: Map = (0, 200000, 65536);
const GLOBALS: [Option<Map>; 3] = [None, Some((0, 100000, 65536)), Some((0, 1000, 65536))];
const PATHS: [&str; 3] = ["/", "/a", "/a/b"];
const CALLERS: [(u32, u32); 5] = [(0, 0), (100005, 100006), (200005, 200006), (1005, 1006), (170000, 71000)];
const ROOT_INOS: [u64; 3] = [1, 2, 7];

fn to_ext(m: Option<Map>, id: u32) -> u32 {
    match m {
        Some((int, ext, range)) if id >= int && id - int < range => id - int + ext,
        _ => id,
    }
}
fn to_int(m: Option<Map>, id: u32) -> u32 {
    match m {
        Some((int, ext, range)) if id >= ext && id - ext < range => id - ext + int,
        _ => id,
    }
}

// --------------------------------------------------------------------------------------
// backend
// --------------------------------------------------------------------------------------

#[derive(Clone, Debug)]
struct Node {
    ino: u64,
    parent: u64,
    name: &'static str,
    dir: bool,
    uid: u32,
    gid: u32,
}

fn tree(root: u64) -> Vec<Node> {
    let b = root * 16;
    vec![
        Node { ino: root, parent: 0, name: "", dir: true, uid: 5, gid: 0 },
        Node { ino: b + 1, parent: root, name: "f0", dir: false, uid: 0, gid: 5 },
        Node { ino: b + 2, parent: root, name: "f1", dir: false, uid: 65535, gid: 65536 },
        Node { ino: b + 3, parent: root, name: "d", dir: true, uid: 70000, gid: 6 },
        Node { ino: b + 4, parent: b + 3, name: "x", dir: false, uid: 5, gid: 5 },
    ]
}
const NEW_INO_OFF: u64 = 9;

#[derive(Clone, Debug)]
struct BCall {
    inst: usize,
    op: &'static str,
    uid: u32,
    gid: u32,
    inos: Vec<u64>,
    name: String,
    set: Option<(u32, u32)>,
}

impl BCall {
    fn show(&self) -> String {
        format!(
            "backend#{}.{}(ctx uid={} gid={}, inodes={:?}{}{})",
            self.inst,
            self.op,
            self.uid,
            self.gid,
            self.inos,
            if self.name.is_empty() { String::new() } else { format!(", name={:?}", self.name) },
            self.set.map(|(u, g)| format!(", set uid={u} gid={g}")).unwrap_or_default()
        )
    }
}

type Log = Arc<Mutex<Vec<BCall>>>;

struct Backend {
    inst: usize,
    root: u64,
    nodes: Vec<Node>,
    log: Log,
}

impl Backend {
    fn rec(&self, op: &'static str, ctx: &Context, inos: Vec<u64>, name: &CStr, set: Option<(u32, u32)>) {
        if let Ok(mut g) = self.log.lock() {
            g.push(BCall { inst: self.inst, op, uid: ctx.uid, gid: ctx.gid, inos, name: name.to_string_lossy().into_owned(), set });
        }
    }
    fn stat(&self, n: &Node) -> stat64 {
        let mut st: stat64 = unsafe { std::mem::zeroed() };
        st.st_ino = n.ino;
        st.st_mode = if n.dir { libc::S_IFDIR | 0o755 } else { libc::S_IFREG | 0o644 };
        st.st_uid = n.uid;
        st.st_gid = n.gid;
        st.st_nlink = 1;
        st
    }
    fn entry(&self, n: &Node) -> Entry {
        Entry {
            inode: n.ino,
            generation: 0,
            attr: self.stat(n),
            attr_flags: 0,
            attr_timeout: Duration::from_secs(1),
            entry_timeout: Duration::from_secs(1),
        }
    }
    fn node(&self, ino: u64) -> io::Result<&Node> {
        self.nodes.iter().find(|n| n.ino == ino).ok_or_else(|| io::Error::from_raw_os_error(libc::ENOENT))
    }
}

const EMPTY: &[u8] = b"\0";
fn no_name() -> &'static CStr {
    CStr::from_bytes_with_nul(EMPTY).unwrap()
}

impl FileSystem for Backend {
    type Inode = u64;
    type Handle = u64;

    fn lookup(&self, ctx: &Context, parent: u64, name: &CStr) -> io::Result<Entry> {
        self.rec("lookup", ctx, vec![parent], name, None);
        let nm = name.to_str().unwrap_or("");
        match self.nodes.iter().find(|n| n.parent == parent && n.name == nm && !nm.is_empty()) {
            Some(n) => Ok(self.entry(n)),
            None => Err(io::Error::from_raw_os_error(libc::ENOENT)),
        }
    }
    fn forget(&self, ctx: &Context, inode: u64, _count: u64) {
        self.rec("forget", ctx, vec![inode], no_name(), None);
    }
    fn getattr(&self, ctx: &Context, inode: u64, _h: Option<u64>) -> io::Result<(stat64, Duration)> {
        self.rec("getattr", ctx, vec![inode], no_name(), None);
        Ok((self.stat(self.node(inode)?), Duration::from_secs(1)))
    }
    fn setattr(&self, ctx: &Context, inode: u64, attr: stat64, _h: Option<u64>, _v: SetattrValid) -> io::Result<(stat64, Duration)> {
        self.rec("setattr", ctx, vec![inode], no_name(), Some((attr.st_uid, attr.st_gid)));
        let mut st = self.stat(self.node(inode)?);
        st.st_uid = attr.st_uid;
        st.st_gid = attr.st_gid;
        Ok((st, Duration::from_secs(1)))
    }
    fn mkdir(&self, ctx: &Context, parent: u64, name: &CStr, _mode: u32, _umask: u32) -> io::Result<Entry> {
        self.rec("mkdir", ctx, vec![parent], name, None);
        // a new directory belongs to the caller (as the backend sees the caller)
        let n = Node { ino: self.root * 16 + NEW_INO_OFF, parent, name: "new", dir: true, uid: ctx.uid, gid: ctx.gid };
        Ok(self.entry(&n))
    }
    fn rename(&self, ctx: &Context, olddir: u64, oldname: &CStr, newdir: u64, _newname: &CStr, _flags: u32) -> io::Result<()> {
        self.rec("rename", ctx, vec![olddir, newdir], oldname, None);
        Ok(())
    }
    fn link(&self, ctx: &Context, inode: u64, newparent: u64, newname: &CStr) -> io::Result<Entry> {
        self.rec("link", ctx, vec![inode, newparent], newname, None);
        Ok(self.entry(self.node(inode)?))
    }
    fn readdir(
        &self,
        ctx: &Context,
        inode: u64,
        _h: u64,
        _size: u32,
        _offset: u64,
        add_entry: &mut dyn FnMut(DirEntry) -> io::Result<usize>,
    ) -> io::Result<()> {
        self.rec("readdir", ctx, vec![inode], no_name(), None);
        for (k, n) in self.nodes.iter().filter(|n| n.parent == inode).enumerate() {
            match add_entry(DirEntry { ino: n.ino, offset: k as u64 + 1, type_: if n.dir { 4 } else { 8 }, name: n.name.as_bytes() })? {
                0 => break,
                _ => {}
            }
        }
        Ok(())
    }
    fn readdirplus(
        &self,
        ctx: &Context,
        inode: u64,
        _h: u64,
        _size: u32,
        _offset: u64,
        add_entry: &mut dyn FnMut(DirEntry, Entry) -> io::Result<usize>,
    ) -> io::Result<()> {
        self.rec("readdirplus", ctx, vec![inode], no_name(), None);
        for (k, n) in self.nodes.iter().filter(|n| n.parent == inode).enumerate() {
            let d = DirEntry { ino: n.ino, offset: k as u64 + 1, type_: if n.dir { 4 } else { 8 }, name: n.name.as_bytes() };
            match add_entry(d, self.entry(n))? {
                0 => break,
                _ => {}
            }
        }
        Ok(())
    }
}

impl BackendFileSystem for Backend {
    fn mount(&self) -> io::Result<(Entry, u64)> {
        Ok((self.entry(&self.nodes[0]), self.root * 16 + 15))
    }
    fn as_any(&self) -> &dyn Any {
        self
    }
}

// --------------------------------------------------------------------------------------
// model
// --------------------------------------------------------------------------------------

#[derive(Clone, Copy, Debug, PartialEq, Eq)]
enum Step {
    Mount { path: usize, own: bool },
    Umount { path: usize },
}

impl Step {
    fn show(&self) -> String {
        match self {
            Step::Mount { path, own: false } => format!("mount(backend, {:?})", PATHS[*path]),
            Step::Mount { path, own: true } => format!("mount_with_id_mapping(backend, {:?}, Some({:?}))", PATHS[*path], PER_MOUNT),
            Step::Umount { path } => format!("umount({:?})", PATHS[*path]),
        }
    }
}

#[derive(Clone, Copy, Debug, PartialEq, Eq, Hash)]
enum Den {
    Pseudo(usize),
    Back { inst: usize, ino: u64 },
}

struct Inst {
    path: usize,
    map: Option<Map>,
    live: bool,
    root: u64,
    nodes: Vec<Node>,
}

struct World {
    vfs: Vfs,
    log: Log,
    global: Option<Map>,
    insts: Vec<Inst>,
    mounts: [Option<usize>; 3],
    /// client-visible inode number -> what it denotes (learned from replies)
    known: Vec<(u64, Den)>,
    /// (directory inode, name) -> inode number returned by lookup
    by_name: HashMap<(u64, String), u64>,
    history: Vec<String>,
    requests: u64,
}

impl World {
    fn eff(&self, inst: usize) -> Option<Map> {
        self.insts[inst].map.or(self.global)
    }
    fn den_of(&self, x: u64) -> Option<Den> {
        if x == ROOT_ID {
            return Some(match self.mounts[0] {
                Some(inst) => Den::Back { inst, ino: self.insts[inst].root },
                None => Den::Pseudo(0),
            });
        }
        self.known.iter().find(|(k, _)| *k == x).map(|(_, d)| *d)
    }
    fn live(&self, d: Den) -> bool {
        match d {
            Den::Pseudo(_) => true,
            Den::Back { inst, .. } => self.insts[inst].live,
        }
    }
    /// is there a live mount at or below PATHS[p] (p != 0)?
    fn pseudo_needed(&self, p: usize) -> bool {
        match p {
            1 => self.mounts[1].is_some() || self.mounts[2].is_some(),
            2 => self.mounts[2].is_some(),
            _ => true,
        }
    }
    fn show_den(&self, d: Den) -> String {
        match d {
            Den::Pseudo(p) => format!("pseudo directory {:?}", PATHS[p]),
            Den::Back { inst, ino } => format!(
                "inode {} of backend#{} (mounted at {:?}, {}{})",
                ino,
                inst,
                PATHS[self.insts[inst].path],
                if self.insts[inst].live { "live" } else { "unmounted/over-mounted" },
                match self.insts[inst].map {
                    Some(m) => format!(", own mapping {m:?}"),
                    None => String::new(),
                }
            ),
        }
    }
    fn show_ino(&self, x: u64) -> String {
        if x == ROOT_ID {
            return format!("ROOT_ID (= {})", self.den_of(x).map(|d| self.show_den(d)).unwrap_or_default());
        }
        match self.den_of(x) {
            Some(d) => format!("{} (= {}; obtained from an earlier reply)", hx(x), self.show_den(d)),
            None => hx(x),
        }
    }
}

struct Checker<'a> {
    rep: &'a mut Report,
    opts: &'a Opts,
    /// set while replaying the steps before the last one: those prefixes are histories of their
    /// own and are judged there; here the requests only run so that the client learns inodes
    quiet: bool,
}

fn cs(n: &str) -> CString {
    CString::new(n).unwrap()
}

/// one request as the server would issue it: id translation by node id, then the operation
struct Req<'w> {
    w: &'w mut World,
    caller: (u32, u32),
    desc: String,
}

struct Ran<T> {
    result: Result<io::Result<T>, String>,
    calls: Vec<BCall>,
    remap_failed: bool,
}

impl<'w> Req<'w> {
    fn run<T>(&mut self, nodeid: u64, f: impl FnOnce(&Vfs, &Context) -> io::Result<T>) -> Ran<T> {
        self.w.requests += 1;
        if let Ok(mut g) = self.w.log.lock() {
            g.clear();
        }
        let mut ctx = Context { uid: self.caller.0, gid: self.caller.1, pid: 1 };
        let vfs = &self.w.vfs;
        let mut remap_failed = false;
        let result = guarded(|| {
            if vfs.id_remap_with_nodeid(&mut ctx, nodeid.into()).is_err() {
                remap_failed = true;
                return Err(io::Error::from_raw_os_error(libc::EIO));
            }
            f(vfs, &ctx)
        });
        let calls = self.w.log.lock().map(|g| g.clone()).unwrap_or_default();
        Ran { result, calls, remap_failed }
    }
}

fn show_calls(c: &[BCall]) -> String {
    if c.is_empty() {
        "no backend call".to_string()
    } else {
        c.iter().map(|k| k.show()).collect::<Vec<_>>().join("; ")
    }
}

impl<'a> Checker<'a> {
    fn fail(&mut self, w: &World, obligation: &str, function: &str, caller: (u32, u32), request: &str, expected: String, observed: String) {
        if self.quiet || !self.opts.selects(&format!("{obligation} {function}")) {
            return;
        }
        let global = w.global;
        let hist = w.history.clone();
        self.rep.fail(
            obligation,
            function,
            || {
                obj(vec![
                    ("global_id_mapping", s(format!("{global:?}"))),
                    ("history", arr(hist.iter().map(|h| s(h.clone())))),
                    ("caller", s(format!("uid={} gid={}", caller.0, caller.1))),
                    ("request", s(request)),
                    ("rerun", s("python3 /verif/rx/run.py vfs --src <tree> --raw [--scenario \"<text of one history step>\"]   (deterministic; the history above is one of the enumerated ones)")),
                ])
            },
            expected,
            observed,
        );
    }

    /// common checks of a request that must be served by exactly one backend call
    #[allow(clippy::too_many_arguments)]
    fn routed<T>(
        &mut self,
        w: &World,
        ran: &Ran<T>,
        op: &'static str,
        function: &str,
        caller: (u32, u32),
        request: &str,
        inst: usize,
        inos: &[u64],
    ) -> bool {
        let m = w.eff(inst);
        if let Err(p) = &ran.result {
            self.fail(w, &format!("C07.{op}.panic"), function, caller, request, "no panic".into(), format!("panic: {p}"));
            return false;
        }
        if ran.remap_failed {
            self.fail(w, &format!("C07.{op}.route"), "Vfs::id_remap_with_nodeid", caller, request, format!("the request is delivered to backend#{inst}"), "id_remap_with_nodeid failed".into());
            return false;
        }
        let ok_route = ran.calls.len() == 1 && ran.calls[0].inst == inst && ran.calls[0].op == op && ran.calls[0].inos == inos;
        if !ok_route {
            self.fail(
                w,
                &format!("C07.{op}.route"),
                function,
                caller,
                request,
                format!("exactly one call backend#{inst}.{op} with the backend's own inode number(s) {inos:?}"),
                show_calls(&ran.calls),
            );
            return false;
        }
        let want = (to_int(m, caller.0), to_int(m, caller.1));
        if (ran.calls[0].uid, ran.calls[0].gid) != want {
            self.fail(
                w,
                &format!("C14.{op}.ctx"),
                "Vfs::id_remap_with_nodeid",
                caller,
                request,
                format!("backend#{inst} sees the caller as uid={} gid={} (external->internal with the mount's effective mapping {:?})", want.0, want.1, m),
                format!("uid={} gid={}", ran.calls[0].uid, ran.calls[0].gid),
            );
            return false;
        }
        true
    }

    /// a request that must not reach any backend (stale inode, cross-mount operation)
    fn refused<T>(&mut self, w: &World, ran: &Ran<T>, obligation: &str, function: &str, caller: (u32, u32), request: &str, why: &str, must_fail: bool) -> bool {
        if let Err(p) = &ran.result {
            self.fail(w, &format!("{obligation}.panic"), function, caller, request, "no panic".into(), format!("panic: {p}"));
            return false;
        }
        let real: Vec<BCall> = ran.calls.clone();
        if !real.is_empty() {
            self.fail(w, obligation, function, caller, request, format!("{why}: no backend is reached"), show_calls(&real));
            return false;
        }
        if must_fail {
            if let Ok(Ok(_)) = &ran.result {
                self.fail(w, obligation, function, caller, request, format!("{why}: the request fails"), "Ok".into());
                return false;
            }
        }
        true
    }

    fn owner(&mut self, w: &World, op: &'static str, function: &str, caller: (u32, u32), request: &str, inst: usize, internal: (u32, u32), shown: (u32, u32), what: &str) {
        let m = w.eff(inst);
        let want = (to_ext(m, internal.0), to_ext(m, internal.1));
        if shown != want {
            self.fail(
                w,
                &format!("C14.{op}.owner"),
                function,
                caller,
                request,
                format!(
                    "{what}: owner uid={} gid={} (backend#{inst} reports uid={} gid={}; translated once, internal->external, with the mount's effective mapping {:?})",
                    want.0, want.1, internal.0, internal.1, m
                ),
                format!("uid={} gid={}", shown.0, shown.1),
            );
        }
    }

    fn learn(&mut self, w: &mut World, x: u64, d: Den, caller: (u32, u32), request: &str) {
        if x == ROOT_ID {
            return;
        }
        if let Some(pos) = w.known.iter().position(|(k, _)| *k == x) {
            let old = w.known[pos].1;
            if old != d {
                if w.live(old) && w.live(d) {
                    self.fail(
                        w,
                        "C07.inode.unique",
                        "Vfs::convert_inode",
                        caller,
                        request,
                        format!("inode number {} identifies one inode of one mount ({})", hx(x), w.show_den(old)),
                        format!("the same number is now handed out for {}", w.show_den(d)),
                    );
                }
                w.known[pos].1 = d;
            }
        } else {
            w.known.push((x, d));
        }
    }
}

fn do_step(w: &mut World, st: Step, rep: &mut Report) -> bool {
    match st {
        Step::Mount { path, own } => {
            let inst = w.insts.len();
            let root = ROOT_INOS[inst % ROOT_INOS.len()];
            let nodes = tree(root);
            let be = Backend { inst, root, nodes: nodes.clone(), log: w.log.clone() };
            let map = if own { Some(PER_MOUNT) } else { None };
            let vfs = &w.vfs;
            let r = guarded(|| {
                if own {
                    vfs.mount_with_id_mapping(Box::new(be), PATHS[path], map).map(|_| ())
                } else {
                    vfs.mount(Box::new(be), PATHS[path]).map(|_| ())
                }
            });
            w.history.push(format!("{}  [backend#{inst}, root inode {root}]", st.show()));
            match r {
                Ok(Ok(())) => {
                    if let Some(old) = w.mounts[path] {
                        w.insts[old].live = false;
                    }
                    w.insts.push(Inst { path, map, live: true, root, nodes });
                    w.mounts[path] = Some(inst);
                    true
                }
                other => {
                    rep.notes.push(format!("step refused, history not judged further: {:?} -> {:?}", w.history, other.map(|r| r.map_err(|e| e.to_string()))));
                    false
                }
            }
        }
        Step::Umount { path } => {
            let vfs = &w.vfs;
            let r = guarded(|| vfs.umount(PATHS[path]).map(|_| ()));
            w.history.push(st.show());
            match r {
                Ok(Ok(())) => {
                    if let Some(old) = w.mounts[path].take() {
                        w.insts[old].live = false;
                    }
                    true
                }
                other => {
                    rep.notes.push(format!("step refused, history not judged further: {:?} -> {:?}", w.history, other.map(|r| r.map_err(|e| e.to_string()))));
                    false
                }
            }
        }
    }
}

const NAMES: [&str; 7] = ["a", "b", "f0", "f1", "d", "x", "nope"];

/// directories to visit: ROOT_ID plus every known directory inode
fn directories(w: &World) -> Vec<u64> {
    let mut v = vec![ROOT_ID];
    for (x, d) in &w.known {
        let is_dir = match d {
            Den::Pseudo(_) => true,
            Den::Back { inst, ino } => w.insts[*inst].nodes.iter().any(|n| n.ino == *ino && n.dir),
        };
        if is_dir && !v.contains(x) {
            v.push(*x);
        }
    }
    v
}

fn walk(w: &mut World, ck: &mut Checker, caller: (u32, u32)) {
    // breadth first: directories learned during the walk are visited too
    let mut done: Vec<u64> = Vec::new();
    loop {
        let next = directories(w).into_iter().find(|d| !done.contains(d));
        let Some(dir) = next else { break };
        done.push(dir);
        visit(w, ck, caller, dir);
        if done.len() > 64 {
            break;
        }
    }
}

fn visit(w: &mut World, ck: &mut Checker, caller: (u32, u32), dir: u64) {
    let Some(den) = w.den_of(dir) else { return };
    let dshow = w.show_ino(dir);
    match den {
        Den::Back { inst, ino } if w.insts[inst].live => visit_backend_dir(w, ck, caller, dir, &dshow, inst, ino),
        Den::Back { .. } => visit_stale(w, ck, caller, dir, &dshow),
        Den::Pseudo(p) => visit_pseudo(w, ck, caller, dir, &dshow, p),
    }
}

fn visit_stale(w: &mut World, ck: &mut Checker, caller: (u32, u32), dir: u64, dshow: &str) {
    let why = "the inode belongs to a mount that was unmounted or over-mounted";
    let name = cs("f0");
    let mut rq = Req { w: &mut *w, caller, desc: String::new() };
    let r = rq.run(dir, |v, c| v.lookup(c, dir.into(), &name));
    ck.refused(rq.w, &r, "C07.stale.lookup", "Vfs::lookup", caller, &format!("lookup(parent={dshow}, \"f0\")"), why, true);
    let r = rq.run(dir, |v, c| v.getattr(c, dir.into(), None));
    ck.refused(rq.w, &r, "C07.stale.getattr", "Vfs::getattr", caller, &format!("getattr({dshow})"), why, true);
    let st: stat64 = unsafe { std::mem::zeroed() };
    let r = rq.run(dir, |v, c| v.setattr(c, dir.into(), st, None, SetattrValid::UID | SetattrValid::GID));
    ck.refused(rq.w, &r, "C07.stale.setattr", "Vfs::setattr", caller, &format!("setattr({dshow})"), why, true);
    let r = rq.run(dir, |v, c| v.readdir(c, dir.into(), 0, 4096, 0, &mut |_| Ok(1)));
    ck.refused(rq.w, &r, "C07.stale.readdir", "Vfs::readdir", caller, &format!("readdir({dshow})"), why, true);
    let r = rq.run(dir, |v, c| v.readdirplus(c, dir.into(), 0, 4096, 0, &mut |_, _| Ok(1)));
    ck.refused(rq.w, &r, "C07.stale.readdirplus", "Vfs::readdirplus", caller, &format!("readdirplus({dshow})"), why, true);
    let nm = cs("new");
    let r = rq.run(dir, |v, c| v.mkdir(c, dir.into(), &nm, 0o755, 0));
    ck.refused(rq.w, &r, "C07.stale.mkdir", "Vfs::mkdir", caller, &format!("mkdir({dshow}, \"new\")"), why, true);
    let r = rq.run(dir, |v, c| {
        v.forget(c, dir.into(), 1);
        Ok(())
    });
    ck.refused(rq.w, &r, "C07.stale.forget", "Vfs::forget", caller, &format!("forget({dshow})"), why, false);
    let _ = &rq.desc;
}

fn visit_pseudo(w: &mut World, ck: &mut Checker, caller: (u32, u32), dir: u64, dshow: &str, p: usize) {
    // lookups
    for name in NAMES {
        let child = match (p, name) {
            (0, "a") => Some(1usize),
            (1, "b") => Some(2usize),
            _ => None,
        };
        let cname = cs(name);
        let request = format!("lookup(parent={dshow}, {name:?})");
        let mut rq = Req { w: &mut *w, caller, desc: String::new() };
        let r = rq.run(dir, |v, c| v.lookup(c, dir.into(), &cname));
        let w = &mut *rq.w;
        let target = child.and_then(|c| w.mounts[c]);
        if let Err(pn) = &r.result {
            ck.fail(w, "C07.lookup.panic", "Vfs::lookup", caller, &request, "no panic".into(), format!("panic: {pn}"));
            continue;
        }
        // a pseudo directory is not owned by any backend: only the mount being crossed into may be consulted
        let foreign: Vec<BCall> = r.calls.iter().filter(|k| Some(k.inst) != target).cloned().collect();
        if !foreign.is_empty() {
            ck.fail(w, "C07.lookup.route", "Vfs::lookup_pseudo", caller, &request, "a lookup in a pseudo directory reaches no backend (other than the mount it crosses into)".into(), show_calls(&foreign));
            continue;
        }
        let res = match r.result {
            Ok(x) => x,
            Err(_) => continue,
        };
        match (child, target) {
            (Some(cp), Some(inst)) => {
                // crosses into the mount's root exactly at its mount path
                match res {
                    Err(e) => ck.fail(w, "C07.lookup.cross", "Vfs::lookup_pseudo", caller, &request, format!("the root of backend#{inst} mounted at {:?}", PATHS[cp]), format!("Err({e})")),
                    Ok(e) => {
                        let root = w.insts[inst].root;
                        let rn = w.insts[inst].nodes[0].clone();
                        if e.inode == 0 || e.attr.st_ino != e.inode {
                            ck.fail(w, "C07.lookup.ino", "Vfs::lookup_pseudo", caller, &request, "entry.inode != 0 and attr.st_ino == entry.inode".into(), format!("inode={} st_ino={}", hx(e.inode), hx(e.attr.st_ino)));
                        }
                        ck.learn(w, e.inode, Den::Back { inst, ino: root }, caller, &request);
                        w.by_name.insert((dir, name.to_string()), e.inode);
                        ck.owner(w, "lookup", "Vfs::lookup_pseudo", caller, &request, inst, (rn.uid, rn.gid), (e.attr.st_uid, e.attr.st_gid), "mount root");
                    }
                }
            }
            (Some(cp), None) if w.pseudo_needed(cp) => match res {
                Err(e) => ck.fail(w, "C07.lookup.cross", "Vfs::lookup_pseudo", caller, &request, format!("pseudo directory {:?} (a mount lives below it)", PATHS[cp]), format!("Err({e})")),
                Ok(e) => {
                    ck.learn(w, e.inode, Den::Pseudo(cp), caller, &request);
                    w.by_name.insert((dir, name.to_string()), e.inode);
                }
            },
            (Some(cp), None) => {
                // left-over pseudo directory or ENOENT: both fine
                if let Ok(e) = res {
                    ck.learn(w, e.inode, Den::Pseudo(cp), caller, &request);
                    w.by_name.insert((dir, name.to_string()), e.inode);
                } else {
                    w.by_name.remove(&(dir, name.to_string()));
                }
            }
            _ => {}
        }
    }
    // getattr / readdir / readdirplus: no backend other than the mounts listed in it
    let mut rq = Req { w: &mut *w, caller, desc: String::new() };
    let r = rq.run(dir, |v, c| v.getattr(c, dir.into(), None));
    if !r.calls.is_empty() || r.result.is_err() {
        ck.fail(rq.w, "C07.getattr.route", "Vfs::getattr", caller, &format!("getattr({dshow})"), "getattr of a pseudo directory reaches no backend".into(), format!("{} {:?}", show_calls(&r.calls), r.result.as_ref().err()));
    }
    for plus in [false, true] {
        let mut listed: Vec<(String, u64, Option<Entry>)> = Vec::new();
        let opn: &'static str = if plus { "readdirplus" } else { "readdir" };
        let function = if plus { "Vfs::readdirplus" } else { "Vfs::readdir" };
        let request = format!("{opn}({dshow}, size=4096, offset=0)");
        let r = if plus {
            rq.run(dir, |v, c| {
                v.readdirplus(c, dir.into(), 0, 4096, 0, &mut |d, e| {
                    listed.push((String::from_utf8_lossy(d.name).into_owned(), d.ino, Some(e)));
                    Ok(1)
                })
            })
        } else {
            rq.run(dir, |v, c| {
                v.readdir(c, dir.into(), 0, 4096, 0, &mut |d| {
                    listed.push((String::from_utf8_lossy(d.name).into_owned(), d.ino, None));
                    Ok(1)
                })
            })
        };
        let w = &mut *rq.w;
        if let Err(pn) = &r.result {
            ck.fail(w, &format!("C07.{opn}.panic"), function, caller, &request, "no panic".into(), format!("panic: {pn}"));
            continue;
        }
        let allowed: Vec<usize> = w.mounts.iter().flatten().copied().collect();
        let foreign: Vec<BCall> = r.calls.iter().filter(|k| !allowed.contains(&k.inst)).cloned().collect();
        if !foreign.is_empty() {
            ck.fail(w, &format!("C07.{opn}.route"), function, caller, &request, "listing a pseudo directory reaches no unmounted backend".into(), show_calls(&foreign));
            continue;
        }
        for (name, ino, entry) in &listed {
            check_listed(w, ck, caller, dir, &request, opn, function, name, *ino, entry.as_ref());
        }
    }
}

#[allow(clippy::too_many_arguments)]
fn check_listed(w: &mut World, ck: &mut Checker, caller: (u32, u32), dir: u64, request: &str, opn: &'static str, function: &str, name: &str, ino: u64, entry: Option<&Entry>) {
    if let Some(looked) = w.by_name.get(&(dir, name.to_string())).copied() {
        if ino != looked {
            ck.fail(
                w,
                &format!("C07.{opn}.ino"),
                function,
                caller,
                request,
                format!("entry {name:?} carries the inode number lookup returned for that name: {}", hx(looked)),
                format!("dirent.ino = {}", hx(ino)),
            );
            return;
        }
    }
    if let Some(e) = entry {
        if e.inode != ino || e.attr.st_ino != ino {
            ck.fail(
                w,
                &format!("C07.{opn}.ino"),
                function,
                caller,
                request,
                format!("entry {name:?}: dirent.ino == entry.inode == entry.attr.st_ino"),
                format!("dirent.ino={} entry.inode={} st_ino={}", hx(ino), hx(e.inode), hx(e.attr.st_ino)),
            );
            return;
        }
        // owner ids of entries that belong to a backend
        if let Some(Den::Back { inst, ino: bino }) = w.den_of(ino) {
            if w.insts[inst].live {
                if let Some(n) = w.insts[inst].nodes.iter().find(|n| n.ino == bino).cloned() {
                    ck.owner(w, opn, function, caller, request, inst, (n.uid, n.gid), (e.attr.st_uid, e.attr.st_gid), &format!("entry {name:?}"));
                }
            }
        }
    }
}

fn visit_backend_dir(w: &mut World, ck: &mut Checker, caller: (u32, u32), dir: u64, dshow: &str, inst: usize, ino: u64) {
    let nodes = w.insts[inst].nodes.clone();
    // lookups
    for name in NAMES {
        let cname = cs(name);
        let request = format!("lookup(parent={dshow}, {name:?})");
        let mut rq = Req { w: &mut *w, caller, desc: String::new() };
        let r = rq.run(dir, |v, c| v.lookup(c, dir.into(), &cname));
        let w = &mut *rq.w;
        if !ck.routed(w, &r, "lookup", "Vfs::lookup", caller, &request, inst, &[ino]) {
            continue;
        }
        let child = nodes.iter().find(|n| n.parent == ino && n.name == name);
        match (child, r.result) {
            (Some(n), Ok(Ok(e))) => {
                if e.inode == 0 || e.attr.st_ino != e.inode {
                    ck.fail(w, "C07.lookup.ino", "Vfs::lookup", caller, &request, "entry.inode != 0 and attr.st_ino == entry.inode".into(), format!("inode={} st_ino={}", hx(e.inode), hx(e.attr.st_ino)));
                    continue;
                }
                ck.learn(w, e.inode, Den::Back { inst, ino: n.ino }, caller, &request);
                w.by_name.insert((dir, name.to_string()), e.inode);
                ck.owner(w, "lookup", "Vfs::lookup", caller, &request, inst, (n.uid, n.gid), (e.attr.st_uid, e.attr.st_gid), &format!("entry {name:?}"));
            }
            (Some(_), Ok(Err(e))) => ck.fail(w, "C07.lookup.result", "Vfs::lookup", caller, &request, "the entry the backend returned".into(), format!("Err({e})")),
            (None, Ok(Ok(e))) => ck.fail(w, "C07.lookup.result", "Vfs::lookup", caller, &request, "the backend's ENOENT".into(), format!("Ok(inode {})", hx(e.inode))),
            _ => {}
        }
    }
    let me = nodes.iter().find(|n| n.ino == ino).cloned();
    // getattr
    {
        let request = format!("getattr({dshow})");
        let mut rq = Req { w: &mut *w, caller, desc: String::new() };
        let r = rq.run(dir, |v, c| v.getattr(c, dir.into(), None));
        let w = &mut *rq.w;
        if ck.routed(w, &r, "getattr", "Vfs::getattr", caller, &request, inst, &[ino]) {
            if let (Ok(Ok((st, _))), Some(n)) = (r.result, me.as_ref()) {
                if dir != ROOT_ID && st.st_ino != dir {
                    ck.fail(w, "C07.getattr.ino", "Vfs::getattr", caller, &request, format!("st_ino = {} (the number the client uses for this inode)", hx(dir)), format!("st_ino = {}", hx(st.st_ino)));
                }
                ck.owner(w, "getattr", "Vfs::getattr", caller, &request, inst, (n.uid, n.gid), (st.st_uid, st.st_gid), "attributes");
            }
        }
    }
    // readdir / readdirplus
    for plus in [false, true] {
        let mut listed: Vec<(String, u64, Option<Entry>)> = Vec::new();
        let opn: &'static str = if plus { "readdirplus" } else { "readdir" };
        let function = if plus { "Vfs::readdirplus" } else { "Vfs::readdir" };
        let request = format!("{opn}({dshow}, size=4096, offset=0)");
        let mut rq = Req { w: &mut *w, caller, desc: String::new() };
        let r = if plus {
            rq.run(dir, |v, c| {
                v.readdirplus(c, dir.into(), 0, 4096, 0, &mut |d, e| {
                    listed.push((String::from_utf8_lossy(d.name).into_owned(), d.ino, Some(e)));
                    Ok(1)
                })
            })
        } else {
            rq.run(dir, |v, c| {
                v.readdir(c, dir.into(), 0, 4096, 0, &mut |d| {
                    listed.push((String::from_utf8_lossy(d.name).into_owned(), d.ino, None));
                    Ok(1)
                })
            })
        };
        let w = &mut *rq.w;
        if !ck.routed(w, &r, opn, function, caller, &request, inst, &[ino]) {
            continue;
        }
        let want: Vec<&Node> = nodes.iter().filter(|n| n.parent == ino).collect();
        if listed.len() != want.len() {
            ck.fail(w, &format!("C07.{opn}.result"), function, caller, &request, format!("the {} entries the backend listed", want.len()), format!("{} entries", listed.len()));
            continue;
        }
        for (name, dino, entry) in &listed {
            check_listed(w, ck, caller, dir, &request, opn, function, name, *dino, entry.as_ref());
        }
    }
    // setattr of f0 (owner ids travel to the backend and back), mkdir (new entry owned by the caller)
    if let Some(f0) = nodes.iter().find(|n| n.parent == ino && n.name == "f0").cloned() {
        if let Some(x) = w.by_name.get(&(dir, "f0".to_string())).copied() {
            let m = w.eff(inst);
            let xshow = w.show_ino(x);
            let request = format!("setattr({xshow}, st_uid={}, st_gid={}, valid=UID|GID)", caller.0, caller.1);
            let mut st: stat64 = unsafe { std::mem::zeroed() };
            st.st_uid = caller.0;
            st.st_gid = caller.1;
            let mut rq = Req { w: &mut *w, caller, desc: String::new() };
            let r = rq.run(x, |v, c| v.setattr(c, x.into(), st, None, SetattrValid::UID | SetattrValid::GID));
            let w = &mut *rq.w;
            if ck.routed(w, &r, "setattr", "Vfs::setattr", caller, &request, inst, &[f0.ino]) {
                let want = (to_int(m, caller.0), to_int(m, caller.1));
                if r.calls[0].set != Some(want) {
                    ck.fail(
                        w,
                        "C14.setattr.ids",
                        "Vfs::setattr",
                        caller,
                        &request,
                        format!("backend#{inst} is asked to set uid={} gid={} (external->internal with {:?})", want.0, want.1, m),
                        format!("{:?}", r.calls[0].set),
                    );
                } else if let Ok(Ok((rst, _))) = r.result {
                    ck.owner(w, "setattr", "Vfs::setattr", caller, &request, inst, want, (rst.st_uid, rst.st_gid), "attributes after setattr");
                    if rst.st_ino != x {
                        ck.fail(w, "C07.setattr.ino", "Vfs::setattr", caller, &request, format!("st_ino = {}", hx(x)), format!("st_ino = {}", hx(rst.st_ino)));
                    }
                }
            }
        }
    }
    {
        let m = w.eff(inst);
        let request = format!("mkdir(parent={dshow}, \"new\")");
        let nm = cs("new");
        let mut rq = Req { w: &mut *w, caller, desc: String::new() };
        let r = rq.run(dir, |v, c| v.mkdir(c, dir.into(), &nm, 0o755, 0));
        let w = &mut *rq.w;
        if ck.routed(w, &r, "mkdir", "Vfs::mkdir", caller, &request, inst, &[ino]) {
            if let Ok(Ok(e)) = r.result {
                let internal = (to_int(m, caller.0), to_int(m, caller.1));
                ck.owner(w, "mkdir", "Vfs::mkdir", caller, &request, inst, internal, (e.attr.st_uid, e.attr.st_gid), "new directory");
                let bino = w.insts[inst].root * 16 + NEW_INO_OFF;
                if e.inode == 0 || e.attr.st_ino != e.inode {
                    ck.fail(w, "C07.mkdir.ino", "Vfs::mkdir", caller, &request, "entry.inode != 0 and attr.st_ino == entry.inode".into(), format!("inode={} st_ino={}", hx(e.inode), hx(e.attr.st_ino)));
                } else {
                    // not a directory of the model tree: remember the number only for uniqueness
                    ck.learn(w, e.inode, Den::Back { inst, ino: bino }, caller, &request);
                }
            }
        }
    }
}

/// rename / link between every ordered pair of known directories
fn pairs(w: &mut World, ck: &mut Checker, caller: (u32, u32)) {
    let dirs = directories(w);
    let (old, new) = (cs("f0"), cs("g"));
    for &d1 in &dirs {
        for &d2 in &dirs {
            let (Some(n1), Some(n2)) = (w.den_of(d1), w.den_of(d2)) else { continue };
            let (s1, s2) = (w.show_ino(d1), w.show_ino(d2));
            let same_live = match (n1, n2) {
                (Den::Back { inst: i1, ino: o1 }, Den::Back { inst: i2, ino: o2 }) if i1 == i2 && w.insts[i1].live => Some((i1, o1, o2)),
                _ => None,
            };
            let both_pseudo = matches!((n1, n2), (Den::Pseudo(_), Den::Pseudo(_)));
            for op in ["rename", "link"] {
                let request = if op == "rename" {
                    format!("rename(olddir={s1}, \"f0\", newdir={s2}, \"g\", flags=0)")
                } else {
                    format!("link(inode={s1}, newparent={s2}, \"g\")")
                };
                let function = if op == "rename" { "Vfs::rename" } else { "Vfs::link" };
                let mut rq = Req { w: &mut *w, caller, desc: String::new() };
                let r: Ran<()> = if op == "rename" {
                    rq.run(d1, |v, c| v.rename(c, d1.into(), &old, d2.into(), &new, 0))
                } else {
                    rq.run(d2, |v, c| v.link(c, d1.into(), d2.into(), &new).map(|_| ()))
                };
                let w = &mut *rq.w;
                let opn: &'static str = if op == "rename" { "rename" } else { "link" };
                match same_live {
                    Some((inst, o1, o2)) => {
                        ck.routed(w, &r, opn, function, caller, &request, inst, &[o1, o2]);
                    }
                    None if both_pseudo => {
                        ck.refused(w, &r, &format!("C07.{opn}.cross"), function, caller, &request, "both directories are pseudo directories", false);
                    }
                    None => {
                        let stale = !w.live(n1) || !w.live(n2);
                        let why = if stale { "one of the inodes belongs to an unmounted / over-mounted instance" } else { "the two inodes belong to different mounts (or to a mount and the pseudo fs): operations spanning two mounts are refused" };
                        ck.refused(w, &r, &format!("C07.{opn}.cross"), function, caller, &request, why, true);
                    }
                }
            }
        }
    }
}

fn sequences() -> Vec<(usize, Vec<Step>)> {
    // every sequence of 1..=3 steps (shorter ones first, so that the first witness reported is a
    // shortest one); umount only of a path that is mounted at that point
    fn extend(prefix: &mut Vec<Step>, mounted: [bool; 3], out: &mut Vec<Vec<Step>>) {
        if !prefix.is_empty() {
            out.push(prefix.clone());
        }
        if prefix.len() == 3 {
            return;
        }
        for path in 0..3 {
            for own in [false, true] {
                let mut m = mounted;
                m[path] = true;
                prefix.push(Step::Mount { path, own });
                extend(prefix, m, out);
                prefix.pop();
            }
            if mounted[path] {
                let mut m = mounted;
                m[path] = false;
                prefix.push(Step::Umount { path });
                extend(prefix, m, out);
                prefix.pop();
            }
        }
    }
    let mut seqs = Vec::new();
    extend(&mut Vec::new(), [false; 3], &mut seqs);
    seqs.sort_by_key(|s| s.len());
    let mut out = Vec::new();
    for g in 0..GLOBALS.len() {
        for sq in &seqs {
            out.push((g, sq.clone()));
        }
    }
    out
}

pub fn run(opts: &Opts) -> Report {
    let mut rep = Report::new("vfs", BOUND, opts);
    let mut all = sequences();
    permute(&mut all, opts.seed);
    for (g, seq) in all {
        let label = format!("g={:?}; {}", GLOBALS[g], seq.iter().map(|s| s.show()).collect::<Vec<_>>().join("; "));
        if let Some(f) = &opts.scenario {
            if !label.contains(f.as_str()) {
                continue;
            }
        }
        let vo = VfsOptions { id_mapping: GLOBALS[g].unwrap_or((0, 0, 0)), ..Default::default() };
        let mut w = World {
            vfs: Vfs::new(vo),
            log: Arc::new(Mutex::new(Vec::new())),
            global: GLOBALS[g],
            insts: Vec::new(),
            mounts: [None; 3],
            known: Vec::new(),
            by_name: HashMap::new(),
            history: Vec::new(),
            requests: 0,
        };
        for (k, st) in seq.iter().enumerate() {
            if !do_step(&mut w, *st, &mut rep) {
                break;
            }
            let mut ck = Checker { rep: &mut rep, opts, quiet: k + 1 < seq.len() };
            for caller in CALLERS {
                walk(&mut w, &mut ck, caller);
            }
            pairs(&mut w, &mut ck, CALLERS[1]);
        }
        let n = w.requests;
        rep.cases += n;
        rep.distinct.insert(label.clone());
        if rep.samples.len() < 3 && (rep.distinct.len() == 1 || rep.distinct.len() == 100 || rep.distinct.len() == 700) {
            rep.samples.push(obj(vec![("global_id_mapping", s(format!("{:?}", GLOBALS[g]))), ("history", arr(w.history.iter().map(|h| s(h.clone())))), ("requests", J::Int(n as i128))]));
        }
        if rep.notes.len() > 20 {
            rep.notes.truncate(20);
        }
    }
    rep
}
