//! C05 - passthrough requests have the effect and result of the same host system call
//! (a SMALL differential check).
//!
//! The same script is applied to `export/` through the FileSystem API (path names are resolved
//! by LOOKUPs, every reference and handle is given back) and to `shadow/` (next to the export,
//! same initial content) through libc. Oracle [S]: every step has the same outcome - success
//! value / data / link target or the same errno (`C05.<op>.effect`) - and afterwards the two
//! trees are equal in names, types, sizes, modes, contents, link targets and hard-link structure
//! (`C05.tree.effect`). Caller uid 0 only; symlinks are never path components or I/O targets.
use std::ffi::CString;

use fuse_backend_rs::abi::fuse_abi::SetattrValid;

use crate::json::s;
use crate::pt::*;

#[derive(Clone, Copy, Debug, PartialEq)]
enum Op {
    Create(&'static str, bool, bool, u32),
    Mkdir(&'static str, u32),
    Write(&'static str, u64, &'static [u8]),
    Read(&'static str, u64, u32),
    Truncate(&'static str, i64),
    Chmod(&'static str, u32),
    Rename(&'static str, &'static str),
    Unlink(&'static str),
    Rmdir(&'static str),
    Symlink(&'static str, &'static str),
    Link(&'static str, &'static str),
    Readlink(&'static str),
}

impl Op {
    fn name(&self) -> &'static str {
        match self {
            Op::Create(..) => "create",
            Op::Mkdir(..) => "mkdir",
            Op::Write(..) => "write",
            Op::Read(..) => "read",
            Op::Truncate(..) | Op::Chmod(..) => "setattr",
            Op::Rename(..) => "rename",
            Op::Unlink(..) => "unlink",
            Op::Rmdir(..) => "rmdir",
            Op::Symlink(..) => "symlink",
            Op::Link(..) => "link",
            Op::Readlink(..) => "readlink",
        }
    }
}

const OPS: [Op; 33] = [
    Op::Create("d/new", true, false, 0o640),
    Op::Create("f", false, true, 0o644),
    Op::Create("f", true, false, 0o644),
    Op::Mkdir("m", 0o750),
    Op::Mkdir("d", 0o755),
    Op::Write("f", 3, b"ABC"),
    Op::Write("f", 20, b"Z"),
    Op::Truncate("f", 4),
    Op::Truncate("f", 100),
    Op::Chmod("f", 0o600),
    Op::Chmod("d", 0o700),
    Op::Rename("f", "d/f2"),
    Op::Rename("d", "e"),
    Op::Rename("e", "d"),
    Op::Rename("f", "d"),
    Op::Unlink("f"),
    Op::Unlink("d"),
    Op::Unlink("nope"),
    Op::Rmdir("d"),
    Op::Rmdir("e"),
    Op::Rmdir("f"),
    Op::Symlink("f", "s2"),
    Op::Symlink("x", "s"),
    Op::Link("f", "d/hl"),
    Op::Link("f", "d/x"),
    Op::Link("d", "dl"),
    Op::Readlink("s"),
    Op::Read("f", 2, 5),
    Op::Unlink("s"),
    Op::Rename("s", "s3"),
    Op::Create("nope/x", false, false, 0o644),
    Op::Write("d", 0, b"Q"),
    Op::Truncate("d", 0),
];

fn layout(prefix: &str) -> Vec<Node> {
    let p = |x: &str| format!("{}/{}", prefix, x);
    let mut v = Vec::new();
    if prefix != "export" {
        v.push(dir(prefix));
    }
    v.extend([file(&p("f"), b"hello world"), dir(&p("d")), file(&p("d/x"), b"xx"), dir(&p("e")), sym(&p("s"), "f")]);
    v
}

/// outcome of one step, comparable between the two sides
#[derive(Clone, Debug, PartialEq)]
enum Out {
    Ok,
    Data(Vec<u8>),
    Count(usize),
    Err(i32),
}

fn show(o: &Out) -> String {
    match o {
        Out::Ok => "Ok".to_string(),
        Out::Data(d) => format!("Ok({})", show_bytes(d)),
        Out::Count(n) => format!("Ok({})", n),
        Out::Err(e) => format!("Err({})", ename(*e)),
    }
}

// ---- API side ----------------------------------------------------------------------------------

/// resolve all but the last component; returns (parent inode, last name)
fn parent_of<'a>(w: &mut World, path: &'a str) -> Result<(u64, &'a str), i32> {
    let mut cur = ROOT;
    let comps: Vec<&str> = path.split('/').collect();
    for c in &comps[..comps.len() - 1] {
        cur = w.lookup(cur, c)?.inode;
    }
    Ok((cur, comps[comps.len() - 1]))
}

fn resolve(w: &mut World, path: &str) -> Result<u64, i32> {
    let (p, n) = parent_of(w, path)?;
    Ok(w.lookup(p, n)?.inode)
}

fn api(w: &mut World, op: Op) -> Out {
    let r: Result<Out, i32> = (|| match op {
        Op::Create(path, excl, trunc, mode) => {
            let (p, n) = parent_of(w, path)?;
            let fl = libc::O_CREAT | libc::O_WRONLY | if excl { libc::O_EXCL } else { 0 } | if trunc { libc::O_TRUNC } else { 0 };
            let (e, h) = w.create(p, n, fl, mode)?;
            if let Some(h) = h {
                let _ = w.release(e.inode, h);
            }
            Ok(Out::Ok)
        }
        Op::Mkdir(path, mode) => {
            let (p, n) = parent_of(w, path)?;
            w.mkdir(p, n, mode)?;
            Ok(Out::Ok)
        }
        Op::Write(path, off, data) => {
            let ino = resolve(w, path)?;
            let h = if w.eff_no_open { 0 } else { w.open(ino, libc::O_WRONLY)? };
            let r = w.write(ino, h, data, off, libc::O_WRONLY);
            if !w.eff_no_open {
                let _ = w.release(ino, h);
            }
            Ok(Out::Count(r?))
        }
        Op::Read(path, off, len) => {
            let ino = resolve(w, path)?;
            let h = if w.eff_no_open { 0 } else { w.open(ino, libc::O_RDONLY)? };
            let r = w.read(ino, h, len, off, libc::O_RDONLY);
            if !w.eff_no_open {
                let _ = w.release(ino, h);
            }
            Ok(Out::Data(r?))
        }
        Op::Truncate(path, size) => {
            let ino = resolve(w, path)?;
            w.setattr(ino, None, SetattrValid::SIZE, size, 0)?;
            Ok(Out::Ok)
        }
        Op::Chmod(path, mode) => {
            let ino = resolve(w, path)?;
            w.setattr(ino, None, SetattrValid::MODE, 0, mode)?;
            Ok(Out::Ok)
        }
        Op::Rename(a, b) => {
            let (pa, na) = parent_of(w, a)?;
            let (pb, nb) = parent_of(w, b)?;
            w.rename(pa, na, pb, nb)?;
            Ok(Out::Ok)
        }
        Op::Unlink(path) => {
            let (p, n) = parent_of(w, path)?;
            w.unlink(p, n)?;
            Ok(Out::Ok)
        }
        Op::Rmdir(path) => {
            let (p, n) = parent_of(w, path)?;
            w.rmdir(p, n)?;
            Ok(Out::Ok)
        }
        Op::Symlink(target, path) => {
            let (p, n) = parent_of(w, path)?;
            w.symlink(target, p, n)?;
            Ok(Out::Ok)
        }
        Op::Link(from, to) => {
            let ino = resolve(w, from)?;
            let (p, n) = parent_of(w, to)?;
            w.link(ino, p, n)?;
            Ok(Out::Ok)
        }
        Op::Readlink(path) => {
            let ino = resolve(w, path)?;
            Ok(Out::Data(w.readlink(ino)?))
        }
    })();
    // the client keeps nothing between steps
    w.forget_all();
    r.unwrap_or_else(Out::Err)
}

// ---- host side ---------------------------------------------------------------------------------

fn cpath(base: &std::path::Path, rel: &str) -> CString {
    CString::new(base.join(rel).to_string_lossy().as_bytes()).unwrap()
}

fn errno() -> i32 {
    std::io::Error::last_os_error().raw_os_error().unwrap_or(-1)
}

fn host(base: &std::path::Path, op: Op) -> Out {
    unsafe {
        match op {
            Op::Create(path, excl, trunc, mode) => {
                let fl = libc::O_CREAT | libc::O_WRONLY | libc::O_NOFOLLOW | if excl { libc::O_EXCL } else { 0 } | if trunc { libc::O_TRUNC } else { 0 };
                let fd = libc::open(cpath(base, path).as_ptr(), fl, mode);
                if fd < 0 {
                    return Out::Err(errno());
                }
                libc::close(fd);
                Out::Ok
            }
            Op::Mkdir(path, mode) => {
                if libc::mkdir(cpath(base, path).as_ptr(), mode) < 0 {
                    return Out::Err(errno());
                }
                Out::Ok
            }
            Op::Write(path, off, data) => {
                let fd = libc::open(cpath(base, path).as_ptr(), libc::O_WRONLY | libc::O_NOFOLLOW);
                if fd < 0 {
                    return Out::Err(errno());
                }
                let n = libc::pwrite(fd, data.as_ptr() as *const libc::c_void, data.len(), off as i64);
                let e = errno();
                libc::close(fd);
                if n < 0 {
                    return Out::Err(e);
                }
                Out::Count(n as usize)
            }
            Op::Read(path, off, len) => {
                let fd = libc::open(cpath(base, path).as_ptr(), libc::O_RDONLY | libc::O_NOFOLLOW);
                if fd < 0 {
                    return Out::Err(errno());
                }
                let mut buf = vec![0u8; len as usize];
                let n = libc::pread(fd, buf.as_mut_ptr() as *mut libc::c_void, buf.len(), off as i64);
                let e = errno();
                libc::close(fd);
                if n < 0 {
                    return Out::Err(e);
                }
                buf.truncate(n as usize);
                Out::Data(buf)
            }
            Op::Truncate(path, size) => {
                if libc::truncate(cpath(base, path).as_ptr(), size) < 0 {
                    return Out::Err(errno());
                }
                Out::Ok
            }
            Op::Chmod(path, mode) => {
                if libc::chmod(cpath(base, path).as_ptr(), mode) < 0 {
                    return Out::Err(errno());
                }
                Out::Ok
            }
            Op::Rename(a, b) => {
                if libc::rename(cpath(base, a).as_ptr(), cpath(base, b).as_ptr()) < 0 {
                    return Out::Err(errno());
                }
                Out::Ok
            }
            Op::Unlink(path) => {
                if libc::unlink(cpath(base, path).as_ptr()) < 0 {
                    return Out::Err(errno());
                }
                Out::Ok
            }
            Op::Rmdir(path) => {
                if libc::rmdir(cpath(base, path).as_ptr()) < 0 {
                    return Out::Err(errno());
                }
                Out::Ok
            }
            Op::Symlink(target, path) => {
                let t = CString::new(target).unwrap();
                if libc::symlink(t.as_ptr(), cpath(base, path).as_ptr()) < 0 {
                    return Out::Err(errno());
                }
                Out::Ok
            }
            Op::Link(from, to) => {
                if libc::link(cpath(base, from).as_ptr(), cpath(base, to).as_ptr()) < 0 {
                    return Out::Err(errno());
                }
                Out::Ok
            }
            Op::Readlink(path) => {
                let mut buf = vec![0u8; 4096];
                let n = libc::readlink(cpath(base, path).as_ptr(), buf.as_mut_ptr() as *mut libc::c_char, buf.len());
                if n < 0 {
                    return Out::Err(errno());
                }
                buf.truncate(n as usize);
                Out::Data(buf)
            }
        }
    }
}

fn run_script(cx: &mut Cx, cfg: Cfg, seq: &[Op], label: &str) {
    let mut nodes = layout("export");
    nodes.extend(layout("shadow"));
    let Some(mut w) = cx.world(&nodes, cfg) else { return };
    let shadow = w.top.join("shadow");
    let base_fds = count_fds();
    let mut host_log: Vec<String> = Vec::new();
    for op in seq {
        let a = api(&mut w, *op);
        let h = host(&shadow, *op);
        host_log.push(format!("{:?} -> {}", op, show(&h)));
        if a != h {
            cx.rep.fail(
                &format!("C05.{}.effect", op.name()),
                &format!("PassthroughFs::{}", op.name()),
                || w.witness(vec![("scenario", s(label)), ("host_calls_on_shadow", crate::json::arr(host_log.iter().map(|x| s(x.clone()))))]),
                format!("{:?} has the outcome of the host call on the shadow directory: {}", op, show(&h)),
                show(&a),
            );
            cx.account(&w, label);
            return;
        }
    }
    let ta = snapshot(&w.root, false);
    let tb = snapshot(&shadow, false);
    let d = snapshot_diff(&tb, &ta);
    if !d.is_empty() {
        cx.rep.fail(
            "C05.tree.effect",
            "PassthroughFs",
            || w.witness(vec![("scenario", s(label)), ("host_calls_on_shadow", crate::json::arr(host_log.iter().map(|x| s(x.clone()))))]),
            "the exported tree equals the shadow tree the same calls were applied to directly".to_string(),
            format!("[shadow] vs [export]: {}", d.join("; ")),
        );
    }
    let now = count_fds();
    if now != base_fds {
        cx.rep.fail("C15.fds.balanced", "PassthroughFs", || w.witness(vec![("scenario", s(label))]), format!("{} open descriptors after every handle was released and every inode forgotten", base_fds), format!("{}", now));
    }
    cx.account(&w, label);
}

pub fn run(cx: &mut Cx) {
    let mut scripts: Vec<(Cfg, Vec<Op>)> = Vec::new();
    let default = Cfg::default();
    for a in OPS {
        scripts.push((default, vec![a]));
        for b in OPS {
            scripts.push((default, vec![a, b]));
        }
    }
    let others = [
        Cfg { no_open: true, no_opendir: true, ..Default::default() },
        Cfg { ifh: true, ..Default::default() },
        Cfg { host_ino: true, ..Default::default() },
        Cfg { writeback: true, ..Default::default() },
    ];
    for cfg in others.iter().chain([default].iter()) {
        if *cfg != default {
            for a in OPS {
                scripts.push((*cfg, vec![a]));
            }
        }
        scripts.push((*cfg, OPS.to_vec()));
        let mut rev = OPS.to_vec();
        rev.reverse();
        scripts.push((*cfg, rev));
    }
    for (cfg, seq) in seeded(scripts, cx.opts) {
        let label = format!("C05 no_open={} inode_file_handles={} use_host_ino={} writeback={} {:?}", cfg.no_open, cfg.ifh, cfg.host_ino, cfg.writeback, seq);
        cx.scenario(&label, |cx| run_script(cx, cfg, &seq, &label));
    }
}
