//! C16 - directory listing returns each entry exactly once across any chunking/resumption.
//!
//! The client lists a directory by repeated READDIR / READDIRPLUS requests, accepting per request
//! at most k entries and at most `size` bytes of the wire encoding (24 + name padded to 8, + 128
//! for plus), resuming from the offset of the last entry it accepted, until a reply is empty.
//! Oracle [S] against std::fs::read_dir of the same directory: every name exactly once
//! (`.missing`, `.duplicate`, `.extra`), never "." / ".." (`.dots`), right d_type (`.type`),
//! non-zero offsets (`.offset`), no error (`.error`), termination (`.terminates`); resuming from
//! the offset of an earlier entry - same handle, other handle, handle 0 with no_opendir - yields
//! exactly the entries that followed it (`.goback`); readdirplus holds one reference per
//! delivered entry and none for refused ones (`C16.plus.refs`, via the C08 client model).
use std::collections::BTreeMap;

use crate::json::s;
use crate::pt::*;

const NS: [usize; 6] = [0, 1, 2, 3, 7, 40];
const LENS: [usize; 4] = [1, 8, 31, 255];

fn entry_name(k: usize) -> String {
    let len = LENS[k % 4];
    let tag = format!("{}{}", (b'a' + (k % 26) as u8) as char, k);
    if len == 1 {
        // k = 0, 4, 8, ... -> distinct single characters
        return ((b'A' + (k / 4) as u8) as char).to_string();
    }
    let mut n = tag;
    while n.len() < len {
        n.push('_');
    }
    n
}

/// (nodes, expected name -> d_type)
fn layout(n: usize) -> (Vec<Node>, BTreeMap<Vec<u8>, u32>) {
    let mut nodes = vec![dir("export/dir")];
    let mut want = BTreeMap::new();
    for k in 0..n {
        let name = entry_name(k);
        let p = format!("export/dir/{}", name);
        match k % 3 {
            // directories inside are not part of the pooled layout: files and symlinks only, plus
            // one sub-directory per listing (entry 1) which keeps the DT_DIR case
            1 if k == 1 => {
                nodes.push(dir(&p));
                want.insert(name.into_bytes(), libc::DT_DIR as u32);
            }
            2 => {
                nodes.push(sym(&p, "target"));
                want.insert(name.into_bytes(), libc::DT_LNK as u32);
            }
            _ => {
                nodes.push(file(&p, b"e"));
                want.insert(name.into_bytes(), libc::DT_REG as u32);
            }
        }
    }
    (nodes, want)
}

#[derive(Clone, Copy, Debug, PartialEq, Eq)]
enum Hm {
    One,
    Two,
    NoOpendir,
}

#[derive(Clone, Copy, Debug)]
struct Pat {
    n: usize,
    plus: bool,
    /// entries accepted per request
    k: usize,
    /// 0 = the smallest size that holds the longest entry of the directory
    size: u32,
    hm: Hm,
}

fn wire(name_len: usize, plus: bool) -> usize {
    24 + pad8(name_len) + if plus { 128 } else { 0 }
}

fn run_pat(cx: &mut Cx, p: Pat, label: &str) {
    let (nodes, want) = layout(p.n);
    let cfg = Cfg { no_opendir: p.hm == Hm::NoOpendir, ..Default::default() };
    let Some(mut w) = cx.world(&nodes, cfg) else { return };
    let func = if p.plus { "PassthroughFs::readdirplus" } else { "PassthroughFs::readdir" };
    let base_fds = count_fds();
    let Ok(de) = w.lookup(ROOT, "dir") else {
        cx.tool_error(format!("[{}] lookup of dir failed", label));
        return;
    };
    let dino = de.inode;
    let min = want.keys().map(|n| wire(n.len(), p.plus)).max().unwrap_or(wire(1, p.plus)) as u32;
    let size = if p.size == 0 { min } else { p.size };
    if size < min {
        return; // the statement only speaks about buffers that can hold the next entry
    }
    let mut handles: Vec<u64> = Vec::new();
    if p.hm == Hm::NoOpendir {
        handles.push(0);
    } else {
        for _ in 0..if p.hm == Hm::Two { 2 } else { 1 } {
            match w.opendir(dino) {
                Ok(h) => handles.push(h),
                Err(_) => {
                    let t = w.trace[w.last()].text.clone();
                    cx.rep.fail("C16.list.error", "PassthroughFs::opendir", || w.witness(vec![("scenario", s(label))]), "opendir of a directory succeeds".to_string(), t);
                    return;
                }
            }
        }
    }
    macro_rules! fail {
        ($obl:expr, $want:expr, $got:expr) => {{
            let (a, b): (String, String) = ($want, $got);
            cx.rep.fail($obl, func, || w.witness(vec![("scenario", s(label)), ("directory_entries", s(format!("{}", want.len())))]), a, b);
            cx.account(&w, label);
            return;
        }};
    }
    // ---- the listing
    let mut got: Vec<DEnt> = Vec::new();
    let mut off = 0u64;
    let mut calls = 0usize;
    loop {
        let h = handles[calls % handles.len()];
        calls += 1;
        if calls > p.n + 8 {
            fail!("C16.list.terminates", format!("the listing of {} entries ends with an empty reply", p.n), format!("{} requests and still entries", calls));
        }
        match w.readdir(dino, h, size, off, p.k, p.plus) {
            Err(e) => fail!("C16.list.error", "no error while listing an unchanged directory".to_string(), format!("{} -> {}", w.trace[w.last()].text, ename(e))),
            Ok(v) if v.is_empty() => break,
            Ok(v) => {
                off = v.last().map(|d| d.off).unwrap_or(off);
                got.extend(v);
            }
        }
    }
    let show = |v: &[DEnt]| v.iter().map(|d| String::from_utf8_lossy(&d.name[..d.name.len().min(12)]).to_string()).collect::<Vec<_>>().join(",");
    let mut count: BTreeMap<Vec<u8>, usize> = BTreeMap::new();
    for d in &got {
        *count.entry(d.name.clone()).or_insert(0) += 1;
        if d.name == b"." || d.name == b".." {
            fail!("C16.list.dots", "\".\" and \"..\" are never listed".to_string(), format!("listed: {}", show(&got)));
        }
        if d.off == 0 {
            fail!("C16.list.offset", "every entry has a non-zero continuation offset".to_string(), format!("entry {:?} has offset 0", String::from_utf8_lossy(&d.name)));
        }
        match want.get(&d.name) {
            None => fail!("C16.list.extra", format!("only the {} names of the directory are listed", want.len()), format!("listed {:?}", String::from_utf8_lossy(&d.name))),
            Some(t) if *t != d.typ => fail!("C16.list.type", format!("{:?} has d_type {}", String::from_utf8_lossy(&d.name), t), format!("d_type {}", d.typ)),
            _ => {}
        }
        if let Some((ino, mode, _)) = d.entry {
            let ft = (mode & libc::S_IFMT) >> 12;
            if ft != d.typ || ino == 0 {
                fail!("C16.list.type", "the entry of a readdirplus record describes the same object as its dirent".to_string(), format!("{:?}: d_type {} but mode {:o}, inode {}", String::from_utf8_lossy(&d.name), d.typ, mode, ino));
            }
        }
    }
    for (n, c) in &count {
        if *c > 1 {
            fail!("C16.list.duplicate", "every entry is listed exactly once".to_string(), format!("{:?} listed {} times in {}", String::from_utf8_lossy(&n[..n.len().min(12)]), c, show(&got)));
        }
    }
    for n in want.keys() {
        if !count.contains_key(n) {
            // did the listing stop early (more entries follow the offset at which the reply was empty)?
            let more = w.readdir(dino, handles[0], 4096.max(size), off, usize::MAX, p.plus).map(|v| v.len()).unwrap_or(0);
            if more > 0 {
                fail!(
                    "C16.list.premature_end",
                    format!("a reply is empty only at the end of the directory: a buffer of {} bytes holds the next entry ({} bytes at most)", size, min),
                    format!("request #{} (size {}, offset {}) was answered with an empty reply although {} more entries follow that offset; delivered so far [{}]", calls, size, off, more, show(&got))
                );
            }
            fail!(
                "C16.list.missing",
                format!("all {} entries are listed before the empty reply", want.len()),
                format!("{:?} was never listed; {} requests delivered [{}]", String::from_utf8_lossy(&n[..n.len().min(12)]), calls, show(&got))
            );
        }
    }
    // ---- going back: resume from the offset of an earlier entry
    let mut backs: Vec<usize> = Vec::new();
    if !got.is_empty() {
        for j in [0, got.len() / 2, got.len() - 1] {
            if !backs.contains(&j) {
                backs.push(j);
            }
        }
    }
    for (bn, j) in backs.iter().enumerate() {
        let h = handles[bn % handles.len()];
        let mut tail: Vec<DEnt> = Vec::new();
        let mut o = got[*j].off;
        let mut guard = 0;
        loop {
            guard += 1;
            if guard > p.n + 8 {
                fail!("C16.list.terminates", "the resumed listing ends with an empty reply".to_string(), format!("{} requests and still entries", guard));
            }
            match w.readdir(dino, h, 4096.max(size), o, usize::MAX, p.plus) {
                Err(e) => fail!("C16.list.error", "no error when resuming from the offset of an earlier entry".to_string(), format!("{} -> {}", w.trace[w.last()].text, ename(e))),
                Ok(v) if v.is_empty() => break,
                Ok(v) => {
                    o = v.last().map(|d| d.off).unwrap_or(o);
                    tail.extend(v);
                }
            }
        }
        let expect: Vec<&Vec<u8>> = got[*j + 1..].iter().map(|d| &d.name).collect();
        let have: Vec<&Vec<u8>> = tail.iter().map(|d| &d.name).collect();
        if expect != have {
            fail!(
                "C16.list.goback",
                format!("resuming from the offset of entry #{} ({}) lists exactly the {} entries that followed it: [{}]", j, got[*j].off, expect.len(), show(&got[*j + 1..])),
                format!("[{}]", show(&tail))
            );
        }
    }
    // ---- the client's callback fails at the j-th entry of a request: that entry is not delivered
    if p.plus && p.k == usize::MAX && p.size == 4096 {
        for j in 0..p.n.min(3) {
            w.cb_error_at = Some(j);
            let _ = w.readdir(dino, handles[0], 4096, 0, usize::MAX, true);
            w.cb_error_at = None;
        }
    }
    // ---- references: one per delivered readdirplus entry, none for refused ones
    if p.hm != Hm::NoOpendir {
        for h in handles.clone() {
            let _ = w.releasedir(dino, h);
        }
    }
    if p.plus {
        let seen: Vec<u64> = w.seen.iter().cloned().filter(|x| *x != ROOT && *x != dino).collect();
        // first: inodes that were only offered (refused by the client) must not be referenced
        for ino in &seen {
            if w.refs.get(ino).copied().unwrap_or(0) == 0 && w.getattr(*ino, None).is_ok() {
                let t = w.trace[w.last()].text.clone();
                fail!("C16.plus.refs", format!("no reference is held for inode {}: readdirplus never delivered it (the client refused the entry)", ino), t);
            }
        }
        w.forget_all();
        for ino in &seen {
            if w.getattr(*ino, None).is_ok() {
                let t = w.trace[w.last()].text.clone();
                fail!("C16.plus.refs", format!("inode {} is gone after the client forgot exactly one reference per delivered entry", ino), t);
            }
        }
    } else {
        w.forget_all();
    }
    let now = count_fds();
    if now != base_fds {
        fail!("C16.plus.refs", format!("{} open descriptors after releasing the directory handles and forgetting every delivered entry", base_fds), format!("{} open descriptors", now));
    }
    cx.account(&w, label);
}

pub fn run(cx: &mut Cx) {
    let mut pats = Vec::new();
    for n in NS {
        for plus in [false, true] {
            for hm in [Hm::One, Hm::Two, Hm::NoOpendir] {
                for k in [1usize, 2, 3, usize::MAX] {
                    pats.push(Pat { n, plus, k, size: 4096, hm });
                }
                for size in [0u32, 128] {
                    pats.push(Pat { n, plus, k: usize::MAX, size, hm });
                }
            }
        }
    }
    for p in seeded(pats, cx.opts) {
        let label = format!(
            "C16 {} n={} k={} size={} handles={:?}",
            if p.plus { "readdirplus" } else { "readdir" },
            p.n,
            if p.k == usize::MAX { "all".to_string() } else { p.k.to_string() },
            if p.size == 0 { "min".to_string() } else { p.size.to_string() },
            p.hm
        );
        cx.scenario(&label, |cx| run_pat(cx, p, &label));
    }
}
