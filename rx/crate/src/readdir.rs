//! Group `readdir` (C03, C16): READDIR / READDIRPLUS through `Server::handle_message`
//! with a file system that offers n entries through the add_entry callback.
use std::sync::Arc;

use crate::json::{arr, i, obj, s, J};
use crate::mockfs::*;
use crate::report::{hexdump, hx, permute, Opts, Report, Sink};
use crate::server::{drive, GID, NODEID, PID, UID, UNIQUE};
use crate::wire::{self, op, Buf, InHeader, Layout};

pub const BOUND: &str = "READDIR and READDIRPLUS through Server::handle_message; directory of n in 0..=5 entries, name lengths from {1,7,8,9,24,255} \
(every combination for n<=2, six rotations of the list for n in 3..=5), distinct ino/offset/type markers per entry and, for plus, distinct Entry markers; \
the file system offers the entries in order, stops at the first Ok(0), propagates the first Err, and either returns Ok or returns Err(EIO) after k accepted entries for every k in 0..=n; \
requested size in {0,24,31,32,40,160,168,4096}; reply capacity in {size+15, size+16, 8192}";

const NAME_LENS: [usize; 6] = [1, 7, 8, 9, 24, 255];
const SIZES: [u32; 8] = [0, 24, 31, 32, 40, 160, 168, 4096];
const EIO: i32 = 5;
const FH: u64 = 0x7A00_0000_0000_0001;
const OFFSET: u64 = 0x7A00_0000_0000_0002;

#[derive(Clone, Debug)]
struct Case {
    plus: bool,
    lens: Vec<usize>,
    size: u32,
    cap: usize,
    err_after: Option<usize>,
}

fn item(k: usize, len: usize) -> DirItem {
    let name: Vec<u8> = (0..len).map(|n| b'a' + ((n + k) % 26) as u8).collect();
    DirItem {
        ino: 0x7B00_0000_0000_0000 | ((k as u64 + 1) << 8),
        off: 0x7C00_0000_0000_0000 | ((k as u64 + 1) << 16),
        typ: [4u32, 8, 10, 12, 1][k % 5], // DT_DIR, DT_REG, DT_LNK, DT_SOCK, DT_FIFO
        name,
        entry: entry_vals(k as u32 + 1),
    }
}

fn name_sets() -> Vec<Vec<usize>> {
    let mut v = vec![vec![]];
    for a in NAME_LENS {
        v.push(vec![a]);
    }
    for a in NAME_LENS {
        for b in NAME_LENS {
            v.push(vec![a, b]);
        }
    }
    for n in 3..=5usize {
        for rot in 0..NAME_LENS.len() {
            v.push((0..n).map(|k| NAME_LENS[(rot + k) % NAME_LENS.len()]).collect());
        }
    }
    v
}

fn enumerate() -> Vec<Case> {
    let mut out = Vec::new();
    for plus in [false, true] {
        for lens in name_sets() {
            for size in SIZES {
                for cap in [8192, size as usize + 16, size as usize + 15] {
                    out.push(Case { plus, lens: lens.clone(), size, cap, err_after: None });
                    for k in 0..=lens.len() {
                        out.push(Case { plus, lens: lens.clone(), size, cap, err_after: Some(k) });
                    }
                }
            }
        }
    }
    out
}

fn entry_layout(plus: bool, it: &DirItem) -> Layout {
    if plus {
        wire::direntplus(&it.entry, it.ino, it.off, it.typ, &it.name)
    } else {
        wire::dirent(it.ino, it.off, it.typ, &it.name)
    }
}

fn describe(c: &Case, items: &[DirItem]) -> J {
    obj(vec![
        ("opcode", i(if c.plus { op::READDIRPLUS } else { op::READDIR } as i128)),
        ("operation", s(if c.plus { "readdirplus" } else { "readdir" })),
        ("requested_size", i(c.size as i128)),
        ("reply_capacity", i(c.cap as i128)),
        (
            "entries_offered",
            arr(items.iter().map(|it| {
                obj(vec![
                    ("ino", s(hx(it.ino))),
                    ("off", s(hx(it.off))),
                    ("type", i(it.typ as i128)),
                    ("namelen", i(it.name.len() as i128)),
                    ("wire_size", i(entry_layout(c.plus, it).size as i128)),
                ])
            })),
        ),
        (
            "fs_returns",
            s(match c.err_after {
                None => "Ok(()) after offering all entries (or after the first Ok(0))".to_string(),
                Some(k) => format!("Err(from_raw_os_error(EIO=5)) once {k} entries were accepted"),
            }),
        ),
        ("header", obj(vec![("unique", s(hx(UNIQUE))), ("nodeid", s(hx(NODEID))), ("fh", s(hx(FH))), ("offset", s(hx(OFFSET)))])),
        ("rerun", s(format!("python3 /verif/rx/run.py readdir --src <tree> --raw --filter {}", if c.plus { "readdirplus" } else { "readdir" }))),
    ])
}

pub fn run(opts: &Opts) -> Report {
    let mut rep = Report::new("readdir", BOUND, opts);
    let mut sink = Sink::new();
    rep.notes.push(format!("reply sink: {}", sink.kind()));
    let mut cases = enumerate();
    permute(&mut cases, opts.seed);
    for c in &cases {
        let opname = if c.plus { "readdirplus" } else { "readdir" };
        // function names a VX failure may carry: the opcode handlers, the shared body and the encoder
        let tags = if c.plus { "readdirplus do_readdir add_dirent" } else { "readdir do_readdir add_dirent" };
        if !opts.selects(tags) && !opts.selects(opname) {
            continue;
        }
        let items: Vec<DirItem> = c.lens.iter().enumerate().map(|(k, l)| item(k, *l)).collect();
        // struct fuse_read_in { fh, offset, size, read_flags, lock_owner, flags, padding }
        let mut b = Buf::new();
        b.u64(FH).u64(OFFSET).u32(c.size).u32(0).u64(0).u32(0).u32(0);
        let hdr = InHeader {
            len: (wire::IN_HEADER + b.0.len()) as u32,
            opcode: if c.plus { op::READDIRPLUS } else { op::READDIR },
            unique: UNIQUE,
            nodeid: NODEID,
            uid: UID,
            gid: GID,
            pid: PID,
        };
        let mut req = wire::request(&hdr, &b.0);
        let mock = Arc::new(Mock {
            dir: DirPlan { items: items.clone(), err_after: c.err_after.map(|k| (k, EIO)) },
            ..Mock::new(Plan::Ok(0))
        });
        let out = drive(&mut sink, mock.clone(), &mut req, c.cap);
        let shape = format!("{opname}|{:?}|{}|{:?}", c.lens, c.size, c.err_after);
        rep.case(&shape);
        let input = || describe(c, &items);
        rep.sample(input);
        let function = format!("Server::handle_message -> {opname} (do_readdir / add_dirent)");
        let added: Vec<Added> = mock.added.lock().map(|g| g.clone()).unwrap_or_default();

        if let Some(p) = &out.panic {
            rep.fail(&format!("C01.{opname}.panic"), &function, input, "no panic".into(), format!("panic: {p}"));
            continue;
        }
        if out.packets.len() > 1 {
            rep.fail(
                &format!("C01.{opname}.reply.count"),
                &function,
                input,
                "one reply, one write call".into(),
                format!("{} write calls", out.packets.len()),
            );
            continue;
        }
        let ops: Vec<&Call> = out.calls.iter().filter(|k| !k.op.starts_with("id_remap")).collect();
        let short_buffer = c.cap < c.size as usize + wire::OUT_HEADER;
        let reply = out.packets.first();
        let hdr_out = reply.and_then(|m| wire::out_header(m));
        if let (Some(m), Some(h)) = (reply, hdr_out) {
            if h.len as usize != m.len() || h.unique != UNIQUE || !(h.error == 0 || (-4095..=-1).contains(&h.error)) || (h.error != 0 && m.len() != 16) {
                rep.fail(
                    &format!("C01.{opname}.reply.frame"),
                    &function,
                    input,
                    "len == bytes written, unique == request's, error 0 or negated errno without payload".into(),
                    format!("len={} error={} unique={} bytes={}", h.len, h.error, hx(h.unique), m.len()),
                );
                continue;
            }
        }
        if reply.is_some() && hdr_out.is_none() {
            rep.fail(&format!("C01.{opname}.reply.frame"), &function, input, "at least a fuse_out_header".into(), format!("{} bytes", reply.unwrap().len()));
            continue;
        }

        if ops.is_empty() {
            // not served: only acceptable when the reply buffer cannot hold `size` bytes
            if short_buffer {
                if let Some(h) = hdr_out {
                    if h.error == 0 {
                        rep.fail(&format!("C03.{opname}.reply"), &function, input, "an error reply when the request is refused".into(), "success reply".into());
                    }
                }
            } else {
                rep.fail(
                    &format!("C02.{opname}.call"),
                    &function,
                    input,
                    format!("exactly one call of {opname} (reply buffer {} >= size {} + 16)", c.cap, c.size),
                    format!("no call; handle_message returned {}", out.result),
                );
            }
            continue;
        }
        let mut want_args = ctx_args(UID.wrapping_add(REMAP_UID_DELTA), GID.wrapping_add(REMAP_GID_DELTA), PID);
        want_args.extend([a64("nodeid", NODEID), a64("fh", FH), a32("size", c.size), a64("offset", OFFSET)]);
        if ops.len() != 1 || ops[0].op != opname || ops[0].args != want_args {
            rep.fail(
                &format!("C02.{opname}.args"),
                &function,
                input,
                Call { op: if c.plus { "readdirplus" } else { "readdir" }, args: want_args }.show(),
                ops.iter().map(|k| k.show()).collect::<Vec<_>>().join("; "),
            );
            continue;
        }

        // what the file system saw from add_entry
        let accepted: Vec<&DirItem> = items.iter().zip(added.iter()).filter(|(_, a)| matches!(a, Added::Accepted(_))).map(|(it, _)| it).collect();
        let add_error = added.iter().any(|a| matches!(a, Added::Error(_)));
        if add_error && !short_buffer {
            rep.fail(
                &format!("C03.{opname}.dirent.add"),
                "add_dirent",
                input,
                "add_entry succeeds or reports a full buffer (Ok(0)) when the reply buffer holds size+16 bytes".into(),
                format!("add_entry results: {added:?}"),
            );
            continue;
        }
        // C16: the first entry must be accepted when it fits into `size` (otherwise a listing can never make progress)
        if let (Some(first), Some(a0)) = (items.first(), added.first()) {
            let need = entry_layout(c.plus, first).size;
            if need <= c.size as usize && *a0 == Added::Full && !short_buffer {
                rep.fail(
                    &format!("C16.{opname}.dirent.fit"),
                    "add_dirent",
                    input,
                    format!("the first entry ({need} bytes) is accepted into an empty reply of size {}", c.size),
                    "add_entry returned Ok(0) (buffer full)".into(),
                );
                continue;
            }
        }

        let returned = out.returned.unwrap_or(Returned::Ok);
        match returned {
            Returned::Errno(_) | Returned::KindOnly => {
                // the file system failed: the reply is that error and carries no entries
                match hdr_out {
                    None => rep.fail(
                        &format!("C01.{opname}.reply.missing"),
                        &function,
                        input,
                        "exactly one reply (the error)".into(),
                        format!("no reply; handle_message returned {}", out.result),
                    ),
                    Some(h) => {
                        let ok = match returned {
                            Returned::Errno(e) => h.error == -e,
                            _ => h.error != 0,
                        };
                        if !ok {
                            rep.fail(
                                &format!("C03.{opname}.reply.errno"),
                                &function,
                                input,
                                format!("the file system returned {returned:?} after {} accepted entries: the reply is that error, without payload", accepted.len()),
                                format!("out_header.error = {}, {} payload bytes", h.error, h.len as usize - wire::OUT_HEADER),
                            );
                        }
                    }
                }
            }
            Returned::Ok => {
                let mut lay = Layout::new("");
                for it in &accepted {
                    lay = lay.then(entry_layout(c.plus, it));
                }
                lay.what = "directory reply".to_string();
                match (hdr_out, reply) {
                    (None, _) => {
                        if !short_buffer {
                            rep.fail(
                                &format!("C01.{opname}.reply.missing"),
                                &function,
                                input,
                                format!("exactly one reply with {} entries", accepted.len()),
                                format!("no reply; handle_message returned {}", out.result),
                            );
                        }
                    }
                    (Some(h), Some(msg)) => {
                        if h.error != 0 {
                            if !short_buffer {
                                rep.fail(&format!("C03.{opname}.reply"), &function, input, "success reply".into(), format!("error {}", h.error));
                            }
                            continue;
                        }
                        let payload = &msg[wire::OUT_HEADER..];
                        if payload.len() > c.size as usize {
                            rep.fail(
                                &format!("C03.{opname}.dirent.max"),
                                "add_dirent",
                                input,
                                format!("payload <= requested size {}", c.size),
                                format!("payload of {} bytes; add_entry results {added:?}", payload.len()),
                            );
                            continue;
                        }
                        if payload.len() % 8 != 0 {
                            rep.fail(&format!("C03.{opname}.dirent.align"), "add_dirent", input, "payload is a multiple of 8 bytes".into(), format!("{} bytes", payload.len()));
                            continue;
                        }
                        if let Some((field, e, o)) = lay.diff(payload) {
                            rep.fail(
                                &format!("C03.{opname}.dirent.whole"),
                                "add_dirent",
                                input,
                                format!("exactly the {} entries add_entry accepted, each a whole 8-byte aligned record: {field} = {e}", accepted.len()),
                                format!("{field} = {o}   [payload {} bytes: {}]", payload.len(), hexdump(payload)),
                            );
                        }
                    }
                    _ => {}
                }
            }
        }
    }
    rep
}
