//! C08 - an inode stays valid exactly as long as the client holds lookup references to it.
//!
//! The client model of pt.rs counts, per inode number, the entries returned (lookup, create,
//! mkdir, symlink, link, readdirplus entries actually delivered) minus the forgets (never below
//! zero, the root is exempt). Oracle [S], checked after EVERY request of every script:
//!  * `C08.refs.<op>`  getattr(n) succeeds iff the model count of n is positive (root: always) and
//!                     shows the host file the number was handed out for - also after rename and
//!                     after unlink (for unlinked files only when inodes are tracked by descriptors);
//!  * `C08.ino.stable` a file looked up again (also after being forgotten to zero) has its number;
//!  * `C08.ino.unique` two names of one file have one number, one number is one host file.
use crate::json::s;
use crate::pt::*;

#[derive(Clone, Copy, Debug, PartialEq, Eq)]
enum Op {
    LookA,
    LookL,
    LookD,
    LookX,
    LookS,
    LookRootDotDot,
    LookDDotDot,
    LookMissing,
    LookA2,
    ForgetA1,
    ForgetA2,
    ForgetAMany,
    ForgetD1,
    ForgetX1,
    ForgetRoot,
    RenameA,
    RenameD,
    UnlinkA,
    UnlinkL,
    Mkdir,
    Create,
    CreateExisting,
    CreateOnFifo,
    Symlink,
    Link,
    PlusAll,
    PlusTwo,
    ReaddirAll,
}

const ALL: [Op; 28] = [
    Op::LookA,
    Op::LookL,
    Op::LookD,
    Op::LookX,
    Op::LookS,
    Op::LookRootDotDot,
    Op::LookDDotDot,
    Op::LookMissing,
    Op::LookA2,
    Op::ForgetA1,
    Op::ForgetA2,
    Op::ForgetAMany,
    Op::ForgetD1,
    Op::ForgetX1,
    Op::ForgetRoot,
    Op::RenameA,
    Op::RenameD,
    Op::UnlinkA,
    Op::UnlinkL,
    Op::Mkdir,
    Op::Create,
    Op::CreateExisting,
    Op::CreateOnFifo,
    Op::Symlink,
    Op::Link,
    Op::PlusAll,
    Op::PlusTwo,
    Op::ReaddirAll,
];

const CORE: [Op; 9] = [Op::LookA, Op::LookL, Op::LookD, Op::LookX, Op::ForgetA1, Op::ForgetA2, Op::ForgetD1, Op::UnlinkA, Op::RenameA];

fn nodes() -> Vec<Node> {
    vec![file("export/a", b"aaaa"), hard("export/l", "export/a"), dir("export/d"), file("export/d/x", b"x"), sym("export/s", "a"), fifo("export/p")]
}

#[derive(Default)]
struct Known {
    a: Option<u64>,
    d: Option<u64>,
    x: Option<u64>,
    /// host files whose last name was removed (identity may be reused; not openable by file handle)
    dead: Vec<(u64, u64)>,
}

fn step(w: &mut World, k: &mut Known, op: Op) -> &'static str {
    match op {
        Op::LookA => {
            if let Ok(e) = w.lookup(ROOT, "a") {
                k.a = Some(e.inode);
            }
            "lookup"
        }
        Op::LookL => {
            if let Ok(e) = w.lookup(ROOT, "l") {
                k.a = k.a.or(Some(e.inode));
            }
            "lookup"
        }
        Op::LookA2 => {
            if let Ok(e) = w.lookup(ROOT, "a2") {
                k.a = k.a.or(Some(e.inode));
            }
            "lookup"
        }
        Op::LookD => {
            if let Ok(e) = w.lookup(ROOT, "d") {
                k.d = Some(e.inode);
            }
            "lookup"
        }
        Op::LookX => {
            if let Some(d) = k.d {
                if let Ok(e) = w.lookup(d, "x") {
                    k.x = Some(e.inode);
                }
            }
            "lookup"
        }
        Op::LookS => {
            let _ = w.lookup(ROOT, "s");
            "lookup"
        }
        Op::LookRootDotDot => {
            let _ = w.lookup(ROOT, "..");
            "lookup"
        }
        Op::LookDDotDot => {
            if let Some(d) = k.d {
                let _ = w.lookup(d, "..");
            }
            "lookup"
        }
        Op::LookMissing => {
            let _ = w.lookup(ROOT, "nope");
            "lookup"
        }
        Op::ForgetA1 | Op::ForgetA2 | Op::ForgetAMany => {
            if let Some(a) = k.a {
                w.forget(a, if op == Op::ForgetA1 { 1 } else if op == Op::ForgetA2 { 2 } else { 1000 });
            }
            "forget"
        }
        Op::ForgetD1 => {
            if let Some(d) = k.d {
                w.forget(d, 1);
            }
            "forget"
        }
        Op::ForgetX1 => {
            if let Some(x) = k.x {
                w.forget(x, 1);
            }
            "forget"
        }
        Op::ForgetRoot => {
            w.forget(ROOT, 10);
            "forget"
        }
        Op::RenameA => {
            let _ = w.rename(ROOT, "a", ROOT, "a2");
            "rename"
        }
        Op::RenameD => {
            let _ = w.rename(ROOT, "d", ROOT, "d2");
            "rename"
        }
        Op::UnlinkA | Op::UnlinkL => {
            let name = if op == Op::UnlinkA { "a" } else { "l" };
            let before = std::fs::symlink_metadata(w.path(name)).ok().map(|m| {
                use std::os::unix::fs::MetadataExt;
                ((m.dev(), m.ino()), m.nlink())
            });
            if w.unlink(ROOT, name).is_ok() {
                if let Some((id, 1)) = before {
                    k.dead.push(id);
                    w.host_gone(id);
                }
            }
            "unlink"
        }
        Op::Mkdir => {
            let _ = w.mkdir(ROOT, "m", 0o755);
            "mkdir"
        }
        Op::Create => {
            if let Ok((e, Some(h))) = w.create(ROOT, "c", libc::O_CREAT | libc::O_EXCL | libc::O_RDWR, 0o644) {
                let _ = w.release(e.inode, h);
            }
            "create"
        }
        Op::CreateExisting => {
            if let Ok((e, h)) = w.create(ROOT, "a", libc::O_CREAT | libc::O_RDWR, 0o644) {
                k.a = k.a.or(Some(e.inode));
                if let Some(h) = h {
                    let _ = w.release(e.inode, h);
                }
            }
            "create"
        }
        Op::CreateOnFifo => {
            let _ = w.create(ROOT, "p", libc::O_CREAT | libc::O_RDWR, 0o644);
            "create"
        }
        Op::Symlink => {
            let _ = w.symlink("a", ROOT, "s2");
            "symlink"
        }
        Op::Link => {
            if let Some(a) = k.a {
                let _ = w.link(a, ROOT, "l2");
            }
            "link"
        }
        Op::PlusAll | Op::PlusTwo | Op::ReaddirAll => {
            if let Ok(h) = w.opendir(ROOT) {
                let kk = if op == Op::PlusTwo { 2 } else { usize::MAX };
                if let Ok(v) = w.readdir(ROOT, h, 4096, 0, kk, op != Op::ReaddirAll) {
                    for de in v {
                        if let Some((ino, _, _)) = de.entry {
                            match &de.name[..] {
                                b"a" | b"l" | b"a2" => k.a = k.a.or(Some(ino)),
                                b"d" => k.d = k.d.or(Some(ino)),
                                _ => {}
                            }
                        }
                    }
                }
                let _ = w.releasedir(ROOT, h);
            }
            if op == Op::ReaddirAll {
                "readdir"
            } else {
                "readdirplus"
            }
        }
    }
}

/// getattr on every inode number the client ever saw; false = a failure was reported
fn check(w: &mut World, k: &Known, cx: &mut Cx, opname: &str, label: &str) -> bool {
    if let Some(c) = w.id_conflicts.first().cloned() {
        let obl = if c.contains("was inode") { "C08.ino.stable" } else { "C08.ino.unique" };
        cx.rep.fail(obl, "PassthroughFs::do_lookup", || w.witness(vec![("scenario", s(label))]), "one host file has one inode number for the whole session, and one number denotes one host file".to_string(), c);
        return false;
    }
    let mut all: Vec<u64> = w.seen.iter().cloned().collect();
    all.push(ROOT);
    for ino in all {
        let cnt = if ino == ROOT { u64::MAX } else { w.refs.get(&ino).copied().unwrap_or(0) };
        let host = w.host_of.get(&ino).copied();
        if w.cfg.ifh && cnt > 0 && host.map_or(false, |h| k.dead.contains(&h)) {
            continue; // unlinked + tracked by file handle: the statement exempts this case
        }
        let r = w.getattr(ino, None);
        let bad = match (&r, cnt > 0) {
            (Ok(st), true) => ino != ROOT && host.map_or(false, |h| h != (st.st_dev, st.st_ino)),
            (Err(_), false) => false,
            _ => true,
        };
        if bad {
            let t = w.trace[w.last()].text.clone();
            let want = if cnt > 0 {
                format!("getattr({}) succeeds and shows host file {:?}: the client holds {} reference(s)", ino, host, if cnt == u64::MAX { "the root's".to_string() } else { cnt.to_string() })
            } else {
                format!("getattr({}) fails: the client has forgotten every reference to it", ino)
            };
            cx.rep.fail(&format!("C08.refs.{}", opname), &format!("PassthroughFs::{}", opname), || w.witness(vec![("scenario", s(label)), ("client_model", s(format!("{:?}", w.refs)))]), want, t);
            return false;
        }
    }
    true
}

fn run_script(cx: &mut Cx, cfg: Cfg, seq: &[Op], label: &str) {
    let Some(mut w) = cx.world(&nodes(), cfg) else { return };
    let mut k = Known::default();
    for op in seq {
        let name = step(&mut w, &mut k, *op);
        if !check(&mut w, &k, cx, name, label) {
            cx.account(&w, label);
            return;
        }
    }
    // give everything back: nothing the client ever saw may resolve any more
    w.forget_all();
    check(&mut w, &k, cx, "forget", label);
    // and a file looked up again after that has the number it had
    for name in ["a", "a2", "l", "d", "s"] {
        let _ = w.lookup(ROOT, name);
    }
    if check(&mut w, &k, cx, "lookup", label) {
        w.forget_all();
        check(&mut w, &k, cx, "forget", label);
    }
    cx.account(&w, label);
}

pub fn run(cx: &mut Cx) {
    let mut scripts: Vec<(Cfg, Vec<Op>)> = Vec::new();
    for host_ino in [false, true] {
        for ifh in [false, true] {
            let cfg = Cfg { host_ino, ifh, ..Default::default() };
            for a in ALL {
                scripts.push((cfg, vec![a]));
                for b in ALL {
                    scripts.push((cfg, vec![a, b]));
                }
            }
            for a in CORE {
                for b in CORE {
                    for c in CORE {
                        scripts.push((cfg, vec![a, b, c]));
                    }
                }
            }
            // longer hand-written histories
            scripts.push((cfg, vec![Op::LookA, Op::LookL, Op::LookA, Op::ForgetA1, Op::ForgetA1, Op::RenameA, Op::LookA2, Op::ForgetA2, Op::LookA2]));
            scripts.push((cfg, vec![Op::PlusAll, Op::PlusTwo, Op::ForgetA1, Op::UnlinkA, Op::UnlinkL, Op::ForgetAMany, Op::Create, Op::PlusAll]));
            scripts.push((cfg, vec![Op::LookD, Op::LookX, Op::RenameD, Op::LookX, Op::LookDDotDot, Op::ForgetD1, Op::LookX, Op::ForgetX1, Op::ForgetX1]));
            scripts.push((cfg, vec![Op::LookA, Op::Link, Op::Symlink, Op::Mkdir, Op::Create, Op::CreateExisting, Op::CreateOnFifo, Op::ForgetRoot, Op::PlusAll, Op::ForgetAMany, Op::LookL]));
        }
    }
    for (cfg, seq) in seeded(scripts, cx.opts) {
        let label = format!("C08 use_host_ino={} inode_file_handles={} {:?}", cfg.host_ino, cfg.ifh, seq);
        cx.scenario(&label, |cx| run_script(cx, cfg, &seq, &label));
    }
}
