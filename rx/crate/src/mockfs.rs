//! Recording mock `FileSystem` placed behind `Server<Arc<Mock>>`.
//!
//! Every method records (operation name, all arguments) and returns what the per-case
//! `Plan` says: a success value made of distinct marker fields, `Err(from_raw_os_error(e))`
//! or a kind-only `Err(io::Error::new(kind, "x"))`. The marker values live here; the oracles
//! turn the same values into the bytes the kernel must receive (wire.rs layouts).
use std::ffi::CStr;
use std::io;
use std::sync::Mutex;
use std::time::Duration;

use fuse_backend_rs::abi::fuse_abi::{stat64, statvfs64, CreateIn, FsOptions, OpenOptions, SetattrValid};
use fuse_backend_rs::api::filesystem::{
    Context, DirEntry, Entry, FileLock, FileSystem, GetxattrReply, IoctlData, ListxattrReply, ZeroCopyReader,
    ZeroCopyWriter,
};

use crate::report::hx;
use crate::wire::{AttrVals, EntryVals, StatfsVals};

pub type Args = Vec<(&'static str, String)>;

#[derive(Clone, Debug, PartialEq, Eq)]
pub struct Call {
    pub op: &'static str,
    pub args: Args,
}

impl Call {
    pub fn show(&self) -> String {
        let a: Vec<String> = self.args.iter().map(|(k, v)| format!("{k}={v}")).collect();
        format!("{}({})", self.op, a.join(", "))
    }
}

#[derive(Clone, Copy, Debug, PartialEq, Eq)]
pub enum Plan {
    /// success, with a variant number selecting among the success shapes of the operation
    Ok(u8),
    Errno(i32),
    Kind(io::ErrorKind),
}

impl Plan {
    pub fn show(&self) -> String {
        match self {
            Plan::Ok(v) => format!("Ok(variant {v})"),
            Plan::Errno(e) => format!("Err(io::Error::from_raw_os_error({e}))"),
            Plan::Kind(k) => format!("Err(io::Error::new(ErrorKind::{k:?}, \"x\"))"),
        }
    }
}

/// what an operation really returned (`read` may fail because the reply buffer is short)
#[derive(Clone, Copy, Debug, PartialEq, Eq)]
pub enum Returned {
    Ok,
    Errno(i32),
    KindOnly,
}

#[derive(Clone, Debug)]
pub struct DirItem {
    pub ino: u64,
    pub off: u64,
    pub typ: u32,
    pub name: Vec<u8>,
    pub entry: EntryVals,
}

#[derive(Clone, Debug, Default)]
pub struct DirPlan {
    pub items: Vec<DirItem>,
    /// return Err(errno) once this many entries were accepted by add_entry
    pub err_after: Option<(usize, i32)>,
}

/// result of one add_entry call as seen by the file system
#[derive(Clone, Copy, Debug, PartialEq, Eq)]
pub enum Added {
    Accepted(usize),
    Full,
    Error(Returned),
}

pub struct Mock {
    pub plan: Plan,
    pub want: u64,
    pub dir: DirPlan,
    pub calls: Mutex<Vec<Call>>,
    pub returned: Mutex<Option<Returned>>,
    pub read_written: Mutex<Vec<u8>>,
    pub added: Mutex<Vec<Added>>,
}

/// added to uid / gid by the mock's id_remap_with_nodeid: the operation must see the
/// translated caller ids
pub const REMAP_UID_DELTA: u32 = 0x0100_0000;
pub const REMAP_GID_DELTA: u32 = 0x0200_0000;

pub fn m64(n: u64) -> u64 {
    0x5A00_0000_0000_0000 | (n << 40) | (n << 8) | 0x3
}
pub fn m32(n: u32) -> u32 {
    0x5B00_0000 | (n << 12) | (n << 4) | 0x5
}

pub const IOCTL_OUT_DATA: &[u8] = b"IOCTLOUT!";
pub const READ_DATA: &[u8] = b"RDATA78";
pub const XATTR_VALUE: &[u8] = b"xattr-value\x00\x01\x02";
pub const XATTR_NAMES: &[u8] = b"user.a\0user.bb\0";
pub const LINK_TARGET: &[u8] = b"../target/of/link";
pub const READ_KS: [usize; 3] = [0, 1, 7];

pub fn attr_vals(seed: u32) -> AttrVals {
    let b = seed * 32;
    AttrVals {
        ino: m64(b as u64 + 1),
        size: m64(b as u64 + 2) & 0x7fff_ffff_ffff_ffff,
        blocks: m64(b as u64 + 3) & 0x7fff_ffff_ffff_ffff,
        atime: m64(b as u64 + 4) & 0x7fff_ffff_ffff_ffff,
        mtime: m64(b as u64 + 5) & 0x7fff_ffff_ffff_ffff,
        ctime: m64(b as u64 + 6) & 0x7fff_ffff_ffff_ffff,
        atimensec: 100_000_007 + seed,
        mtimensec: 200_000_011 + seed,
        ctimensec: 300_000_013 + seed,
        mode: 0o100640 | ((seed & 1) << 11),
        nlink: m32(b + 7),
        uid: m32(b + 8),
        gid: m32(b + 9),
        rdev: m32(b + 10),
        blksize: m32(b + 11) & 0x7fff_ffff,
        flags: 0,
    }
}

pub fn entry_vals(seed: u32) -> EntryVals {
    let b = (seed * 32 + 16) as u64;
    let mut a = attr_vals(seed);
    // attr_flags: FUSE_ATTR_SUBMOUNT | FUSE_ATTR_DAX alternate with the seed
    a.flags = 1 + (seed & 1);
    EntryVals {
        nodeid: m64(b + 1),
        generation: m64(b + 2),
        entry_valid: m64(b + 3) & 0x0000_ffff_ffff_ffff,
        attr_valid: m64(b + 4) & 0x0000_ffff_ffff_ffff,
        entry_valid_nsec: 400_000_019 + seed,
        attr_valid_nsec: 500_000_023 + seed,
        attr: a,
    }
}

pub const ATTR_TIMEOUT: (u64, u32) = (0x0000_1234_5678_9abc, 600_000_029);

pub fn statfs_vals() -> StatfsVals {
    StatfsVals {
        blocks: m64(201),
        bfree: m64(202),
        bavail: m64(203),
        files: m64(204),
        ffree: m64(205),
        bsize: m32(206),
        namelen: m32(207),
        frsize: m32(208),
    }
}

pub const LK_OUT: (u64, u64, u32, u32) = (0x5C00_0000_0000_0011, 0x5C00_0000_0000_0022, 0x5C00_0033, 0x5C00_0044);
pub const BMAP_OUT: u64 = 0x5D00_0000_0000_0055;
pub const POLL_OUT: u32 = 0x5D00_0066;
pub const LSEEK_OUT: u64 = 0x5D00_0000_0000_0077;
pub const IOCTL_RESULT: i32 = -0x1234_5678;
pub const WRITE_COUNT: usize = 0x0012_3456;
pub const XATTR_COUNT: u32 = 0x5D00_0088;
pub const OPEN_FH: u64 = 0x5E00_0000_0000_0099;
pub const OPEN_FLAGS: u32 = 0b10101; // DIRECT_IO | NONSEEKABLE | STREAM
pub const BACKING_ID: u32 = 0x5E00_00AA;

pub fn stat_of(a: &AttrVals) -> stat64 {
    let mut st: stat64 = unsafe { std::mem::zeroed() };
    st.st_ino = a.ino as _;
    st.st_size = a.size as _;
    st.st_blocks = a.blocks as _;
    st.st_atime = a.atime as _;
    st.st_mtime = a.mtime as _;
    st.st_ctime = a.ctime as _;
    st.st_atime_nsec = a.atimensec as _;
    st.st_mtime_nsec = a.mtimensec as _;
    st.st_ctime_nsec = a.ctimensec as _;
    st.st_mode = a.mode as _;
    st.st_nlink = a.nlink as _;
    st.st_uid = a.uid as _;
    st.st_gid = a.gid as _;
    st.st_rdev = a.rdev as _;
    st.st_blksize = a.blksize as _;
    st
}

pub fn entry_of(e: &EntryVals) -> Entry {
    Entry {
        inode: e.nodeid,
        generation: e.generation,
        attr: stat_of(&e.attr),
        attr_flags: e.attr.flags,
        attr_timeout: Duration::new(e.attr_valid, e.attr_valid_nsec),
        entry_timeout: Duration::new(e.entry_valid, e.entry_valid_nsec),
    }
}

pub fn show_bytes(b: &[u8]) -> String {
    let mut o = String::from("\"");
    for (n, c) in b.iter().enumerate() {
        if n >= 40 {
            o.push_str(&format!("...({} bytes)", b.len()));
            break;
        }
        if (0x20..0x7f).contains(c) && *c != b'"' && *c != b'\\' {
            o.push(*c as char);
        } else {
            o.push_str(&format!("\\x{:02x}", c));
        }
    }
    o.push('"');
    // make long names comparable beyond the shown prefix
    if b.len() > 40 {
        let mut h: u64 = 0xcbf29ce484222325;
        for c in b {
            h = (h ^ *c as u64).wrapping_mul(0x100000001b3);
        }
        o.push_str(&format!("#{:016x}", h));
    }
    o
}

fn opt64(v: Option<u64>) -> String {
    match v {
        Some(x) => format!("Some({})", hx(x)),
        None => "None".to_string(),
    }
}

pub fn ctx_args(uid: u32, gid: u32, pid: u32) -> Args {
    vec![("uid", hx(uid)), ("gid", hx(gid)), ("pid", hx(pid))]
}

pub fn a64(k: &'static str, v: u64) -> (&'static str, String) {
    (k, hx(v))
}
pub fn a32(k: &'static str, v: u32) -> (&'static str, String) {
    (k, hx(v))
}
pub fn ab(k: &'static str, v: bool) -> (&'static str, String) {
    (k, v.to_string())
}
pub fn ao(k: &'static str, v: Option<u64>) -> (&'static str, String) {
    (k, opt64(v))
}
pub fn abytes(k: &'static str, v: &[u8]) -> (&'static str, String) {
    (k, show_bytes(v))
}

impl Mock {
    pub fn new(plan: Plan) -> Mock {
        Mock {
            plan,
            want: 0,
            dir: DirPlan::default(),
            calls: Mutex::new(Vec::new()),
            returned: Mutex::new(None),
            read_written: Mutex::new(Vec::new()),
            added: Mutex::new(Vec::new()),
        }
    }

    fn rec(&self, op: &'static str, ctx: Option<&Context>, mut args: Args) {
        let mut all: Args = Vec::new();
        if let Some(c) = ctx {
            all = ctx_args(c.uid, c.gid, c.pid as u32);
        }
        all.append(&mut args);
        if let Ok(mut g) = self.calls.lock() {
            g.push(Call { op, args: all });
        }
    }

    fn note(&self, r: Returned) {
        if let Ok(mut g) = self.returned.lock() {
            *g = Some(r);
        }
    }

    fn plan_err(&self) -> Option<io::Error> {
        match self.plan {
            Plan::Ok(_) => None,
            Plan::Errno(e) => Some(io::Error::from_raw_os_error(e)),
            Plan::Kind(k) => Some(io::Error::new(k, "x")),
        }
    }

    fn variant(&self) -> u8 {
        match self.plan {
            Plan::Ok(v) => v,
            _ => 0,
        }
    }

    fn ret<T>(&self, f: impl FnOnce(u8) -> T) -> io::Result<T> {
        match self.plan_err() {
            Some(e) => {
                self.note(classify(&e));
                Err(e)
            }
            None => {
                self.note(Returned::Ok);
                Ok(f(self.variant()))
            }
        }
    }

    pub fn calls(&self) -> Vec<Call> {
        self.calls.lock().map(|g| g.clone()).unwrap_or_default()
    }
}

pub fn classify(e: &io::Error) -> Returned {
    match e.raw_os_error() {
        Some(x) => Returned::Errno(x),
        None => Returned::KindOnly,
    }
}

fn setattr_args(attr: &stat64) -> Args {
    vec![
        a32("mode", attr.st_mode as u32),
        a32("set_uid", attr.st_uid as u32),
        a32("set_gid", attr.st_gid as u32),
        a64("size", attr.st_size as u64),
        a64("atime", attr.st_atime as u64),
        a64("mtime", attr.st_mtime as u64),
        a64("ctime", attr.st_ctime as u64),
        a64("atimensec", attr.st_atime_nsec as u64),
        a64("mtimensec", attr.st_mtime_nsec as u64),
        a64("ctimensec", attr.st_ctime_nsec as u64),
    ]
}

fn lock_args(l: &FileLock) -> Args {
    vec![a64("lk.start", l.start), a64("lk.end", l.end), a32("lk.type", l.lock_type), a32("lk.pid", l.pid)]
}

impl FileSystem for Mock {
    type Inode = u64;
    type Handle = u64;

    fn init(&self, capable: FsOptions) -> io::Result<FsOptions> {
        self.rec("init", None, vec![a64("capable", capable.bits())]);
        let want = self.want;
        self.ret(|_| FsOptions::from_bits_truncate(want))
    }

    fn destroy(&self) {
        self.rec("destroy", None, vec![]);
    }

    fn lookup(&self, ctx: &Context, parent: u64, name: &CStr) -> io::Result<Entry> {
        self.rec("lookup", Some(ctx), vec![a64("nodeid", parent), abytes("name", name.to_bytes())]);
        self.ret(|v| entry_of(&entry_vals(v as u32)))
    }

    fn forget(&self, ctx: &Context, inode: u64, count: u64) {
        self.rec("forget", Some(ctx), vec![a64("nodeid", inode), a64("nlookup", count)]);
    }

    fn batch_forget(&self, ctx: &Context, requests: Vec<(u64, u64)>) {
        let items: Vec<String> = requests.iter().map(|(i, n)| format!("({},{})", hx(*i), hx(*n))).collect();
        self.rec("batch_forget", Some(ctx), vec![("items", format!("[{}]", items.join(",")))]);
    }

    fn getattr(&self, ctx: &Context, inode: u64, handle: Option<u64>) -> io::Result<(stat64, Duration)> {
        self.rec("getattr", Some(ctx), vec![a64("nodeid", inode), ao("fh", handle)]);
        self.ret(|v| (stat_of(&attr_vals(v as u32)), Duration::new(ATTR_TIMEOUT.0, ATTR_TIMEOUT.1)))
    }

    fn setattr(
        &self,
        ctx: &Context,
        inode: u64,
        attr: stat64,
        handle: Option<u64>,
        valid: SetattrValid,
    ) -> io::Result<(stat64, Duration)> {
        let mut a = vec![a64("nodeid", inode)];
        a.append(&mut setattr_args(&attr));
        a.push(ao("fh", handle));
        a.push(a32("valid", valid.bits()));
        self.rec("setattr", Some(ctx), a);
        self.ret(|v| (stat_of(&attr_vals(v as u32)), Duration::new(ATTR_TIMEOUT.0, ATTR_TIMEOUT.1)))
    }

    fn readlink(&self, ctx: &Context, inode: u64) -> io::Result<Vec<u8>> {
        self.rec("readlink", Some(ctx), vec![a64("nodeid", inode)]);
        self.ret(|_| LINK_TARGET.to_vec())
    }

    fn symlink(&self, ctx: &Context, linkname: &CStr, parent: u64, name: &CStr) -> io::Result<Entry> {
        self.rec(
            "symlink",
            Some(ctx),
            vec![a64("nodeid", parent), abytes("name", name.to_bytes()), abytes("linkname", linkname.to_bytes())],
        );
        self.ret(|v| entry_of(&entry_vals(v as u32)))
    }

    fn mknod(&self, ctx: &Context, inode: u64, name: &CStr, mode: u32, rdev: u32, umask: u32) -> io::Result<Entry> {
        self.rec(
            "mknod",
            Some(ctx),
            vec![a64("nodeid", inode), abytes("name", name.to_bytes()), a32("mode", mode), a32("rdev", rdev), a32("umask", umask)],
        );
        self.ret(|v| entry_of(&entry_vals(v as u32)))
    }

    fn mkdir(&self, ctx: &Context, parent: u64, name: &CStr, mode: u32, umask: u32) -> io::Result<Entry> {
        self.rec(
            "mkdir",
            Some(ctx),
            vec![a64("nodeid", parent), abytes("name", name.to_bytes()), a32("mode", mode), a32("umask", umask)],
        );
        self.ret(|v| entry_of(&entry_vals(v as u32)))
    }

    fn unlink(&self, ctx: &Context, parent: u64, name: &CStr) -> io::Result<()> {
        self.rec("unlink", Some(ctx), vec![a64("nodeid", parent), abytes("name", name.to_bytes())]);
        self.ret(|_| ())
    }

    fn rmdir(&self, ctx: &Context, parent: u64, name: &CStr) -> io::Result<()> {
        self.rec("rmdir", Some(ctx), vec![a64("nodeid", parent), abytes("name", name.to_bytes())]);
        self.ret(|_| ())
    }

    fn rename(
        &self,
        ctx: &Context,
        olddir: u64,
        oldname: &CStr,
        newdir: u64,
        newname: &CStr,
        flags: u32,
    ) -> io::Result<()> {
        self.rec(
            "rename",
            Some(ctx),
            vec![
                a64("nodeid", olddir),
                abytes("oldname", oldname.to_bytes()),
                a64("newdir", newdir),
                abytes("newname", newname.to_bytes()),
                a32("flags", flags),
            ],
        );
        self.ret(|_| ())
    }

    fn link(&self, ctx: &Context, inode: u64, newparent: u64, newname: &CStr) -> io::Result<Entry> {
        self.rec(
            "link",
            Some(ctx),
            vec![a64("oldnodeid", inode), a64("nodeid", newparent), abytes("name", newname.to_bytes())],
        );
        self.ret(|v| entry_of(&entry_vals(v as u32)))
    }

    fn open(
        &self,
        ctx: &Context,
        inode: u64,
        flags: u32,
        fuse_flags: u32,
    ) -> io::Result<(Option<u64>, OpenOptions, Option<u32>)> {
        self.rec("open", Some(ctx), vec![a64("nodeid", inode), a32("flags", flags), a32("open_flags", fuse_flags)]);
        self.ret(|v| {
            if v == 0 {
                (Some(OPEN_FH), OpenOptions::from_bits_truncate(OPEN_FLAGS), Some(BACKING_ID))
            } else {
                (None, OpenOptions::empty(), None)
            }
        })
    }

    fn create(
        &self,
        ctx: &Context,
        parent: u64,
        name: &CStr,
        args: CreateIn,
    ) -> io::Result<(Entry, Option<u64>, OpenOptions, Option<u32>)> {
        self.rec(
            "create",
            Some(ctx),
            vec![
                a64("nodeid", parent),
                abytes("name", name.to_bytes()),
                a32("flags", args.flags),
                a32("mode", args.mode),
                a32("umask", args.umask),
                a32("open_flags", args.fuse_flags),
            ],
        );
        self.ret(|v| {
            let e = entry_of(&entry_vals(v as u32));
            if v == 0 {
                (e, Some(OPEN_FH), OpenOptions::from_bits_truncate(OPEN_FLAGS), Some(BACKING_ID))
            } else {
                (e, None, OpenOptions::empty(), None)
            }
        })
    }

    fn read(
        &self,
        ctx: &Context,
        inode: u64,
        handle: u64,
        w: &mut dyn ZeroCopyWriter,
        size: u32,
        offset: u64,
        lock_owner: Option<u64>,
        flags: u32,
    ) -> io::Result<usize> {
        self.rec(
            "read",
            Some(ctx),
            vec![
                a64("nodeid", inode),
                a64("fh", handle),
                a32("size", size),
                a64("offset", offset),
                ao("lock_owner", lock_owner),
                a32("flags", flags),
            ],
        );
        if let Some(e) = self.plan_err() {
            self.note(classify(&e));
            return Err(e);
        }
        let k = READ_KS[(self.variant() as usize) % READ_KS.len()];
        let data = &READ_DATA[..k];
        if k > 0 {
            if let Err(e) = w.write_all(data) {
                self.note(classify(&e));
                return Err(e);
            }
        }
        if let Ok(mut g) = self.read_written.lock() {
            g.extend_from_slice(data);
        }
        self.note(Returned::Ok);
        Ok(k)
    }

    fn write(
        &self,
        ctx: &Context,
        inode: u64,
        handle: u64,
        r: &mut dyn ZeroCopyReader,
        size: u32,
        offset: u64,
        lock_owner: Option<u64>,
        delayed_write: bool,
        flags: u32,
        fuse_flags: u32,
    ) -> io::Result<usize> {
        let mut data = Vec::new();
        let _ = r.read_to_end(&mut data);
        self.rec(
            "write",
            Some(ctx),
            vec![
                a64("nodeid", inode),
                a64("fh", handle),
                a32("size", size),
                a64("offset", offset),
                ao("lock_owner", lock_owner),
                ab("delayed_write", delayed_write),
                a32("flags", flags),
                a32("write_flags", fuse_flags),
                abytes("data", &data),
            ],
        );
        self.ret(|_| WRITE_COUNT)
    }

    fn flush(&self, ctx: &Context, inode: u64, handle: u64, lock_owner: u64) -> io::Result<()> {
        self.rec("flush", Some(ctx), vec![a64("nodeid", inode), a64("fh", handle), a64("lock_owner", lock_owner)]);
        self.ret(|_| ())
    }

    fn fsync(&self, ctx: &Context, inode: u64, datasync: bool, handle: u64) -> io::Result<()> {
        self.rec("fsync", Some(ctx), vec![a64("nodeid", inode), ab("datasync", datasync), a64("fh", handle)]);
        self.ret(|_| ())
    }

    fn fallocate(&self, ctx: &Context, inode: u64, handle: u64, mode: u32, offset: u64, length: u64) -> io::Result<()> {
        self.rec(
            "fallocate",
            Some(ctx),
            vec![a64("nodeid", inode), a64("fh", handle), a32("mode", mode), a64("offset", offset), a64("length", length)],
        );
        self.ret(|_| ())
    }

    fn release(
        &self,
        ctx: &Context,
        inode: u64,
        flags: u32,
        handle: u64,
        flush: bool,
        flock_release: bool,
        lock_owner: Option<u64>,
    ) -> io::Result<()> {
        self.rec(
            "release",
            Some(ctx),
            vec![
                a64("nodeid", inode),
                a32("flags", flags),
                a64("fh", handle),
                ab("flush", flush),
                ab("flock_release", flock_release),
                ao("lock_owner", lock_owner),
            ],
        );
        self.ret(|_| ())
    }

    fn statfs(&self, ctx: &Context, inode: u64) -> io::Result<statvfs64> {
        self.rec("statfs", Some(ctx), vec![a64("nodeid", inode)]);
        self.ret(|_| {
            let v = statfs_vals();
            let mut st: statvfs64 = unsafe { std::mem::zeroed() };
            st.f_blocks = v.blocks as _;
            st.f_bfree = v.bfree as _;
            st.f_bavail = v.bavail as _;
            st.f_files = v.files as _;
            st.f_ffree = v.ffree as _;
            st.f_bsize = v.bsize as _;
            st.f_namemax = v.namelen as _;
            st.f_frsize = v.frsize as _;
            // not part of fuse_kstatfs: must not leak into the reply
            st.f_favail = 0x6F00_0000_0000_0001u64 as _;
            st.f_fsid = 0x6F00_0000_0000_0002u64 as _;
            st.f_flag = 0x6F00_0000_0000_0003u64 as _;
            st
        })
    }

    fn setxattr(&self, ctx: &Context, inode: u64, name: &CStr, value: &[u8], flags: u32) -> io::Result<()> {
        self.rec(
            "setxattr",
            Some(ctx),
            vec![a64("nodeid", inode), abytes("name", name.to_bytes()), abytes("value", value), a32("flags", flags)],
        );
        self.ret(|_| ())
    }

    fn getxattr(&self, ctx: &Context, inode: u64, name: &CStr, size: u32) -> io::Result<GetxattrReply> {
        self.rec("getxattr", Some(ctx), vec![a64("nodeid", inode), abytes("name", name.to_bytes()), a32("size", size)]);
        self.ret(|v| if v == 0 { GetxattrReply::Value(XATTR_VALUE.to_vec()) } else { GetxattrReply::Count(XATTR_COUNT) })
    }

    fn listxattr(&self, ctx: &Context, inode: u64, size: u32) -> io::Result<ListxattrReply> {
        self.rec("listxattr", Some(ctx), vec![a64("nodeid", inode), a32("size", size)]);
        self.ret(|v| if v == 0 { ListxattrReply::Names(XATTR_NAMES.to_vec()) } else { ListxattrReply::Count(XATTR_COUNT) })
    }

    fn removexattr(&self, ctx: &Context, inode: u64, name: &CStr) -> io::Result<()> {
        self.rec("removexattr", Some(ctx), vec![a64("nodeid", inode), abytes("name", name.to_bytes())]);
        self.ret(|_| ())
    }

    fn opendir(&self, ctx: &Context, inode: u64, flags: u32) -> io::Result<(Option<u64>, OpenOptions)> {
        self.rec("opendir", Some(ctx), vec![a64("nodeid", inode), a32("flags", flags)]);
        self.ret(|v| {
            if v == 0 {
                (Some(OPEN_FH), OpenOptions::from_bits_truncate(OPEN_FLAGS))
            } else {
                (None, OpenOptions::empty())
            }
        })
    }

    fn readdir(
        &self,
        ctx: &Context,
        inode: u64,
        handle: u64,
        size: u32,
        offset: u64,
        add_entry: &mut dyn FnMut(DirEntry) -> io::Result<usize>,
    ) -> io::Result<()> {
        self.rec("readdir", Some(ctx), vec![a64("nodeid", inode), a64("fh", handle), a32("size", size), a64("offset", offset)]);
        self.list(&mut |it| add_entry(DirEntry { ino: it.ino, offset: it.off, type_: it.typ, name: &it.name }))
    }

    fn readdirplus(
        &self,
        ctx: &Context,
        inode: u64,
        handle: u64,
        size: u32,
        offset: u64,
        add_entry: &mut dyn FnMut(DirEntry, Entry) -> io::Result<usize>,
    ) -> io::Result<()> {
        self.rec(
            "readdirplus",
            Some(ctx),
            vec![a64("nodeid", inode), a64("fh", handle), a32("size", size), a64("offset", offset)],
        );
        self.list(&mut |it| {
            add_entry(DirEntry { ino: it.ino, offset: it.off, type_: it.typ, name: &it.name }, entry_of(&it.entry))
        })
    }

    fn fsyncdir(&self, ctx: &Context, inode: u64, datasync: bool, handle: u64) -> io::Result<()> {
        self.rec("fsyncdir", Some(ctx), vec![a64("nodeid", inode), ab("datasync", datasync), a64("fh", handle)]);
        self.ret(|_| ())
    }

    fn releasedir(&self, ctx: &Context, inode: u64, flags: u32, handle: u64) -> io::Result<()> {
        self.rec("releasedir", Some(ctx), vec![a64("nodeid", inode), a32("flags", flags), a64("fh", handle)]);
        self.ret(|_| ())
    }

    fn access(&self, ctx: &Context, inode: u64, mask: u32) -> io::Result<()> {
        self.rec("access", Some(ctx), vec![a64("nodeid", inode), a32("mask", mask)]);
        self.ret(|_| ())
    }

    fn lseek(&self, ctx: &Context, inode: u64, handle: u64, offset: u64, whence: u32) -> io::Result<u64> {
        self.rec("lseek", Some(ctx), vec![a64("nodeid", inode), a64("fh", handle), a64("offset", offset), a32("whence", whence)]);
        self.ret(|_| LSEEK_OUT)
    }

    fn getlk(&self, ctx: &Context, inode: u64, handle: u64, owner: u64, lock: FileLock, flags: u32) -> io::Result<FileLock> {
        let mut a = vec![a64("nodeid", inode), a64("fh", handle), a64("owner", owner)];
        a.append(&mut lock_args(&lock));
        a.push(a32("lk_flags", flags));
        self.rec("getlk", Some(ctx), a);
        self.ret(|_| FileLock { start: LK_OUT.0, end: LK_OUT.1, lock_type: LK_OUT.2, pid: LK_OUT.3 })
    }

    fn setlk(&self, ctx: &Context, inode: u64, handle: u64, owner: u64, lock: FileLock, flags: u32) -> io::Result<()> {
        let mut a = vec![a64("nodeid", inode), a64("fh", handle), a64("owner", owner)];
        a.append(&mut lock_args(&lock));
        a.push(a32("lk_flags", flags));
        self.rec("setlk", Some(ctx), a);
        self.ret(|_| ())
    }

    fn setlkw(&self, ctx: &Context, inode: u64, handle: u64, owner: u64, lock: FileLock, flags: u32) -> io::Result<()> {
        let mut a = vec![a64("nodeid", inode), a64("fh", handle), a64("owner", owner)];
        a.append(&mut lock_args(&lock));
        a.push(a32("lk_flags", flags));
        self.rec("setlkw", Some(ctx), a);
        self.ret(|_| ())
    }

    fn ioctl(
        &self,
        ctx: &Context,
        inode: u64,
        handle: u64,
        flags: u32,
        cmd: u32,
        data: IoctlData,
        out_size: u32,
    ) -> io::Result<IoctlData<'_>> {
        self.rec(
            "ioctl",
            Some(ctx),
            vec![
                a64("nodeid", inode),
                a64("fh", handle),
                a32("flags", flags),
                a32("cmd", cmd),
                ("in_data", data.data.map(show_bytes).unwrap_or_else(|| "None".to_string())),
                a32("out_size", out_size),
            ],
        );
        self.ret(|v| IoctlData { result: IOCTL_RESULT, data: if v == 0 { Some(IOCTL_OUT_DATA) } else { None } })
    }

    fn bmap(&self, ctx: &Context, inode: u64, block: u64, blocksize: u32) -> io::Result<u64> {
        self.rec("bmap", Some(ctx), vec![a64("nodeid", inode), a64("block", block), a32("blocksize", blocksize)]);
        self.ret(|_| BMAP_OUT)
    }

    fn poll(&self, ctx: &Context, inode: u64, handle: u64, khandle: u64, flags: u32, events: u32) -> io::Result<u32> {
        self.rec(
            "poll",
            Some(ctx),
            vec![a64("nodeid", inode), a64("fh", handle), a64("kh", khandle), a32("flags", flags), a32("events", events)],
        );
        self.ret(|_| POLL_OUT)
    }

    fn notify_reply(&self) -> io::Result<()> {
        self.rec("notify_reply", None, vec![]);
        self.ret(|_| ())
    }

    fn id_remap(&self, ctx: &mut Context) -> io::Result<()> {
        self.rec("id_remap", Some(ctx), vec![]);
        Ok(())
    }

    fn id_remap_with_nodeid(&self, ctx: &mut Context, nodeid: u64) -> io::Result<()> {
        self.rec("id_remap_with_nodeid", Some(ctx), vec![a64("nodeid", nodeid)]);
        ctx.uid = ctx.uid.wrapping_add(REMAP_UID_DELTA);
        ctx.gid = ctx.gid.wrapping_add(REMAP_GID_DELTA);
        Ok(())
    }
}

impl Mock {
    /// the listing protocol of a well behaved file system: offer the entries in order, stop
    /// at the first Ok(0), propagate the first Err
    fn list(&self, offer: &mut dyn FnMut(&DirItem) -> io::Result<usize>) -> io::Result<()> {
        if self.dir.items.is_empty() && self.dir.err_after.is_none() {
            return self.ret(|_| ());
        }
        let mut accepted = 0usize;
        for it in &self.dir.items {
            if let Some((k, e)) = self.dir.err_after {
                if accepted == k {
                    self.note(Returned::Errno(e));
                    return Err(io::Error::from_raw_os_error(e));
                }
            }
            let r = offer(it);
            let a = match &r {
                Ok(0) => Added::Full,
                Ok(n) => Added::Accepted(*n),
                Err(e) => Added::Error(classify(e)),
            };
            if let Ok(mut g) = self.added.lock() {
                g.push(a);
            }
            match r {
                Ok(0) => {
                    self.note(Returned::Ok);
                    return Ok(());
                }
                Ok(_) => accepted += 1,
                Err(e) => {
                    self.note(classify(&e));
                    return Err(e);
                }
            }
        }
        if let Some((k, e)) = self.dir.err_after {
            if accepted == k {
                self.note(Returned::Errno(e));
                return Err(io::Error::from_raw_os_error(e));
            }
        }
        self.note(Returned::Ok);
        Ok(())
    }
}
