//! Minimal JSON value + renderer (serde_json is not part of /repo/Cargo.lock, so it
//! cannot be used offline).
#[derive(Clone, Debug)]
pub enum J {
    Null,
    Bool(bool),
    Int(i128),
    Str(String),
    Arr(Vec<J>),
    Obj(Vec<(String, J)>),
}

pub fn s<T: Into<String>>(v: T) -> J {
    J::Str(v.into())
}
pub fn i<T: Into<i128>>(v: T) -> J {
    J::Int(v.into())
}
pub fn obj(pairs: Vec<(&str, J)>) -> J {
    J::Obj(pairs.into_iter().map(|(k, v)| (k.to_string(), v)).collect())
}
pub fn arr<I: IntoIterator<Item = J>>(it: I) -> J {
    J::Arr(it.into_iter().collect())
}

fn esc(out: &mut String, t: &str) {
    out.push('"');
    for c in t.chars() {
        match c {
            '"' => out.push_str("\\\""),
            '\\' => out.push_str("\\\\"),
            '\n' => out.push_str("\\n"),
            '\r' => out.push_str("\\r"),
            '\t' => out.push_str("\\t"),
            c if (c as u32) < 0x20 => out.push_str(&format!("\\u{:04x}", c as u32)),
            c => out.push(c),
        }
    }
    out.push('"');
}

impl J {
    pub fn render(&self) -> String {
        let mut o = String::new();
        self.write(&mut o);
        o
    }
    fn write(&self, o: &mut String) {
        match self {
            J::Null => o.push_str("null"),
            J::Bool(b) => o.push_str(if *b { "true" } else { "false" }),
            J::Int(v) => o.push_str(&v.to_string()),
            J::Str(t) => esc(o, t),
            J::Arr(a) => {
                o.push('[');
                for (n, v) in a.iter().enumerate() {
                    if n > 0 {
                        o.push(',');
                    }
                    v.write(o);
                }
                o.push(']');
            }
            J::Obj(m) => {
                o.push('{');
                for (n, (k, v)) in m.iter().enumerate() {
                    if n > 0 {
                        o.push(',');
                    }
                    esc(o, k);
                    o.push(':');
                    v.write(o);
                }
                o.push('}');
            }
        }
    }
}
