//! Engine RX: bounded, exhaustive enumeration harness driving fuse-backend-rs through its
//! public API and comparing with executable specifications written from the FUSE protocol
//! (linux/fuse.h) and the property statements of /verif/properties.jsonl.
//!
//!   rx <server|readdir|init|vfs|pt> [--filter SUBSTR] [--seed N] [--property Cxx] [--scenario SUBSTR]
//!
//! prints one JSON object on stdout and exits 0 (failures are data); exit 2 = harness crash.
#![allow(dead_code, clippy::too_many_arguments)]
mod init;
mod json;
mod mockfs;
mod pt;
mod pt_effect;
mod pt_escape;
mod pt_handles;
mod pt_list;
mod pt_refs;
mod pt_seal;
mod readdir;
mod report;
mod server;
mod vfs;
mod wire;

use report::Opts;

fn usage() -> ! {
    eprintln!("usage: rx <server|readdir|init|vfs|pt> [--filter SUBSTR] [--seed N] [--property Cxx] [--scenario SUBSTR]");
    std::process::exit(2);
}

fn main() {
    let args: Vec<String> = std::env::args().skip(1).collect();
    if args.is_empty() {
        usage();
    }
    let group = args[0].clone();
    let mut opts = Opts::default();
    let mut k = 1;
    while k < args.len() {
        let val = args.get(k + 1).cloned();
        match (args[k].as_str(), val) {
            ("--filter", Some(v)) => opts.filter = Some(v),
            ("--seed", Some(v)) => match v.parse::<u64>() {
                Ok(n) => opts.seed = Some(n),
                Err(_) => usage(),
            },
            ("--property", Some(v)) => opts.property = Some(v),
            ("--scenario", Some(v)) => opts.scenario = Some(v),
            _ => usage(),
        }
        k += 2;
    }
    report::install_panic_hook();
    let run = std::panic::catch_unwind(|| match group.as_str() {
        "server" => Some(server::run(&opts)),
        "readdir" => Some(readdir::run(&opts)),
        "init" => Some(init::run(&opts)),
        "vfs" => Some(vfs::run(&opts)),
        "pt" => Some(pt::run(&opts)),
        _ => None,
    });
    match run {
        Ok(Some(rep)) => {
            println!("{}", rep.to_json().render());
        }
        Ok(None) => usage(),
        Err(_) => {
            eprintln!("rx: the harness itself crashed");
            std::process::exit(2);
        }
    }
}
