//! Group `init` (C12): FUSE_INIT through `Server::handle_message`, plus `Vfs::init`
//! with recording backends (the "VFS layer" clause of C12).
use std::any::Any;
use std::io;
use std::sync::{Arc, Mutex};

use fuse_backend_rs::abi::fuse_abi::{FsOptions, OpenOptions};
use fuse_backend_rs::api::filesystem::{Context, Entry, FileSystem};
use fuse_backend_rs::api::{BackendFileSystem, Vfs, VfsOptions};

use crate::json::{i, obj, s, J};
use crate::mockfs::*;
use crate::report::{guarded, hx, permute, Opts, Report, Sink};
use crate::server::{drive, GID, NODEID, PID, UID, UNIQUE};
use crate::wire::{self, op, Buf, InHeader};

pub const BOUND: &str = "FUSE_INIT through Server::handle_message: major in {6,7,8} x minor in {0,4,5,22,23,35,36,38} x flags in {0, ASYNC_READ|BIG_WRITES, MAX_PAGES|ASYNC_READ, all 32 bits except INIT_EXT, INIT_EXT, INIT_EXT|ASYNC_READ|BIG_WRITES, all 32 bits} \
x flags2 in {0, HAS_INODE_DAX(bit 33), all 32 bits} x {16-byte fuse_init_in, 64-byte fuse_init_in} x FileSystem::init result {Ok(want) for want in {0, ASYNC_READ, ASYNC_READ|PERFILE_DAX, PERFILE_DAX|INIT_EXT, BIG_WRITES|MAX_PAGES, all known bits}, Err(EOPNOTSUPP)}, reply capacity 8192; \
Vfs::init: VfsOptions {no_open, no_opendir, killpriv_v2, no_writeback} in all 16 combinations x out_opts in {default, ASYNC_READ|BIG_WRITES} x offered capabilities in {all known, none, all but ZERO_MESSAGE_OPEN, all but ZERO_MESSAGE_OPENDIR, ASYNC_READ only}, one backend mounted before init and one after, followed by a second init and an OPEN/OPENDIR on the first backend's root";

const EPROTO: i32 = 71;
const EOPNOTSUPP: i32 = 95;
const MAX_READAHEAD: u32 = 0x0002_0000;

#[derive(Clone, Debug)]
struct Case {
    major: u32,
    minor: u32,
    flags: u32,
    flags2: u32,
    ext_payload: bool,
    want: Option<u64>,
}

fn known() -> u64 {
    FsOptions::all().bits()
}

fn enumerate() -> Vec<Case> {
    let ext = wire::FUSE_INIT_EXT;
    let base = wire::FUSE_ASYNC_READ | wire::FUSE_BIG_WRITES;
    let flags_set = [0u32, base, wire::FUSE_MAX_PAGES | wire::FUSE_ASYNC_READ, !ext, ext, ext | base, u32::MAX];
    let flags2_set = [0u32, (wire::FUSE_HAS_INODE_DAX_64 >> 32) as u32, u32::MAX];
    let dax = wire::FUSE_HAS_INODE_DAX_64;
    let wants = [
        Some(0u64),
        Some(wire::FUSE_ASYNC_READ as u64),
        Some(wire::FUSE_ASYNC_READ as u64 | dax),
        Some(dax | ext as u64),
        Some((wire::FUSE_BIG_WRITES | wire::FUSE_MAX_PAGES) as u64),
        Some(known()),
        None,
    ];
    let mut v = Vec::new();
    for major in [6u32, 7, 8] {
        for minor in [0u32, 4, 5, 22, 23, 35, 36, 38] {
            for flags in flags_set {
                for ext_payload in [false, true] {
                    for flags2 in flags2_set {
                        if !ext_payload && flags2 != 0 {
                            continue;
                        }
                        for want in wants {
                            v.push(Case { major, minor, flags, flags2, ext_payload, want });
                        }
                    }
                }
            }
        }
    }
    v
}

fn describe(c: &Case) -> J {
    obj(vec![
        ("opcode", i(op::INIT as i128)),
        ("major", i(c.major as i128)),
        ("minor", i(c.minor as i128)),
        ("max_readahead", s(hx(MAX_READAHEAD))),
        ("flags", s(hx(c.flags))),
        ("init_in_bytes", i(if c.ext_payload { 64 } else { 16 })),
        ("flags2", if c.ext_payload { s(hx(c.flags2)) } else { J::Null }),
        (
            "fs_init_returns",
            s(match c.want {
                Some(w) => format!("Ok(FsOptions {})", hx(w)),
                None => "Err(from_raw_os_error(95))".to_string(),
            }),
        ),
        ("reply_capacity", i(8192)),
        ("rerun", s("python3 /verif/rx/run.py init --src <tree> --raw --filter Server::init")),
    ])
}

pub fn run(opts: &Opts) -> Report {
    let mut rep = Report::new("init", BOUND, opts);
    if opts.selects("init Server::init") {
        run_server_init(opts, &mut rep);
    }
    if opts.selects("init Vfs::init mount") {
        run_vfs_init(opts, &mut rep);
    }
    rep
}

fn run_server_init(opts: &Opts, rep: &mut Report) {
    let mut sink = Sink::new();
    rep.notes.push(format!("reply sink: {}", sink.kind()));
    let mut cases = enumerate();
    permute(&mut cases, opts.seed);
    let ext = wire::FUSE_INIT_EXT;
    for c in &cases {
        // struct fuse_init_in { major, minor, max_readahead, flags, flags2, unused[11] }
        let mut b = Buf::new();
        b.u32(c.major).u32(c.minor).u32(MAX_READAHEAD).u32(c.flags);
        if c.ext_payload {
            b.u32(c.flags2);
            for _ in 0..11 {
                b.u32(0);
            }
        }
        let hdr = InHeader { len: (wire::IN_HEADER + b.0.len()) as u32, opcode: op::INIT, unique: UNIQUE, nodeid: NODEID, uid: UID, gid: GID, pid: PID };
        let mut req = wire::request(&hdr, &b.0);
        let mock = Arc::new(Mock {
            want: c.want.unwrap_or(0),
            ..Mock::new(match c.want {
                Some(_) => Plan::Ok(0),
                None => Plan::Errno(EOPNOTSUPP),
            })
        });
        let out = drive(&mut sink, mock, &mut req, 8192);
        rep.case(&format!("init|{}|{}|{:#x}|{}|{:#x}|{:?}", c.major, c.minor, c.flags, c.ext_payload, c.flags2, c.want));
        let input = || describe(c);
        rep.sample(input);
        let function = "Server::handle_message -> init";

        if let Some(p) = &out.panic {
            rep.fail("C01.init.panic", function, input, "no panic".into(), format!("panic: {p}"));
            continue;
        }
        let inits: Vec<&Call> = out.calls.iter().filter(|k| k.op == "init").collect();
        let others: Vec<&Call> = out.calls.iter().filter(|k| k.op != "init" && !k.op.starts_with("id_remap")).collect();
        if !others.is_empty() {
            rep.fail("C02.init.call", function, input, "no operation other than init".into(), others.iter().map(|k| k.show()).collect::<Vec<_>>().join("; "));
            continue;
        }
        if out.packets.len() != 1 {
            rep.fail("C12.init.reply.count", function, input, "exactly one reply to INIT".into(), format!("{} write calls; handle_message returned {}", out.packets.len(), out.result));
            continue;
        }
        let msg = &out.packets[0];
        let Some(h) = wire::out_header(msg) else {
            rep.fail("C12.init.reply.frame", function, input, "a fuse_out_header".into(), format!("{} bytes", msg.len()));
            continue;
        };
        if h.len as usize != msg.len() || h.unique != UNIQUE {
            rep.fail("C12.init.reply.frame", function, input, "len == bytes written, unique == request's".into(), format!("len={} bytes={} unique={}", h.len, msg.len(), hx(h.unique)));
            continue;
        }
        let payload = &msg[wire::OUT_HEADER..];

        if c.major < 7 {
            // the protocol prescribes: unsupported major -> the connection is refused with EPROTO
            if h.error != -EPROTO || !inits.is_empty() {
                rep.fail(
                    "C12.init.major.old",
                    function,
                    input,
                    "major < 7: error reply -71 (EPROTO), FileSystem::init not called".into(),
                    format!("error={} init calls={}", h.error, inits.len()),
                );
            }
            continue;
        }
        if c.major > 7 {
            // the server answers with its own major (7) and waits for the kernel to send a 7.x INIT
            let o = wire::init_out(payload);
            if h.error != 0 || !inits.is_empty() || o.map(|o| o.major) != Some(7) {
                rep.fail(
                    "C12.init.major.new",
                    function,
                    input,
                    "major > 7: success reply with major = 7, FileSystem::init not called".into(),
                    format!("error={} init calls={} decoded={:?}", h.error, inits.len(), o),
                );
            }
            continue;
        }

        // major == 7: what the client offered
        let mut offered = c.flags as u64;
        if c.flags & ext != 0 {
            if c.ext_payload {
                offered |= (c.flags2 as u64) << 32;
            } else {
                offered &= !(ext as u64);
            }
        }
        let capable = offered & known();
        let want_call = Call { op: "init", args: vec![a64("capable", capable)] };
        if inits.len() != 1 || *inits[0] != want_call {
            rep.fail(
                "C12.init.capable",
                function,
                input,
                format!("exactly one {} [flags | flags2<<32 only with FUSE_INIT_EXT and the 64-byte request; INIT_EXT dropped without it; restricted to the bits FsOptions knows]", want_call.show()),
                inits.iter().map(|k| k.show()).collect::<Vec<_>>().join("; "),
            );
            continue;
        }
        let Some(want) = c.want else {
            if h.error != -EOPNOTSUPP || !payload.is_empty() {
                rep.fail("C03.init.reply.errno", function, input, format!("error reply {}", -EOPNOTSUPP), format!("error={} payload {} bytes", h.error, payload.len()));
            }
            continue;
        };
        if h.error != 0 {
            rep.fail("C12.init.reply", function, input, "success reply".into(), format!("error {}", h.error));
            continue;
        }
        let want_len = if c.minor < 5 {
            8
        } else if c.minor < 23 {
            24
        } else {
            64
        };
        if payload.len() != want_len {
            rep.fail(
                "C12.init.reply.size",
                function,
                input,
                format!("fuse_init_out of {want_len} bytes for minor {} (8 before 7.5, 24 before 7.23, 64 since)", c.minor),
                format!("{} bytes", payload.len()),
            );
            continue;
        }
        let o = wire::init_out(payload).unwrap();
        if o.major != 7 {
            rep.fail("C12.init.reply.major", function, input, "major = 7".into(), format!("major = {}", o.major));
            continue;
        }
        if let Some(flags) = o.flags {
            // how the kernel reads the reply (process_init_reply): flags2 counts only together with FUSE_INIT_EXT
            let mut kview = flags as u64;
            if flags & ext != 0 {
                kview |= (o.flags2.unwrap_or(0) as u64) << 32;
            }
            let mut expect = capable & want;
            // the marker itself is transport, not a feature
            kview &= !(ext as u64);
            expect &= !(ext as u64);
            if o.flags2.is_none() {
                // a 24 byte reply has no flags2 field: only the low word can be conveyed
                expect &= 0xffff_ffff;
            }
            if kview != expect {
                rep.fail(
                    "C12.init.enabled",
                    function,
                    input,
                    format!("features the kernel will honour = offered & wanted = {} (capable {} & want {})", hx(expect), hx(capable), hx(want)),
                    format!("{}   [reply flags={} flags2={}; flags2 only counts with FUSE_INIT_EXT in flags]", hx(kview), hx(flags), o.flags2.map(hx).unwrap_or_else(|| "-".into())),
                );
                continue;
            }
            let unknown = kview & !offered;
            if unknown != 0 {
                rep.fail("C12.init.enabled", function, input, "no feature enabled that the client did not offer".into(), format!("extra bits {}", hx(unknown)));
                continue;
            }
        }
        if let Some(mw) = o.max_write {
            if !(4096..=(1 << 20)).contains(&mw) {
                rep.fail("C12.init.max_write", function, input, "max_write in 4096..=1048576".into(), format!("max_write = {mw}"));
                continue;
            }
        }
        if let Some(ra) = o.max_readahead {
            if ra > MAX_READAHEAD {
                rep.fail("C12.init.max_readahead", function, input, format!("max_readahead <= offered {}", hx(MAX_READAHEAD)), format!("{}", hx(ra)));
                continue;
            }
        }
    }
}

// --------------------------------------------------------------------------------------
// Vfs::init
// --------------------------------------------------------------------------------------

#[derive(Default)]
struct Log {
    inits: Vec<(usize, u64)>,
    opens: Vec<(usize, &'static str)>,
}

struct Backend {
    id: usize,
    log: Arc<Mutex<Log>>,
}

impl FileSystem for Backend {
    type Inode = u64;
    type Handle = u64;
    fn init(&self, capable: FsOptions) -> io::Result<FsOptions> {
        if let Ok(mut g) = self.log.lock() {
            g.inits.push((self.id, capable.bits()));
        }
        Ok(capable)
    }
    fn open(&self, _c: &Context, _i: u64, _f: u32, _ff: u32) -> io::Result<(Option<u64>, OpenOptions, Option<u32>)> {
        if let Ok(mut g) = self.log.lock() {
            g.opens.push((self.id, "open"));
        }
        Ok((Some(1), OpenOptions::empty(), None))
    }
    fn opendir(&self, _c: &Context, _i: u64, _f: u32) -> io::Result<(Option<u64>, OpenOptions)> {
        if let Ok(mut g) = self.log.lock() {
            g.opens.push((self.id, "opendir"));
        }
        Ok((Some(1), OpenOptions::empty()))
    }
}

impl BackendFileSystem for Backend {
    fn mount(&self) -> io::Result<(Entry, u64)> {
        Ok((Entry { inode: 1, ..Default::default() }, 100))
    }
    fn as_any(&self) -> &dyn Any {
        self
    }
}

fn run_vfs_init(opts: &Opts, rep: &mut Report) {
    let all = known();
    let zmo = FsOptions::ZERO_MESSAGE_OPEN.bits();
    let zmod = FsOptions::ZERO_MESSAGE_OPENDIR.bits();
    let offered_set = [all, 0, all & !zmo, all & !zmod, wire::FUSE_ASYNC_READ as u64];
    let mut cases = Vec::new();
    for sw in 0..16u32 {
        for small_out in [false, true] {
            for offered in offered_set {
                cases.push((sw, small_out, offered));
            }
        }
    }
    permute(&mut cases, opts.seed);
    for (sw, small_out, offered) in cases {
        let mut vo = VfsOptions::default();
        vo.no_open = sw & 1 != 0;
        vo.no_opendir = sw & 2 != 0;
        vo.killpriv_v2 = sw & 4 != 0;
        vo.no_writeback = sw & 8 != 0;
        if small_out {
            vo.out_opts = FsOptions::ASYNC_READ | FsOptions::BIG_WRITES;
        }
        let configured_out = vo.out_opts.bits();
        let input = || {
            obj(vec![
                ("api", s("Vfs::new(opts); mount(backend0, \"/m0\"); init(offered); mount(backend1, \"/m1\"); init(offered) again; open/opendir on backend0's root")),
                ("no_open", J::Bool(sw & 1 != 0)),
                ("no_opendir", J::Bool(sw & 2 != 0)),
                ("killpriv_v2", J::Bool(sw & 4 != 0)),
                ("no_writeback", J::Bool(sw & 8 != 0)),
                ("out_opts", s(hx(configured_out))),
                ("offered", s(hx(offered))),
                ("rerun", s("python3 /verif/rx/run.py init --src <tree> --raw --filter Vfs::init")),
            ])
        };
        let function = "Vfs::init";
        let log = Arc::new(Mutex::new(Log::default()));
        let l2 = log.clone();
        let r = guarded(move || {
            let vfs = Vfs::new(vo);
            let m0 = vfs.mount(Box::new(Backend { id: 0, log: l2.clone() }), "/m0");
            let first = vfs.init(FsOptions::from_bits_truncate(offered));
            let m1 = vfs.mount(Box::new(Backend { id: 1, log: l2.clone() }), "/m1");
            let second = vfs.init(FsOptions::from_bits_truncate(offered));
            let ctx = Context { uid: 0, gid: 0, pid: 1 };
            // the root of backend0 as the client learns it
            let root0 = vfs.lookup(&ctx, 1u64.into(), std::ffi::CStr::from_bytes_with_nul(b"m0\0").unwrap()).map(|e| e.inode);
            let (mut open_r, mut opendir_r) = (None, None);
            if let Ok(ino) = root0 {
                open_r = Some(vfs.open(&ctx, ino.into(), 0, 0).map(|_| ()).map_err(|e| e.raw_os_error()));
                opendir_r = Some(vfs.opendir(&ctx, ino.into(), 0).map(|_| ()).map_err(|e| e.raw_os_error()));
            }
            (m0.is_ok(), first.map(|f| f.bits()).map_err(|e| format!("{e:?}")), m1.is_ok(), second.is_ok(), root0.is_ok(), open_r, opendir_r)
        });
        rep.case(&format!("vfsinit|{sw}|{small_out}|{offered:#x}"));
        rep.sample(input);
        let (m0, first, m1, second_ok, root_ok, open_r, opendir_r) = match r {
            Err(p) => {
                rep.fail("C12.vfs.init.panic", function, input, "no panic".into(), format!("panic: {p}"));
                continue;
            }
            Ok(v) => v,
        };
        if !m0 || !m1 || !root_ok {
            rep.notes.push(format!("vfs init scenario sw={sw}: mount/lookup refused (m0={m0} m1={m1} lookup={root_ok}); not judged"));
            continue;
        }
        let negotiated = match first {
            Err(e) => {
                rep.fail("C12.vfs.init.result", function, input, "the first Vfs::init succeeds".into(), e);
                continue;
            }
            Ok(b) => b,
        };
        if negotiated & !(offered & configured_out) != 0 {
            rep.fail(
                "C12.vfs.init.result",
                function,
                input,
                format!("negotiated set within offered & configured out_opts = {}", hx(offered & configured_out)),
                format!("negotiated {}", hx(negotiated)),
            );
            continue;
        }
        if second_ok {
            rep.fail("C12.vfs.init.twice", function, input, "a second Vfs::init is refused".into(), "second init returned Ok".into());
            continue;
        }
        let (inits, opens) = {
            let g = log.lock().unwrap();
            (g.inits.clone(), g.opens.clone())
        };
        for id in 0..2usize {
            let mine: Vec<u64> = inits.iter().filter(|(b, _)| *b == id).map(|(_, o)| *o).collect();
            if mine.len() != 1 {
                rep.fail(
                    "C12.vfs.init.backend_once",
                    function,
                    input,
                    format!("backend{id} is initialised exactly once"),
                    format!("{} init calls", mine.len()),
                );
                break;
            }
            if mine[0] & !negotiated != 0 {
                rep.fail(
                    "C12.vfs.init.backend_opts",
                    if id == 0 { "Vfs::init" } else { "Vfs::mount" },
                    input,
                    format!("backend{id} (mounted {}) is told only features that were negotiated ({})", if id == 0 { "before init" } else { "after init" }, hx(negotiated)),
                    format!("backend{id}.init({}) - not negotiated: {}", hx(mine[0]), hx(mine[0] & !negotiated)),
                );
                break;
            }
        }
        // no-open / no-opendir behaviour only when the feature is part of the negotiated set
        if negotiated & zmo == 0 {
            if open_r != Some(Ok(())) || !opens.iter().any(|(b, o)| *b == 0 && *o == "open") {
                rep.fail(
                    "C12.vfs.init.no_open",
                    "Vfs::open",
                    input,
                    "ZERO_MESSAGE_OPEN was not negotiated: OPEN is served by the backend".into(),
                    format!("open -> {open_r:?}, backend calls {opens:?}"),
                );
                continue;
            }
        }
        if negotiated & zmod == 0 {
            if opendir_r != Some(Ok(())) || !opens.iter().any(|(b, o)| *b == 0 && *o == "opendir") {
                rep.fail(
                    "C12.vfs.init.no_opendir",
                    "Vfs::opendir",
                    input,
                    "ZERO_MESSAGE_OPENDIR was not negotiated: OPENDIR is served by the backend".into(),
                    format!("opendir -> {opendir_r:?}, backend calls {opens:?}"),
                );
                continue;
            }
        }
    }
}
