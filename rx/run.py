#!/usr/bin/env python3
"""Engine RX driver: build the enumeration harness (/verif/rx/crate) against a
fuse-backend-rs tree, run one or more groups and turn the JSON of the `rx` binary into
result dicts for the /verif framework.

    from run import run_bounded, search
    run_bounded("C03", ["server", "readdir"], "/repo", "full")  -> [ {...}, {...} ]
    search("C02", {"obligation": "C02.write.args", "function": "write"}, "/repo", 0) -> witness | None

CLI:  python3 /verif/rx/run.py <group> [<group> ...] [--src DIR] [--pid P] [--filter S] [--seed N]

Groups:  server (C01 C02 C03)   readdir (C03 C16)   init (C12)   vfs (C07 C14)
         pt (C18 C15 C08 C16 C06 C05: the real PassthroughFs on a temporary directory)

RX results are BOUNDED: status "ok" means "no mismatch inside the enumeration bound"
(the bound is in the `bounded` field) and must never be counted as proved.
Statuses: "ok" | "fail" | "tool-error". Build problems, timeouts, a crash of the harness
itself or unparsable output are always "tool-error", never failures of the library.
"""
import argparse
import fcntl
import json
import os
import re
import shutil
import signal
import subprocess
import sys
import time

RX_DIR = os.path.dirname(os.path.abspath(__file__))
CRATE_SRC = os.path.join(RX_DIR, "crate")
BUILD = "/verif/build/rx"
CRATE_OUT = os.path.join(BUILD, "crate")
PKG_SHADOW = os.path.join(BUILD, "pkg")
TARGET_DIR = os.path.join(BUILD, "target")
FALLBACK_PKG = "/repo"
BIN = os.path.join(TARGET_DIR, "release", "rx")
TIMEOUT_S = 10 * 60

GROUPS = {
    "server": ["C01", "C02", "C03"],
    "readdir": ["C03", "C16", "C01", "C02"],
    "init": ["C12", "C01", "C02", "C03"],
    "vfs": ["C07", "C14"],
    "pt": ["C18", "C15", "C08", "C16", "C06", "C05"],
}
DEFAULT_PID = {"server": "C02", "readdir": "C03", "init": "C12", "vfs": "C07", "pt": "C18"}

ASSUMPTIONS = {
    "server": [
        "fusedev transport only: one contiguous request buffer, FuseDevWriter on a datagram socket pair (one packet per write call)",
        "one Server and one mock FileSystem per request; default cargo features of fuse-backend-rs (no virtiofs, no async-io)",
        "the mock returns truthful byte counts (read returns exactly the number of bytes it wrote)",
        "release profile with debug-assertions and overflow-checks enabled",
    ],
    "readdir": [
        "the file system offers entries in order, stops at the first Ok(0) and propagates the first Err of add_entry",
        "fusedev transport only; reply capacities size+15, size+16 and 8192",
    ],
    "init": [
        "the set of feature bits the library can express (FsOptions::all()) is taken from the library",
        "kernel view of the reply as in fs/fuse/inode.c process_init_reply: flags2 only counts together with FUSE_INIT_EXT",
    ],
    "vfs": [
        "backends number their directory entries consistently (dirent.ino == entry.inode == attr.st_ino)",
        "at most 3 mounts per history: no fs-index wrap-around, no slot reuse",
        "requests are issued as Server::handle_message does: id_remap_with_nodeid(ctx, header nodeid) and then the operation",
        "owner ids of pseudo directories are not judged",
    ],
    "pt": [
        "the exported directory lives on the file system of std::env::temp_dir() (ext4 in the sandbox): fallocate modes, d_off values and file handles are those of that file system",
        "caller uid/gid 0, one thread; nothing but the harness changes the export while a scenario runs",
        "scenario directories are reset to their layout (verified by kind, bytes, mode, owner, link count) and reused by later scenarios; the PassthroughFs instance is new for every scenario",
        "C18: 'stays within the current size' = byte range inside [0, size) and not a truncating open/create or SIZE request; errno of a failing fallocate is not compared with the unsealed twin",
        "C15: descriptors are counted in /proc/self/fd of the harness process; no descriptor-allocation faults (EMFILE) are injected",
        "C06: hostile names and symlink targets that denote real system objects are only looked up, never given to a mutating request",
    ],
}

# Rust function name (as carried by a VX failure) -> groups that exercise it
SERVER_OPS = {
    "lookup", "forget", "getattr", "setattr", "readlink", "symlink", "mknod", "mkdir", "unlink", "rmdir", "rename", "rename2",
    "do_rename", "link", "open", "read", "write", "statfs", "release", "fsync", "setxattr", "getxattr", "listxattr", "removexattr",
    "flush", "opendir", "releasedir", "fsyncdir", "getlk", "setlk", "setlkw", "access", "create", "interrupt", "bmap", "destroy",
    "ioctl", "poll", "notify_reply", "batch_forget", "fallocate", "lseek",
}
GENERIC_SERVER_FNS = {
    "handle_message", "reply_ok", "do_reply_error", "reply_error", "reply_error_explicit", "handle_attr_result", "get_message_body",
    "extract_two_cstrs", "bytes_to_cstr", "encode_io_error_kind", "from", "into", "with_flags", "remap_ctx_ids", "new", "context",
    "commit", "write", "write_vectored", "check_available_space", "split_at",
}
READDIR_FNS = {"readdir", "readdirplus", "do_readdir", "add_dirent"}
VFS_FNS = {
    "lookup_pseudo", "id_remap_with_nodeid", "id_remap", "mount", "umount", "mount_with_id_mapping", "insert_mount_locked",
    "get_real_rootfs", "get_fs_by_idx", "convert_inode", "convert_entry", "convert_attr", "convert_backend_entry", "remap_attr_id",
    "remap_id", "get_effective_id_mapping", "allocate_fs_idx", "restore_mount",
}
# functions of src/passthrough reached by the pt group (PassthroughFs through the FileSystem trait)
PT_FNS = {
    "open_inode", "check_fd_flags", "skip_to_cookie", "last_cookie_in_buf", "consume_cached_cookie", "cache_cookie", "do_readdir", "do_open",
    "do_getattr", "do_unlink", "get_dirdata", "get_data", "do_lookup", "forget_one", "do_release", "validate_path_component", "seal_size_check",
    "get_writeback_open_flags", "allocate_inode", "import", "open_file_and_handle", "to_openable_handle", "create_file_excl", "reopen_fd_through_proc",
    "is_safe_inode", "get", "release", "insert", "remove", "clear", "set_cookie", "remove_cookie", "get_alt", "get_alt_locked", "into_openable",
    "lookup", "forget", "getattr", "setattr", "open", "create", "read", "write", "fallocate", "release", "opendir", "readdir", "readdirplus", "releasedir",
    "mkdir", "mknod", "unlink", "rmdir", "rename", "symlink", "link", "readlink", "fsync", "destroy", "init",
}
PT_PIDS = ("C18", "C15", "C08", "C06", "C05")
# filter (= label prefix of the pt scenarios) per property
PT_FILTER = {"C18": "C18 ", "C15": "C15 ", "C08": "C08 ", "C16": "C16 ", "C06": "C06 ", "C05": "C05 "}

# C07/C14 obligations of VX name the Vfs method; the same method names exist on the server side
VFS_METHOD_FNS = {"lookup", "getattr", "setattr", "readdir", "readdirplus", "rename", "link", "mkdir", "forget", "create", "mknod", "symlink"}


class ToolError(Exception):
    pass


# --------------------------------------------------------------------------
# build
# --------------------------------------------------------------------------

def package_root(src):
    """directory usable as a cargo path dependency for the tree `src` (same idiom as /verif/kx):
    a full checkout is used as is; a tree that only has src/ gets a shadow package under
    /verif/build/rx/pkg (src symlink + Cargo.toml / build.rs / Cargo.lock copied from /repo)."""
    src = os.path.abspath(src)
    if os.path.isfile(os.path.join(src, "Cargo.toml")):
        return src
    if not os.path.isdir(os.path.join(src, "src")):
        raise ToolError("%s has neither Cargo.toml nor src/" % src)
    os.makedirs(PKG_SHADOW, exist_ok=True)
    link = os.path.join(PKG_SHADOW, "src")
    if os.path.islink(link) or os.path.exists(link):
        os.remove(link)
    os.symlink(os.path.join(src, "src"), link)
    toml = open(os.path.join(FALLBACK_PKG, "Cargo.toml")).read()
    toml = re.sub(r"(\[workspace\]\s*\n)members\s*=\s*\[[^\]]*\]", r"\1members = []", toml)
    _write_if_changed(os.path.join(PKG_SHADOW, "Cargo.toml"), toml)
    for fn in ("build.rs", "Cargo.lock"):
        p = os.path.join(FALLBACK_PKG, fn)
        if os.path.isfile(p):
            _write_if_changed(os.path.join(PKG_SHADOW, fn), open(p).read())
    return PKG_SHADOW


def _write_if_changed(path, text):
    try:
        if open(path).read() == text:
            return
    except OSError:
        pass
    with open(path, "w") as f:
        f.write(text)


def refresh_crate(src):
    """copy /verif/rx/crate to /verif/build/rx/crate with the dependency path filled in
    (files are only rewritten when their content changes, so cargo stays incremental)"""
    pkg = package_root(src)
    os.makedirs(os.path.join(CRATE_OUT, "src"), exist_ok=True)
    os.makedirs(os.path.join(CRATE_OUT, ".cargo"), exist_ok=True)
    toml = open(os.path.join(CRATE_SRC, "Cargo.toml")).read().replace("@SRC@", pkg)
    _write_if_changed(os.path.join(CRATE_OUT, "Cargo.toml"), toml)
    _write_if_changed(os.path.join(CRATE_OUT, ".cargo", "config.toml"), "[net]\noffline = true\n")
    wanted = set()
    for fn in sorted(os.listdir(os.path.join(CRATE_SRC, "src"))):
        if fn.endswith(".rs"):
            wanted.add(fn)
            _write_if_changed(os.path.join(CRATE_OUT, "src", fn), open(os.path.join(CRATE_SRC, "src", fn)).read())
    for fn in os.listdir(os.path.join(CRATE_OUT, "src")):
        if fn not in wanted:
            os.remove(os.path.join(CRATE_OUT, "src", fn))
    lock = None
    for cand in (os.path.join(pkg, "Cargo.lock"), os.path.join(FALLBACK_PKG, "Cargo.lock")):
        if os.path.isfile(cand):
            lock = cand
            break
    if lock is None:
        raise ToolError("no Cargo.lock found for offline dependency resolution")
    # keep the lock file cargo completed for the harness crate as long as the source lock is unchanged
    stamp = os.path.join(CRATE_OUT, ".lock-origin")
    origin = "%s %s" % (lock, _digest(lock))
    try:
        same = open(stamp).read() == origin and os.path.isfile(os.path.join(CRATE_OUT, "Cargo.lock"))
    except OSError:
        same = False
    if not same:
        shutil.copyfile(lock, os.path.join(CRATE_OUT, "Cargo.lock"))
        with open(stamp, "w") as f:
            f.write(origin)
    return pkg


def _digest(path):
    import hashlib
    return hashlib.sha256(open(path, "rb").read()).hexdigest()


def _run(cmd, cwd, timeout, env_extra=None):
    """run cmd in its own process group; returns (rc, stdout, stderr, wall_s, timed_out)"""
    env = dict(os.environ)
    env["CARGO_NET_OFFLINE"] = "true"
    env["CARGO_TARGET_DIR"] = TARGET_DIR
    env.pop("RUSTFLAGS", None)
    if env_extra:
        env.update(env_extra)
    t0 = time.time()
    try:
        p = subprocess.Popen(cmd, cwd=cwd, env=env, stdout=subprocess.PIPE, stderr=subprocess.PIPE, text=True,
                             errors="replace", start_new_session=True)
    except OSError as e:
        return 127, "", "cannot start %s: %s" % (cmd[0], e), 0.0, False
    try:
        out, err = p.communicate(timeout=timeout)
        return p.returncode, out, err, time.time() - t0, False
    except subprocess.TimeoutExpired:
        try:
            os.killpg(p.pid, signal.SIGKILL)
        except OSError:
            pass
        try:
            out, err = p.communicate(timeout=30)
        except Exception:
            out, err = "", ""
        return -9, out or "", err or "", time.time() - t0, True


class _BuildLock:
    def __enter__(self):
        os.makedirs(BUILD, exist_ok=True)
        self.f = open(os.path.join(BUILD, ".lock"), "w")
        fcntl.flock(self.f, fcntl.LOCK_EX)
        return self

    def __exit__(self, *a):
        fcntl.flock(self.f, fcntl.LOCK_UN)
        self.f.close()


def tree_digest(pkg):
    """content digest of everything that determines the compiled library (src/**, Cargo.toml, build.rs)"""
    import hashlib
    h = hashlib.sha256()
    files = []
    for root, dirs, names in os.walk(os.path.join(pkg, "src"), followlinks=True):
        dirs.sort()
        for n in sorted(names):
            files.append(os.path.join(root, n))
    for extra in ("Cargo.toml", "build.rs"):
        if os.path.isfile(os.path.join(pkg, extra)):
            files.append(os.path.join(pkg, extra))
    for f in files:
        try:
            data = open(f, "rb").read()
        except OSError:
            continue
        h.update(os.path.relpath(f, pkg).encode())
        h.update(b"\0")
        h.update(hashlib.sha256(data).digest())
    return h.hexdigest()


def _build_locked(src, timeout):
    """refresh + cargo build; the caller holds the build lock. Raises ToolError.

    cargo decides by mtime whether a path dependency must be recompiled. A tree whose content
    changed without newer mtimes (shadow symlink re-pointed to another tree, files restored by
    tar/git with old time stamps) would silently reuse a stale library, so the content digest
    of the tree is compared with the one of the last successful build of that package path and
    the library is cleaned when they differ."""
    pkg = refresh_crate(src)
    digest = tree_digest(pkg)
    stamps_path = os.path.join(BUILD, "digests.json")
    try:
        stamps = json.load(open(stamps_path))
    except (OSError, ValueError):
        stamps = {}
    if stamps.get(pkg) != digest:
        stamps.pop(pkg, None)
        with open(stamps_path, "w") as f:
            json.dump(stamps, f)
        _run(["cargo", "clean", "--release", "--offline", "-p", "fuse-backend-rs"], CRATE_OUT, 120)
    cmd = ["cargo", "build", "--release", "--offline", "--quiet"]
    rc, out, err, wall, timed_out = _run(cmd, CRATE_OUT, timeout)
    if timed_out:
        raise ToolError("cargo build timed out after %d s" % timeout)
    if rc != 0:
        tail = "\n".join((err or out).strip().splitlines()[-40:])
        raise ToolError("cargo build failed (rc %d) for source tree %s:\n%s" % (rc, src, tail))
    if not os.path.isfile(BIN):
        raise ToolError("cargo build succeeded but %s is missing" % BIN)
    stamps[pkg] = digest
    with open(stamps_path, "w") as f:
        json.dump(stamps, f)
    return wall


def build(src, timeout=TIMEOUT_S):
    """-> (path of the rx binary, build wall seconds). Raises ToolError."""
    with _BuildLock():
        return BIN, _build_locked(src, timeout)


def run_group(group, src, pid=None, flt=None, seed=None, scenario=None, timeout=TIMEOUT_S):
    """build + run one group -> (parsed JSON, checker_cmd, wall_s). Raises ToolError."""
    if group not in GROUPS:
        raise ToolError("unknown group %r (known: %s)" % (group, ", ".join(sorted(GROUPS))))
    t0 = time.time()
    # build and run under one lock: a concurrent build for another tree must not replace the binary mid-run
    with _BuildLock():
        _build_locked(src, timeout)
        args = [BIN, group]
        if flt:
            args += ["--filter", flt]
        if seed is not None:
            args += ["--seed", str(int(seed))]
        if pid:
            args += ["--property", pid]
        if scenario:
            args += ["--scenario", scenario]
        left = max(30, timeout - (time.time() - t0))
        rc, out, err, _w, timed_out = _run(args, BUILD, left)
    checker_cmd = "python3 %s %s --src %s%s%s%s" % (
        os.path.join(RX_DIR, "run.py"), group, src, " --pid %s" % pid if pid else "", " --filter %s" % flt if flt else "",
        " --seed %d" % seed if seed is not None else "")
    if timed_out:
        raise ToolError("rx %s timed out after %d s" % (group, timeout))
    if rc != 0:
        raise ToolError("rx %s exited with %d (harness crash): %s" % (group, rc, (err or out).strip()[-2000:]))
    try:
        data = json.loads(out)
    except ValueError as e:
        raise ToolError("rx %s printed unparsable output (%s): %s" % (group, e, out[:500]))
    for key in ("group", "cases", "distinct", "bound", "failures"):
        if key not in data:
            raise ToolError("rx %s output lacks %r" % (group, key))
    return data, checker_cmd, time.time() - t0


# --------------------------------------------------------------------------
# framework interface
# --------------------------------------------------------------------------

def _failure_dict(f):
    rendered = "input:    %s\nexpected: %s\nobserved: %s" % (json.dumps(f.get("input"), sort_keys=True), f.get("expected"), f.get("observed"))
    return {
        "obligation": f["obligation"],
        "tags": [f["obligation"]],
        "generic_tags": [],
        "props": [f["property"]],
        "kind": "bounded replay mismatch",
        "function": f.get("function") or "Server::handle_message",
        "fn_key": None,
        "site": {"file": None, "line": None, "text": "%s: expected %s" % (f["obligation"], (f.get("expected") or "")[:160])},
        "rendered": rendered,
        "witness": {"input": f.get("input"), "expected": f.get("expected"), "observed": f.get("observed"), "obligation": f["obligation"]},
    }


def _tool_error(group, reason, wall, cmd=""):
    return {
        "harness": "rx:%s" % group, "status": "tool-error", "reason": reason, "checks": 0, "failed": 0, "wall_s": round(wall, 2),
        "solver_ms": 0, "checker_cmd": cmd, "bounded": "not run (tool error); intended bound: see /verif/rx/README.md, group %s" % group,
        "assumptions": ASSUMPTIONS.get(group, []), "samples": [], "failures": [],
    }


def run_bounded(pid, groups, src, tier="full"):
    """one result dict per group; only failures whose property == pid are returned"""
    results = []
    for group in groups:
        t0 = time.time()
        try:
            data, cmd, wall = run_group(group, src, pid=pid)
        except ToolError as e:
            results.append(_tool_error(group, str(e), time.time() - t0, "python3 %s %s --src %s --pid %s" % (os.path.join(RX_DIR, "run.py"), group, src, pid)))
            continue
        except Exception as e:  # never let a driver bug look like a library failure
            results.append(_tool_error(group, "driver exception: %r" % (e,), time.time() - t0))
            continue
        bound = (data.get("bound") or "").strip()
        if not bound or int(data.get("cases") or 0) <= 0:
            results.append(_tool_error(group, "rx %s ran no case or reported no bound (cases=%r)" % (group, data.get("cases")), wall, cmd))
            continue
        fails = [_failure_dict(f) for f in data["failures"] if f.get("property") == pid]
        if not fails and int(data.get("tool_errors") or 0) > 0:
            # scenarios the harness could not run (setup problem, panic): never "ok", never a failure
            notes = [n for n in (data.get("notes") or []) if n.startswith("tool-error")]
            results.append(_tool_error(group, "rx %s: %d scenario(s) could not be run: %s" % (group, data["tool_errors"], "; ".join(notes[:3])), wall, cmd))
            continue
        total = int(data.get("failure_total") or len(fails))
        status = "fail" if fails else "ok"
        reason = ("%d mismatching executions for %s inside the bound (first %d shown)" % (total, pid, len(fails))) if fails else \
            "no mismatch in %d executions (%d distinct shapes) - BOUNDED, not a proof" % (data["cases"], data["distinct"])
        results.append({
            "harness": "rx:%s" % group, "status": status, "reason": reason, "checks": int(data["cases"]), "failed": total if fails else 0,
            "wall_s": round(wall, 2), "solver_ms": 0, "checker_cmd": cmd, "bounded": bound, "assumptions": ASSUMPTIONS.get(group, []),
            "samples": (data.get("samples") or [])[:3], "failures": fails, "distinct": int(data["distinct"]),
            "failed_obligations": data.get("failed_obligations") or {}, "notes": data.get("notes") or [],
        })
    return results


def groups_for(pid, failure):
    """groups (with the --filter to use) that exercise the function a VX failure points at"""
    fn = (failure.get("function") or "").split("::")[-1].strip()
    obl = failure.get("obligation") or ""
    parts = obl.split(".")
    cands = []
    vfs_pid = pid in ("C07", "C14")
    if fn == "init" or (len(parts) > 1 and parts[1] == "init"):
        cands.append(("init", "Vfs::init" if vfs_pid or "vfs" in obl.lower() else "init"))
        if pid in ("C01", "C02", "C03"):
            cands.append(("server", "init"))
    if fn in VFS_FNS or (vfs_pid and fn in VFS_METHOD_FNS) or (vfs_pid and not cands):
        cands.append(("vfs", fn if fn else None))
        if vfs_pid:
            cands.append(("vfs", None))
    if not vfs_pid:
        if fn in READDIR_FNS:
            cands.append(("readdir", fn))
        if fn in SERVER_OPS:
            cands.append(("server", "rename" if fn == "do_rename" else fn))
        # the obligation often names the operation (C02.write.args, server.setlkw.cap)
        for p in parts[1:2]:
            if p in SERVER_OPS and ("server", p) not in cands:
                cands.append(("server", p))
            if p in READDIR_FNS and ("readdir", p) not in cands:
                cands.append(("readdir", p))
        if fn in GENERIC_SERVER_FNS or not cands:
            cands.append(("server", None))
            if pid in ("C03", "C16"):
                cands.append(("readdir", None))
            if pid == "C12":
                cands.append(("init", None))
    if pid in GROUPS["pt"] and (pid in PT_PIDS or fn in PT_FNS or "passthrough" in (failure.get("file") or "") or "pt" in obl.split(".")[:1]):
        # the pt scenarios are labelled by property, not by function: select the property's section
        if pid == "C16":
            cands.append(("pt", PT_FILTER.get(pid)))  # the wire encoding (readdir group) is the closer match for C16 functions
        else:
            cands.insert(0, ("pt", PT_FILTER.get(pid)))
    seen, out = set(), []
    for c in cands:
        if c not in seen and pid in GROUPS.get(c[0], []):
            seen.add(c)
            out.append(c)
    return out


def search(pid, failure, src, seed=0):
    """witness {input, expected, observed, obligation} of the first RX failure of property `pid`
    in the group(s) exercising failure["function"], or None (also None on any tool problem)"""
    for group, flt in groups_for(pid, failure):
        try:
            data, _cmd, _wall = run_group(group, src, pid=pid, flt=flt, seed=seed)
        except ToolError:
            continue
        except Exception:
            continue
        for f in data.get("failures", []):
            if f.get("property") == pid:
                return {"input": f.get("input"), "expected": f.get("expected"), "observed": f.get("observed"), "obligation": f.get("obligation"),
                        "group": group, "filter": flt, "bounded": data.get("bound")}
    return None


def main():
    ap = argparse.ArgumentParser(description=__doc__, formatter_class=argparse.RawDescriptionHelpFormatter)
    ap.add_argument("groups", nargs="+", help="server | readdir | init | vfs | pt")
    ap.add_argument("--src", default="/repo", help="source root of fuse-backend-rs (checkout or a directory with src/)")
    ap.add_argument("--pid", default=None, help="property id; default: the main property of the group")
    ap.add_argument("--filter", default=None, help="passed to rx --filter (raw mode)")
    ap.add_argument("--seed", type=int, default=None)
    ap.add_argument("--scenario", default=None, help="vfs only: restrict to histories whose description contains this text")
    ap.add_argument("--raw", action="store_true", help="print the JSON of the rx binary instead of framework result dicts")
    a = ap.parse_args()
    out = []
    rc = 0
    for g in a.groups:
        if a.raw or a.filter or a.seed is not None or a.scenario:
            try:
                data, _cmd, wall = run_group(g, a.src, pid=a.pid, flt=a.filter, seed=a.seed, scenario=a.scenario)
                data["wall_s"] = round(wall, 2)
                out.append(data)
            except ToolError as e:
                out.append({"group": g, "tool_error": str(e)})
                rc = 2
        else:
            res = run_bounded(a.pid or DEFAULT_PID.get(g, "C01"), [g], a.src, "full")
            out.extend(res)
            if any(r["status"] == "tool-error" for r in res):
                rc = 2
            elif any(r["status"] == "fail" for r in res) and rc == 0:
                rc = 1
    print(json.dumps(out[0] if len(out) == 1 else out, indent=1))
    return rc


if __name__ == "__main__":
    sys.exit(main())
