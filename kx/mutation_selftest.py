#!/usr/bin/env python3
"""Engine KX self-test: seed known ABI defects into a scratch copy of /repo and check
that the "abi" group reports each of them (results are recorded in README.md).

    python3 /verif/kx/mutation_selftest.py [M1 M2 ...]

The scratch copy lives in /var/tmp/kx-scratch and is deleted at the end; /repo is
never modified. Takes ~40-70 s per mutation."""
import json, os, sys, time, shutil
sys.path.insert(0, os.path.dirname(os.path.abspath(__file__)))
import run
S = '/var/tmp/kx-scratch'
shutil.rmtree(S, ignore_errors=True)
shutil.copytree('/repo', S, ignore=shutil.ignore_patterns('target', '.git'))
F = S + '/src/abi/fuse_abi_linux.rs'
G = S + '/src/api/filesystem/mod.rs'
orig = {F: open('/repo/src/abi/fuse_abi_linux.rs').read(), G: open('/repo/src/api/filesystem/mod.rs').read()}
def sub(path, a, b, count=1):
    s = open(path).read()
    assert a in s, a
    open(path, 'w').write(s.replace(a, b, count))
muts = [
 ("M1 swap atimensec/mtimensec in Attr", lambda: sub(F, "    pub atimensec: u32,\n    pub mtimensec: u32,\n    pub ctimensec: u32,\n    pub mode: u32,\n    pub nlink", "    pub mtimensec: u32,\n    pub atimensec: u32,\n    pub ctimensec: u32,\n    pub mode: u32,\n    pub nlink")),
 ("M2 WRITE_CACHE = 2", lambda: sub(F, "pub const WRITE_CACHE: u32 = 1;", "pub const WRITE_CACHE: u32 = 2;")),
 ("M3 Opcode::Rename2 = 44 (swap with Readdirplus)", lambda: (sub(F, "    Readdirplus = 44,\n    Rename2 = 45,", "    Readdirplus = 45,\n    Rename2 = 44,"))),
 ("M4 From<u32> maps 19 to Fsync", lambda: sub(F, "            20 => Opcode::Fsync,", "            19 | 20 => Opcode::Fsync,")),
 ("M5 drop rdev in with_flags", lambda: sub(F, "            rdev: st.st_rdev as u32,", "            rdev: 0,")),
 ("M6 private const FOPEN_KEEP_CACHE = 4 (public route)", lambda: sub(F, "const FOPEN_KEEP_CACHE: u32 = 2;", "const FOPEN_KEEP_CACHE: u32 = 4;")),
 ("M7 EntryOut::from drops attr_flags", lambda: sub(G, "fuse::Attr::with_flags(entry.attr, entry.attr_flags)", "fuse::Attr::with_flags(entry.attr, 0)")),
 ("M8 new unknown flag in FsOptions", lambda: sub(F, "        const HAS_RESEND = HAS_RESEND;\n", "        const HAS_RESEND = HAS_RESEND;\n        const BOGUS = 1 << 40;\n")),
 ("M9 OutHeader.error: i32 -> u32 (same width)", lambda: sub(F, "    pub len: u32,\n    pub error: i32,", "    pub len: u32,\n    pub error: u32,")),
 ("M11 Kstatfs.spare: [u32; 6] -> [u16; 12] (same bytes, compiles: only the text-level type check can see it)", lambda: sub(F, "    pub spare: [u32; 6],", "    pub spare: [u16; 12],")),
 ("M10 SetattrIn->stat64 swaps uid/gid", lambda: sub(F, "        out.st_uid = setattr.uid;\n        out.st_gid = setattr.gid;", "        out.st_uid = setattr.gid;\n        out.st_gid = setattr.uid;")),
]
sel = sys.argv[1:]
results = []
for name, fn in muts:
    if sel and name.split()[0] not in sel: continue
    for p, t in orig.items(): open(p, 'w').write(t)
    fn()
    t0 = time.time()
    r = run.run_harnesses("C13", ["abi"], S, "full")[0]
    line = "%s -> status=%s failed=%d wall=%.0fs %s" % (name, r['status'], r['failed'], time.time()-t0, r['reason'][:300])
    print(line); 
    for f in r['failures']:
        print("     ", f['obligation'], '|', f['kind'], '|', f['site']['file'], f['site']['line'], '|', f['site']['text'][:110], '| witness', json.dumps(f['witness'])[:160])
    sys.stdout.flush()
    results.append((name, r))
os.makedirs('/verif/build/kx', exist_ok=True)
json.dump([(n, r) for n, r in results], open('/verif/build/kx/mutations.json', 'w'), indent=1)
shutil.rmtree(S, ignore_errors=True)
missed = [n for n, r in results if r['status'] != 'fail' and not n.startswith('M9 ')]
print("missed: %s" % missed if missed else "all seeded defects detected")
sys.exit(1 if missed else 0)
