// Hand-written harness (engine KX, property C13): request opcode decoding.
//
// Specification (from the property statement, not from the code):
//   * if `x` is the number of a kernel opcode (enum fuse_opcode in
//     <linux/fuse.h>) that the library dispatches, `Opcode::from(x)` is the
//     variant whose discriminant is `x`;
//   * every other 32-bit number (holes such as 0, 7, 19, kernel opcodes the
//     library does not implement, CUSE_INIT, the byte-swap sentinels, anything
//     else) decodes to the unsupported-opcode value `Opcode::MaxOpcode`.
//
// `crate::gen::kernel_opcode_supported(x)` is GENERATED from the kernel header:
// true iff x is a value of enum fuse_opcode that is paired with a library
// Opcode variant and is not one of the reserved/sentinel values listed in
// abi_map.json ("reserved_opcodes").

use fuse_backend_rs::abi::fuse_abi::Opcode;

//@inputs opcode_from: x:u32
#[kani::proof]
fn opcode_from() {
    let x: u32 = kani::any();
    let got = Opcode::from(x) as u32;
    let unsupported = Opcode::MaxOpcode as u32;

    kani::cover!(crate::gen::kernel_opcode_supported(x) && got == x, "a supported opcode is decoded");
    kani::cover!(!crate::gen::kernel_opcode_supported(x) && got == unsupported, "an unknown opcode is rejected");

    if crate::gen::kernel_opcode_supported(x) {
        assert!(got == x, "C13.opcode.from: Opcode::from(x) as u32 == x for every kernel opcode x the library supports");
    } else {
        assert!(got == unsupported, "C13.opcode.from: Opcode::from(x) == Opcode::MaxOpcode for every other x (holes, unknown, reserved)");
    }
    // The unsupported value itself must not be a dispatchable kernel opcode of the library.
    assert!(!crate::gen::kernel_opcode_supported(unsupported), "C13.opcode.from: Opcode::MaxOpcode is not itself a supported opcode");
}
