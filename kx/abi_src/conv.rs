// Hand-written harnesses (engine KX, property C13): conversions between host
// stat data and FUSE wire attributes.
//
// Every input field is symbolic (kani::any), so each proof covers all 2^N
// inputs; the harnesses are loop-free, hence complete (no unwinding bound).
//
// The expected values below are written from the meaning of the wire format
// (struct fuse_attr / fuse_kstatfs / fuse_setattr_in / fuse_entry_out in
// <linux/fuse.h>) and of struct stat / statvfs -- NOT copied from the library:
//   * a 64-bit host field that has a 64-bit wire field is carried bit for bit
//     (signed <-> unsigned reinterpretation, `as u64` / `as i64`);
//   * a host field wider than its wire field is truncated to the wire width
//     (`as u32`) -- that is all the wire format can carry;
//   * a 32-bit wire field widened to a host field is zero-extended;
//   * a field the source does not have is zero in the result.
//
// `//@inputs <harness>: ...` lines give, in order of the kani::any() calls, the
// names of the symbolic inputs; run.py uses them to label CBMC counterexample values.

use core::time::Duration;
use fuse_backend_rs::abi::fuse_abi::{stat64, statvfs64, Attr, EntryOut, Kstatfs, SetattrIn};
use fuse_backend_rs::api::filesystem::Entry;

//@define stat64 = st_dev:u64, st_ino:u64, st_nlink:u64, st_mode:u32, st_uid:u32, st_gid:u32, st_rdev:u64, st_size:i64, st_blksize:i64, st_blocks:i64, st_atime:i64, st_atime_nsec:i64, st_mtime:i64, st_mtime_nsec:i64, st_ctime:i64, st_ctime_nsec:i64
fn any_stat64() -> stat64 {
    // libc::stat64 has private padding fields: start from zeroed memory and
    // make every public field symbolic.
    let mut st: stat64 = unsafe { core::mem::zeroed() };
    st.st_dev = kani::any();
    st.st_ino = kani::any();
    st.st_nlink = kani::any();
    st.st_mode = kani::any();
    st.st_uid = kani::any();
    st.st_gid = kani::any();
    st.st_rdev = kani::any();
    st.st_size = kani::any();
    st.st_blksize = kani::any();
    st.st_blocks = kani::any();
    st.st_atime = kani::any();
    st.st_atime_nsec = kani::any();
    st.st_mtime = kani::any();
    st.st_mtime_nsec = kani::any();
    st.st_ctime = kani::any();
    st.st_ctime_nsec = kani::any();
    st
}

//@define attr = ino:u64, size:u64, blocks:u64, atime:u64, mtime:u64, ctime:u64, atimensec:u32, mtimensec:u32, ctimensec:u32, mode:u32, nlink:u32, uid:u32, gid:u32, rdev:u32, blksize:u32, flags:u32
fn any_attr() -> Attr {
    Attr {
        ino: kani::any(),
        size: kani::any(),
        blocks: kani::any(),
        atime: kani::any(),
        mtime: kani::any(),
        ctime: kani::any(),
        atimensec: kani::any(),
        mtimensec: kani::any(),
        ctimensec: kani::any(),
        mode: kani::any(),
        nlink: kani::any(),
        uid: kani::any(),
        gid: kani::any(),
        rdev: kani::any(),
        blksize: kani::any(),
        flags: kani::any(),
    }
}

/// What struct fuse_attr must contain for host stat `st` and attribute flags `flags`.
/// `$tag` is the obligation name used in the assertion messages.
macro_rules! assert_attr_carries_stat {
    ($tag:literal, $a:expr, $st:expr, $flags:expr) => {{
        let a: &Attr = &$a;
        let st: &stat64 = &$st;
        assert!(a.ino == st.st_ino, concat!($tag, ": attr.ino == st.st_ino"));
        assert!(a.size == st.st_size as u64, concat!($tag, ": attr.size == st.st_size as u64"));
        assert!(a.blocks == st.st_blocks as u64, concat!($tag, ": attr.blocks == st.st_blocks as u64"));
        assert!(a.atime == st.st_atime as u64, concat!($tag, ": attr.atime == st.st_atime as u64"));
        assert!(a.mtime == st.st_mtime as u64, concat!($tag, ": attr.mtime == st.st_mtime as u64"));
        assert!(a.ctime == st.st_ctime as u64, concat!($tag, ": attr.ctime == st.st_ctime as u64"));
        assert!(a.atimensec == st.st_atime_nsec as u32, concat!($tag, ": attr.atimensec == st.st_atime_nsec as u32"));
        assert!(a.mtimensec == st.st_mtime_nsec as u32, concat!($tag, ": attr.mtimensec == st.st_mtime_nsec as u32"));
        assert!(a.ctimensec == st.st_ctime_nsec as u32, concat!($tag, ": attr.ctimensec == st.st_ctime_nsec as u32"));
        assert!(a.mode == st.st_mode as u32, concat!($tag, ": attr.mode == st.st_mode"));
        assert!(a.nlink == st.st_nlink as u32, concat!($tag, ": attr.nlink == st.st_nlink as u32"));
        assert!(a.uid == st.st_uid, concat!($tag, ": attr.uid == st.st_uid"));
        assert!(a.gid == st.st_gid, concat!($tag, ": attr.gid == st.st_gid"));
        assert!(a.rdev == st.st_rdev as u32, concat!($tag, ": attr.rdev == st.st_rdev as u32"));
        assert!(a.blksize == st.st_blksize as u32, concat!($tag, ": attr.blksize == st.st_blksize as u32"));
        assert!(a.flags == $flags, concat!($tag, ": attr.flags == flags"));
    }};
}

//@inputs conv_with_flags: @stat64, flags:u32
#[kani::proof]
fn conv_with_flags() {
    let st = any_stat64();
    let flags: u32 = kani::any();
    let a = Attr::with_flags(st, flags);
    kani::cover!(
        a.ino != 0 && a.size > u32::MAX as u64 && a.rdev != 0 && a.flags != 0 && st.st_rdev > u32::MAX as u64,
        "non-trivial stat data reaches the wire attribute"
    );
    assert_attr_carries_stat!("C13.conv.with_flags", a, st, flags);
}

//@inputs conv_attr_from_stat64: @stat64
#[kani::proof]
fn conv_attr_from_stat64() {
    let st = any_stat64();
    let a = Attr::from(st);
    kani::cover!(a.ino != 0 && a.mode != 0 && a.nlink != 0, "non-trivial stat data reaches the wire attribute");
    // Attr::from(st) is with_flags(st, 0)
    assert_attr_carries_stat!("C13.conv.attr_from_stat64", a, st, 0u32);
}

//@inputs conv_stat64_from_attr: @attr
#[kani::proof]
fn conv_stat64_from_attr() {
    let a = any_attr();
    let st = stat64::from(a);
    kani::cover!(st.st_ino != 0 && st.st_rdev != 0 && st.st_size < 0, "non-trivial attribute reaches host stat");
    // wire -> host, field by field
    assert!(st.st_ino == a.ino, "C13.conv.stat64_from_attr: st.st_ino == attr.ino");
    assert!(st.st_size == a.size as i64, "C13.conv.stat64_from_attr: st.st_size == attr.size as i64");
    assert!(st.st_blocks == a.blocks as i64, "C13.conv.stat64_from_attr: st.st_blocks == attr.blocks as i64");
    assert!(st.st_atime == a.atime as i64, "C13.conv.stat64_from_attr: st.st_atime == attr.atime as i64");
    assert!(st.st_mtime == a.mtime as i64, "C13.conv.stat64_from_attr: st.st_mtime == attr.mtime as i64");
    assert!(st.st_ctime == a.ctime as i64, "C13.conv.stat64_from_attr: st.st_ctime == attr.ctime as i64");
    assert!(st.st_atime_nsec == a.atimensec as i64, "C13.conv.stat64_from_attr: st.st_atime_nsec == attr.atimensec (zero-extended)");
    assert!(st.st_mtime_nsec == a.mtimensec as i64, "C13.conv.stat64_from_attr: st.st_mtime_nsec == attr.mtimensec (zero-extended)");
    assert!(st.st_ctime_nsec == a.ctimensec as i64, "C13.conv.stat64_from_attr: st.st_ctime_nsec == attr.ctimensec (zero-extended)");
    assert!(st.st_mode as u32 == a.mode, "C13.conv.stat64_from_attr: st.st_mode == attr.mode");
    assert!(st.st_nlink as u64 == a.nlink as u64, "C13.conv.stat64_from_attr: st.st_nlink == attr.nlink (zero-extended)");
    assert!(st.st_uid == a.uid, "C13.conv.stat64_from_attr: st.st_uid == attr.uid");
    assert!(st.st_gid == a.gid, "C13.conv.stat64_from_attr: st.st_gid == attr.gid");
    assert!(st.st_rdev as u64 == a.rdev as u64, "C13.conv.stat64_from_attr: st.st_rdev == attr.rdev (zero-extended)");
    assert!(st.st_blksize as i64 == a.blksize as i64, "C13.conv.stat64_from_attr: st.st_blksize == attr.blksize (zero-extended)");
    // the wire attribute has no device number
    assert!(st.st_dev == 0, "C13.conv.stat64_from_attr: st.st_dev == 0 (not carried by the wire format)");
}

//@inputs conv_attr_roundtrip: @attr
#[kani::proof]
fn conv_attr_roundtrip() {
    // wire -> host -> wire is the identity on every field except `flags`
    // (struct stat has no place for fuse_attr.flags).
    let a = any_attr();
    let b = Attr::from(stat64::from(a));
    kani::cover!(b.ino != 0 && b.blksize != 0 && b.ctimensec != 0, "non-trivial attribute survives the round trip");
    assert!(b.ino == a.ino, "C13.conv.attr_roundtrip: ino preserved");
    assert!(b.size == a.size, "C13.conv.attr_roundtrip: size preserved");
    assert!(b.blocks == a.blocks, "C13.conv.attr_roundtrip: blocks preserved");
    assert!(b.atime == a.atime, "C13.conv.attr_roundtrip: atime preserved");
    assert!(b.mtime == a.mtime, "C13.conv.attr_roundtrip: mtime preserved");
    assert!(b.ctime == a.ctime, "C13.conv.attr_roundtrip: ctime preserved");
    assert!(b.atimensec == a.atimensec, "C13.conv.attr_roundtrip: atimensec preserved");
    assert!(b.mtimensec == a.mtimensec, "C13.conv.attr_roundtrip: mtimensec preserved");
    assert!(b.ctimensec == a.ctimensec, "C13.conv.attr_roundtrip: ctimensec preserved");
    assert!(b.mode == a.mode, "C13.conv.attr_roundtrip: mode preserved");
    assert!(b.nlink == a.nlink, "C13.conv.attr_roundtrip: nlink preserved");
    assert!(b.uid == a.uid, "C13.conv.attr_roundtrip: uid preserved");
    assert!(b.gid == a.gid, "C13.conv.attr_roundtrip: gid preserved");
    assert!(b.rdev == a.rdev, "C13.conv.attr_roundtrip: rdev preserved");
    assert!(b.blksize == a.blksize, "C13.conv.attr_roundtrip: blksize preserved");
    assert!(b.flags == 0, "C13.conv.attr_roundtrip: flags == 0 (struct stat cannot carry them)");
}

//@inputs conv_kstatfs_from_statvfs64: f_bsize:u64, f_frsize:u64, f_blocks:u64, f_bfree:u64, f_bavail:u64, f_files:u64, f_ffree:u64, f_favail:u64, f_fsid:u64, f_flag:u64, f_namemax:u64
#[kani::proof]
fn conv_kstatfs_from_statvfs64() {
    let mut sv: statvfs64 = unsafe { core::mem::zeroed() };
    sv.f_bsize = kani::any();
    sv.f_frsize = kani::any();
    sv.f_blocks = kani::any();
    sv.f_bfree = kani::any();
    sv.f_bavail = kani::any();
    sv.f_files = kani::any();
    sv.f_ffree = kani::any();
    sv.f_favail = kani::any();
    sv.f_fsid = kani::any();
    sv.f_flag = kani::any();
    sv.f_namemax = kani::any();
    let k = Kstatfs::from(sv);
    kani::cover!(k.blocks != 0 && k.bsize != 0 && k.namelen != 0 && k.frsize != 0, "non-trivial statvfs reaches the wire");
    assert!(k.blocks == sv.f_blocks as u64, "C13.conv.kstatfs_from_statvfs64: blocks == f_blocks");
    assert!(k.bfree == sv.f_bfree as u64, "C13.conv.kstatfs_from_statvfs64: bfree == f_bfree");
    assert!(k.bavail == sv.f_bavail as u64, "C13.conv.kstatfs_from_statvfs64: bavail == f_bavail");
    assert!(k.files == sv.f_files as u64, "C13.conv.kstatfs_from_statvfs64: files == f_files");
    assert!(k.ffree == sv.f_ffree as u64, "C13.conv.kstatfs_from_statvfs64: ffree == f_ffree");
    assert!(k.bsize == sv.f_bsize as u32, "C13.conv.kstatfs_from_statvfs64: bsize == f_bsize as u32");
    assert!(k.namelen == sv.f_namemax as u32, "C13.conv.kstatfs_from_statvfs64: namelen == f_namemax as u32");
    assert!(k.frsize == sv.f_frsize as u32, "C13.conv.kstatfs_from_statvfs64: frsize == f_frsize as u32");
    assert!(k.padding == 0, "C13.conv.kstatfs_from_statvfs64: padding == 0");
    assert!(
        k.spare[0] == 0 && k.spare[1] == 0 && k.spare[2] == 0 && k.spare[3] == 0 && k.spare[4] == 0 && k.spare[5] == 0,
        "C13.conv.kstatfs_from_statvfs64: spare == [0; 6]"
    );
}

//@inputs conv_stat64_from_setattr_in: valid:u32, padding:u32, fh:u64, size:u64, lock_owner:u64, atime:u64, mtime:u64, ctime:u64, atimensec:u32, mtimensec:u32, ctimensec:u32, mode:u32, unused4:u32, uid:u32, gid:u32, unused5:u32
#[kani::proof]
fn conv_stat64_from_setattr_in() {
    let s = SetattrIn {
        valid: kani::any(),
        padding: kani::any(),
        fh: kani::any(),
        size: kani::any(),
        lock_owner: kani::any(),
        atime: kani::any(),
        mtime: kani::any(),
        ctime: kani::any(),
        atimensec: kani::any(),
        mtimensec: kani::any(),
        ctimensec: kani::any(),
        mode: kani::any(),
        unused4: kani::any(),
        uid: kani::any(),
        gid: kani::any(),
        unused5: kani::any(),
    };
    let st = stat64::from(s);
    kani::cover!(
        st.st_mode != 0 && st.st_size < 0 && st.st_ctime_nsec > i32::MAX as i64 && st.st_uid != st.st_gid,
        "non-trivial setattr request reaches host stat"
    );
    assert!(st.st_mode as u32 == s.mode, "C13.conv.stat64_from_setattr_in: st.st_mode == setattr.mode");
    assert!(st.st_uid == s.uid, "C13.conv.stat64_from_setattr_in: st.st_uid == setattr.uid");
    assert!(st.st_gid == s.gid, "C13.conv.stat64_from_setattr_in: st.st_gid == setattr.gid");
    assert!(st.st_size == s.size as i64, "C13.conv.stat64_from_setattr_in: st.st_size == setattr.size as i64");
    assert!(st.st_atime == s.atime as i64, "C13.conv.stat64_from_setattr_in: st.st_atime == setattr.atime as i64");
    assert!(st.st_mtime == s.mtime as i64, "C13.conv.stat64_from_setattr_in: st.st_mtime == setattr.mtime as i64");
    assert!(st.st_ctime == s.ctime as i64, "C13.conv.stat64_from_setattr_in: st.st_ctime == setattr.ctime as i64");
    assert!(st.st_atime_nsec == s.atimensec as i64, "C13.conv.stat64_from_setattr_in: st.st_atime_nsec == setattr.atimensec (zero-extended)");
    assert!(st.st_mtime_nsec == s.mtimensec as i64, "C13.conv.stat64_from_setattr_in: st.st_mtime_nsec == setattr.mtimensec (zero-extended)");
    assert!(st.st_ctime_nsec == s.ctimensec as i64, "C13.conv.stat64_from_setattr_in: st.st_ctime_nsec == setattr.ctimensec (zero-extended)");
    // fuse_setattr_in carries nothing else that struct stat has
    assert!(
        st.st_dev == 0 && st.st_ino == 0 && st.st_nlink == 0 && st.st_rdev == 0 && st.st_blksize == 0 && st.st_blocks == 0,
        "C13.conv.stat64_from_setattr_in: fields not carried by fuse_setattr_in are zero"
    );
}

//@inputs conv_entry_out_from_entry: inode:u64, generation:u64, @stat64, attr_flags:u32, attr_secs:u64, attr_nanos:u32, entry_secs:u64, entry_nanos:u32
#[kani::proof]
fn conv_entry_out_from_entry() {
    let inode: u64 = kani::any();
    let generation: u64 = kani::any();
    let st = any_stat64();
    let attr_flags: u32 = kani::any();
    let attr_secs: u64 = kani::any();
    let attr_nanos: u32 = kani::any();
    let entry_secs: u64 = kani::any();
    let entry_nanos: u32 = kani::any();
    // a Duration is (whole seconds, nanoseconds < 10^9)
    kani::assume(attr_nanos < 1_000_000_000);
    kani::assume(entry_nanos < 1_000_000_000);
    let e = Entry {
        inode,
        generation,
        attr: st,
        attr_flags,
        attr_timeout: Duration::new(attr_secs, attr_nanos),
        entry_timeout: Duration::new(entry_secs, entry_nanos),
    };
    let o = EntryOut::from(e);
    kani::cover!(
        o.nodeid != 0 && o.attr.flags != 0 && o.attr_valid != o.entry_valid && o.attr_valid_nsec != o.entry_valid_nsec
            && o.entry_valid_nsec == 999_999_999,
        "non-trivial entry reaches the wire"
    );
    assert!(o.nodeid == inode, "C13.conv.entry_out_from_entry: nodeid == entry.inode");
    assert!(o.generation == generation, "C13.conv.entry_out_from_entry: generation == entry.generation");
    // Duration split: whole seconds + sub-second nanoseconds
    assert!(o.entry_valid == entry_secs, "C13.conv.entry_out_from_entry: entry_valid == whole seconds of entry_timeout");
    assert!(o.entry_valid_nsec == entry_nanos, "C13.conv.entry_out_from_entry: entry_valid_nsec == sub-second nanoseconds of entry_timeout");
    assert!(o.attr_valid == attr_secs, "C13.conv.entry_out_from_entry: attr_valid == whole seconds of attr_timeout");
    assert!(o.attr_valid_nsec == attr_nanos, "C13.conv.entry_out_from_entry: attr_valid_nsec == sub-second nanoseconds of attr_timeout");
    assert!(o.entry_valid_nsec < 1_000_000_000 && o.attr_valid_nsec < 1_000_000_000, "C13.conv.entry_out_from_entry: nanosecond parts < 10^9");
    // the embedded attribute carries the stat data and the attribute flags
    assert_attr_carries_stat!("C13.conv.entry_out_from_entry", o.attr, st, attr_flags);
}
