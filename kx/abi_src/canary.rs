// Deliberately false harness: MUST FAIL. If Kani reports it as successful the
// tool chain is not checking anything and run.py returns "tool-error".

use fuse_backend_rs::abi::fuse_abi::Opcode;

//@inputs canary_must_fail: x:u32
#[kani::proof]
fn canary_must_fail() {
    let x: u32 = kani::any();
    kani::cover!(x == 7, "canary reached");
    // false for x == 7 (a hole in the opcode space) and many others
    assert!(Opcode::from(x) as u32 == x, "KX.canary: deliberately false");
}
