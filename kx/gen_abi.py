#!/usr/bin/env python3
"""Engine KX, property C13: ABI generator.

On every run:
  (a) parse the kernel header (<linux/fuse.h>), generate + compile + run a C
      probe -> sizeof / offsetof / constant values            (the ORACLE)
  (b) parse the Rust source TEXT of <src>/src/abi/*.rs        (the SUBJECT)
  (c) pair names mechanically, modulo the committed exception table
      abi_map.json; compare what can only be compared by text
  (d) emit a Kani harness crate (generated layout / constant proofs +
      hand-written opcode / conversion proofs from abi_src/)

Nothing is cached between runs: every obligation is derived from the current
text of <src> and of the header.

Usage: gen_abi.py [--src /repo] [--out /verif/build/kx/abi] [--header H] [--map M]
Prints a short summary; the full machine-readable result is <out>/report.json.
"""
import argparse
import json
import os
import re
import shutil
import subprocess
import sys

KX_DIR = os.path.dirname(os.path.abspath(__file__))
DEFAULT_SRC = "/repo"
DEFAULT_OUT = "/verif/build/kx/abi"
DEFAULT_MAP = os.path.join(KX_DIR, "abi_map.json")
FALLBACK_PKG = "/repo"  # Cargo.toml / build.rs / Cargo.lock donor for src-only trees
PKG_SHADOW = "/verif/build/kx/pkg"


class ToolError(Exception):
    """A problem of the tool chain / inputs, never a verdict about the library."""


# --------------------------------------------------------------------------
# small helpers
# --------------------------------------------------------------------------

def line_of(text, pos):
    return text.count("\n", 0, pos) + 1


def camel_to_snake(name):
    s = re.sub(r"(?<=[a-z0-9])(?=[A-Z])", "_", name)
    return s.lower()


def snake_to_camel(name):
    return "".join(p[:1].upper() + p[1:] for p in name.split("_") if p)


def match_brace(text, open_pos):
    """index of the '}' matching the '{' at open_pos (text must be comment/string free)"""
    depth = 0
    for i in range(open_pos, len(text)):
        c = text[i]
        if c == "{":
            depth += 1
        elif c == "}":
            depth -= 1
            if depth == 0:
                return i
    raise ToolError("unbalanced braces at offset %d" % open_pos)


# --------------------------------------------------------------------------
# (a) kernel header
# --------------------------------------------------------------------------

C_SCALARS = {
    "uint8_t": ("u8", 1), "uint16_t": ("u16", 2), "uint32_t": ("u32", 4), "uint64_t": ("u64", 8),
    "int8_t": ("i8", 1), "int16_t": ("i16", 2), "int32_t": ("i32", 4), "int64_t": ("i64", 8),
    "char": ("u8", 1),
}


def strip_c_comments(text):
    def blank(m):
        return re.sub(r"[^\n]", " ", m.group(0))
    text = re.sub(r"/\*.*?\*/", blank, text, flags=re.S)
    text = re.sub(r"//[^\n]*", blank, text)
    return text


def parse_header(path):
    if not os.path.isfile(path):
        raise ToolError("kernel header %s not found" % path)
    raw = open(path).read()
    text = strip_c_comments(raw)
    # join continuation lines (keep line count)
    text = re.sub(r"\\\n", " \x00", text)
    structs, enums, macros = {}, {}, {}
    for m in re.finditer(r"\bstruct\s+(\w+)\s*\{([^{}]*)\}\s*;", text):
        name, body = m.group(1), m.group(2)
        fields = []
        for decl in body.split(";"):
            decl = decl.replace("\x00", " ").strip()
            if not decl:
                continue
            fm = re.match(r"^(struct\s+\w+|\w+)\s+(\w+)\s*(\[\s*(\w*)\s*\])?$", decl)
            if not fm:
                raise ToolError("cannot parse field %r of struct %s in %s" % (decl, name, path))
            ctype = re.sub(r"\s+", " ", fm.group(1))
            arr = None
            if fm.group(3) is not None:
                arr = fm.group(4) if fm.group(4) != "" else "flex"
            fields.append({"name": fm.group(2), "ctype": ctype, "array": arr})
        structs[name] = {"fields": fields, "line": line_of(text, m.start())}
    for m in re.finditer(r"\benum\s+(\w+)\s*\{([^{}]*)\}\s*;", text):
        names = []
        for part in m.group(2).split(","):
            part = part.strip()
            if not part:
                continue
            nm = re.match(r"^(\w+)", part)
            if nm:
                names.append(nm.group(1))
        enums[m.group(1)] = names
    for m in re.finditer(r"^[ \t]*#[ \t]*define[ \t]+(\w+)(\(?)([^\n]*)$", text, flags=re.M):
        name, paren, body = m.group(1), m.group(2), m.group(3).replace("\x00", " ").strip()
        if paren == "(" or not body:
            continue  # function-like or empty
        macros[name] = {"body": body, "line": line_of(text, m.start())}
    return {"structs": structs, "enums": enums, "macros": macros}


CONST_NAME_RE = re.compile(r"^(FUSE|FATTR|FOPEN|CUSE)_")


def run_c_probe(header, hdr, outdir):
    """compile and run a C probe; returns (struct layouts, constant values)"""
    enum_consts = [n for names in hdr["enums"].values() for n in names]
    known = set(hdr["macros"]) | set(enum_consts) | {"sizeof", "offsetof", "struct"} | set(C_SCALARS) | set(hdr["structs"])
    consts, skipped = [], []
    for name, mac in hdr["macros"].items():
        if not CONST_NAME_RE.match(name):
            continue
        idents = set(re.findall(r"(?<![\w.])[A-Za-z_]\w*", mac["body"]))
        if not idents <= known:
            skipped.append(name)  # e.g. needs PAGE_SIZE or _IOR()
            continue
        consts.append(name)
    consts += enum_consts
    lines = ['#include <stdio.h>', '#include <stddef.h>', '#include <stdint.h>', '#include "%s"' % header, "int main(void) {"]
    for sname, st in hdr["structs"].items():
        lines.append('  printf("S %s %%zu\\n", sizeof(struct %s));' % (sname, sname))
        for f in st["fields"]:
            if f["array"] == "flex":
                lines.append('  printf("F %s %s %%zu 0\\n", offsetof(struct %s, %s));' % (sname, f["name"], sname, f["name"]))
            else:
                lines.append('  printf("F %s %s %%zu %%zu\\n", offsetof(struct %s, %s), sizeof(((struct %s *)0)->%s));'
                             % (sname, f["name"], sname, f["name"], sname, f["name"]))
    for c in consts:
        # a 32-bit `int` expression such as (1 << 31) must not be sign-extended
        lines.append('  printf("C %s %%llu\\n", sizeof(%s) <= 4 ? (unsigned long long)(uint32_t)(%s) : (unsigned long long)(%s));' % (c, c, c, c))
    lines += ["  return 0;", "}"]
    src = os.path.join(outdir, "probe.c")
    exe = os.path.join(outdir, "probe")
    with open(src, "w") as f:
        f.write("\n".join(lines) + "\n")
    try:
        cp = subprocess.run(["clang", "-std=gnu11", "-O0", "-w", "-o", exe, src], capture_output=True, text=True, timeout=120)
    except (OSError, subprocess.TimeoutExpired) as e:
        raise ToolError("cannot run clang: %s" % e)
    if cp.returncode != 0:
        raise ToolError("C probe does not compile:\n" + cp.stderr[-2000:])
    cp = subprocess.run([exe], capture_output=True, text=True, timeout=60)
    if cp.returncode != 0:
        raise ToolError("C probe failed: " + cp.stderr[-500:])
    layouts, values = {}, {}
    for ln in cp.stdout.splitlines():
        p = ln.split()
        if p[0] == "S":
            layouts.setdefault(p[1], {"fields": {}})["size"] = int(p[2])
        elif p[0] == "F":
            layouts.setdefault(p[1], {"fields": {}})["fields"][p[2]] = {"offset": int(p[3]), "size": int(p[4])}
        elif p[0] == "C":
            values[p[1]] = int(p[2])
    return layouts, values, skipped


# --------------------------------------------------------------------------
# (b) Rust source text
# --------------------------------------------------------------------------

def clean_rust(text):
    """blank out comments, string and char literals (keeping offsets and newlines)"""
    out = list(text)
    i, n = 0, len(text)

    def blank(a, b):
        for k in range(a, b):
            if out[k] != "\n":
                out[k] = " "
    while i < n:
        c = text[i]
        if text.startswith("//", i):
            j = text.find("\n", i)
            j = n if j < 0 else j
            blank(i, j)
            i = j
        elif text.startswith("/*", i):
            depth, j = 1, i + 2
            while j < n and depth:
                if text.startswith("/*", j):
                    depth += 1
                    j += 2
                elif text.startswith("*/", j):
                    depth -= 1
                    j += 2
                else:
                    j += 1
            blank(i, j)
            i = j
        elif c == '"':
            j = i + 1
            while j < n and text[j] != '"':
                j += 2 if text[j] == "\\" else 1
            blank(i + 1, j)
            i = j + 1
        elif c == "'":
            m = re.match(r"'(\\.[^']*|[^\\'])'", text[i:])
            if m:
                blank(i + 1, i + m.end() - 1)
                i += m.end()
            else:
                i += 1  # lifetime
        else:
            i += 1
    return "".join(out)


def remove_test_modules(clean):
    out = clean
    for m in list(re.finditer(r"#\[cfg\(test\)\]\s*mod\s+\w+\s*\{", clean)):
        end = match_brace(clean, m.end() - 1)
        out = out[:m.start()] + re.sub(r"[^\n]", " ", out[m.start():end + 1]) + out[end + 1:]
    return out


def split_top_commas(body):
    parts, depth, cur = [], 0, []
    for ch in body:
        if ch in "([{<":
            depth += 1
        elif ch in ")]}>":
            depth -= 1
        if ch == "," and depth == 0:
            parts.append("".join(cur))
            cur = []
        else:
            cur.append(ch)
    if "".join(cur).strip():
        parts.append("".join(cur))
    return parts


def parse_rust_file(path, relpath, module):
    if not os.path.isfile(path):
        raise ToolError("Rust source %s not found" % path)
    raw = open(path).read()
    clean = remove_test_modules(clean_rust(raw))
    depth = []
    d = 0
    for ch in clean:
        depth.append(d)
        if ch == "{":
            d += 1
        elif ch == "}":
            d -= 1
    res = {"file": relpath, "module": module, "structs": [], "consts": [], "bitflags": [], "enums": []}
    work = clean

    def blank_range(s, a, b):
        return s[:a] + re.sub(r"[^\n]", " ", s[a:b]) + s[b:]

    # bitflags! { ... }
    for m in list(re.finditer(r"\bbitflags!\s*\{", clean)):
        end = match_brace(clean, m.end() - 1)
        inner = clean[m.end():end]
        for sm in re.finditer(r"(pub(?:\([^)]*\))?\s+)?struct\s+(\w+)\s*:\s*(\w+)\s*\{", inner):
            s_open = m.end() + sm.end() - 1
            s_end = match_brace(clean, s_open)
            members = []
            for cm in re.finditer(r"\bconst\s+(\w+)\s*=\s*([^;]+);", clean[s_open:s_end]):
                members.append({"name": cm.group(1), "expr": cm.group(2).strip(), "line": line_of(clean, s_open + cm.start())})
            res["bitflags"].append({"name": sm.group(2), "repr": sm.group(3), "public": bool(sm.group(1)),
                                    "members": members, "line": line_of(clean, m.end() + sm.start())})
        work = blank_range(work, m.start(), end + 1)

    # structs / enums (top level only)
    item_re = re.compile(r"((?:#\[[^\]]*\]\s*)*)(pub(?:\([^)]*\))?\s+)?(struct|enum)\s+(\w+)\s*(<[^>{]*>)?\s*\{")
    for m in item_re.finditer(work):
        kw_pos = m.start(3)
        if depth[kw_pos] != 0:
            continue
        open_pos = m.end() - 1
        end = match_brace(work, open_pos)
        attrs = m.group(1)
        body = work[open_pos + 1:end]
        name = m.group(4)
        line = line_of(work, kw_pos)
        if m.group(3) == "struct":
            fields = []
            pos = open_pos + 1
            for part in split_top_commas(body):
                ppos = pos
                pos += len(part) + 1
                txt = part.strip()
                if not txt:
                    continue
                txt_noattr = re.sub(r"#\[[^\]]*\]\s*", "", txt)
                fm = re.match(r"^(pub(?:\([^)]*\))?\s+)?(\w+)\s*:\s*(.+)$", txt_noattr, flags=re.S)
                if not fm:
                    raise ToolError("%s: cannot parse field %r of struct %s" % (relpath, txt, name))
                lead = len(part) - len(part.lstrip())
                fields.append({"name": fm.group(2), "type": re.sub(r"\s+", " ", fm.group(3).strip()),
                               "public": fm.group(1) is not None and fm.group(1).strip() == "pub",
                               "line": line_of(work, ppos + lead)})
            res["structs"].append({"name": name, "public": bool(m.group(2)) and m.group(2).strip() == "pub",
                                   "repr_c": bool(re.search(r"#\[repr\([^)]*\bC\b[^)]*\)\]", attrs)),
                                   "generic": bool(m.group(5)), "fields": fields, "line": line})
        else:
            rm = re.search(r"#\[repr\((\w+)\)\]", attrs)
            variants = []
            pos = open_pos + 1
            for part in split_top_commas(body):
                ppos = pos
                pos += len(part) + 1
                txt = re.sub(r"#\[[^\]]*\]\s*", "", part.strip())
                if not txt:
                    continue
                vm = re.match(r"^(\w+)\s*(?:=\s*(.+))?$", txt, flags=re.S)
                if not vm:
                    raise ToolError("%s: cannot parse variant %r of enum %s" % (relpath, txt, name))
                lead = len(part) - len(part.lstrip())
                variants.append({"name": vm.group(1), "expr": vm.group(2).strip() if vm.group(2) else None,
                                 "line": line_of(work, ppos + lead)})
            res["enums"].append({"name": name, "public": bool(m.group(2)), "repr": rm.group(1) if rm else None,
                                 "variants": variants, "line": line})

    # free constants (top level only)
    for m in re.finditer(r"(?m)^[ \t]*(pub(?:\([^)]*\))?\s+)?const\s+(\w+)\s*:\s*([\w:]+)\s*=\s*([^;]+);", work):
        if depth[m.start(2)] != 0:
            continue
        res["consts"].append({"name": m.group(2), "type": m.group(3), "expr": m.group(4).strip(),
                              "public": bool(m.group(1)) and m.group(1).strip() == "pub", "line": line_of(work, m.start(2))})
    return res


def eval_rust_expr(expr, env):
    """evaluate a Rust integer constant expression from its text; None if not possible"""
    e = expr
    e = re.sub(r"\b(0x[0-9a-fA-F_]+|0b[01_]+|0o[0-7_]+|[0-9][0-9_]*)(?:_?(?:u8|u16|u32|u64|u128|usize|i8|i16|i32|i64|i128|isize))?\b",
               lambda m: m.group(1).replace("_", "").replace("0o", "0o"), e)
    e = re.sub(r"\bas\s+\w+", "", e)
    e = e.replace("!", "~")
    if not re.fullmatch(r"[\w\s<>|&^~+\-*/()%]*", e):
        return None
    names = set(re.findall(r"\b[A-Za-z_]\w*\b", e))
    scope = {}
    for nme in names:
        if nme in env and env[nme] is not None:
            scope[nme] = env[nme]
        else:
            return None
    try:
        v = eval(e, {"__builtins__": {}}, scope)  # noqa: S307 (arithmetic on integers only, identifiers resolved above)
    except Exception:
        return None
    return v if isinstance(v, int) else None


RUST_SCALARS = {"u8": 1, "u16": 2, "u32": 4, "u64": 8, "i8": 1, "i16": 2, "i32": 4, "i64": 8, "usize": 8, "isize": 8}


def rust_type_layout(ty, structs_by_name, memo):
    """(size, align) of a Rust type from its text under repr(C); None if unknown"""
    ty = ty.strip()
    if ty in RUST_SCALARS:
        return RUST_SCALARS[ty], RUST_SCALARS[ty]
    am = re.fullmatch(r"\[\s*(.+?)\s*;\s*(\w+)\s*\]", ty)
    if am:
        inner = rust_type_layout(am.group(1), structs_by_name, memo)
        try:
            cnt = int(am.group(2).replace("_", ""), 0)
        except ValueError:
            return None
        return (inner[0] * cnt, inner[1]) if inner else None
    if ty in structs_by_name:
        lay = rust_struct_layout(structs_by_name[ty], structs_by_name, memo)
        return (lay["size"], lay["align"]) if lay else None
    return None


def rust_struct_layout(st, structs_by_name, memo):
    """simulate repr(C) layout from the source text (used for private fields and as witness values)"""
    if st["name"] in memo:
        return memo[st["name"]]
    memo[st["name"]] = None
    off, align, fields = 0, 1, {}
    for f in st["fields"]:
        la = rust_type_layout(f["type"], structs_by_name, memo)
        if la is None:
            return None
        sz, al = la
        off = (off + al - 1) // al * al
        fields[f["name"]] = {"offset": off, "size": sz}
        off += sz
        align = max(align, al)
    size = (off + align - 1) // align * align
    memo[st["name"]] = {"size": size, "align": align, "fields": fields}
    return memo[st["name"]]


def c_type_as_rust(f, struct_map_rev):
    """Rust spelling expected for a kernel field type (text-level comparison)"""
    ct = f["ctype"]
    if ct.startswith("struct "):
        base = struct_map_rev.get(ct[7:], snake_to_camel(re.sub(r"^fuse_", "", ct[7:])))
    elif ct in C_SCALARS:
        base = C_SCALARS[ct][0]
    else:
        return None
    if f["array"] and f["array"] != "flex":
        return "[%s; %s]" % (base, f["array"])
    return base


# --------------------------------------------------------------------------
# (c) pairing + (d) harness generation
# --------------------------------------------------------------------------

class Gen:
    def __init__(self, src, out, header, map_path):
        self.src, self.out, self.header, self.map_path = src, out, header, map_path
        self.failures = []      # text-level failures (text mismatch / unpaired)
        self.text_checks = []   # text-compared items (passed or failed)
        self.unchecked = []     # listed, never a failure
        self.kernel_only = []   # informational
        self.harnesses = []     # generated Kani harnesses: {name, obligations, asserts:[...]}
        self.assert_index = {}  # assertion message -> metadata
        self.notes = []
        self._bf_partner = {}   # "T::M" -> kernel constant
        self.used_k = set()     # kernel constants that have a Rust partner

    # -- reporting helpers --------------------------------------------------
    def fail(self, obligation, kind, function, file, line, text, rendered, witness=None):
        self.failures.append({"obligation": obligation, "kind": kind, "function": function,
                              "site": {"file": file, "line": line, "text": text}, "rendered": rendered, "witness": witness})

    def text_check(self, obligation, clause, ok, function, file, line, rendered=None, witness=None):
        self.text_checks.append({"obligation": obligation, "clause": clause, "ok": bool(ok), "method": "text-compared"})
        if not ok:
            self.fail(obligation, "text mismatch", function, file, line, clause, rendered or ("text-compared: " + clause + " does not hold"), witness)

    def add_assert(self, harness, obligation, cond, clause, function, file, line, expected=None, rust_text=None):
        msg = "%s: %s" % (obligation, clause)
        harness["asserts"].append({"cond": cond, "msg": msg})
        if obligation not in harness["obligations"]:
            harness["obligations"].append(obligation)
        self.assert_index[msg] = {"obligation": obligation, "clause": clause, "function": function,
                                  "site": {"file": file, "line": line, "text": clause},
                                  "witness": {"kernel": expected, "rust_source_text": rust_text}}

    def new_harness(self, name):
        base, n = name, 1
        while any(h["name"] == name for h in self.harnesses):
            n += 1
            name = "%s_%d" % (base, n)
        h = {"name": name, "obligations": [], "asserts": []}
        self.harnesses.append(h)
        return h

    # -- main ---------------------------------------------------------------
    def run(self):
        try:
            self.map = json.load(open(self.map_path))
        except (OSError, ValueError) as e:
            raise ToolError("cannot read exception table %s: %s" % (self.map_path, e))
        os.makedirs(self.out, exist_ok=True)
        self.hdr = parse_header(self.header)
        self.klayout, self.kvalues, self.kskipped = run_c_probe(self.header, self.hdr, self.out)
        ora = self.map.get("oracle", {})
        if self.kvalues.get("FUSE_KERNEL_VERSION") != ora.get("major") or self.kvalues.get("FUSE_KERNEL_MINOR_VERSION") != ora.get("minor"):
            raise ToolError("kernel header %s is protocol %s.%s, exception table was written for %s.%s" % (
                self.header, self.kvalues.get("FUSE_KERNEL_VERSION"), self.kvalues.get("FUSE_KERNEL_MINOR_VERSION"), ora.get("major"), ora.get("minor")))
        self.rust = []
        for rf in self.map["rust_files"]:
            self.rust.append(parse_rust_file(os.path.join(self.src, rf["file"]), rf["file"], rf["module"]))
        if not any(r["structs"] for r in self.rust):
            raise ToolError("no struct found in the Rust ABI sources under %s" % self.src)
        self.pair_structs()
        self.pair_constants()
        self.emit_crate()
        return self.report()

    # -- structs --------------------------------------------------------------
    def pair_structs(self):
        m = self.map
        name_map = {e["rust"]: e["kernel"] for e in m.get("struct_names", [])}
        windows = {e["rust"]: e for e in m.get("struct_windows", [])}
        fnames = {(e["struct"], e["rust"]): e["kernel"] for e in m.get("field_names", [])}
        fmerges = {(e["struct"], e["rust"]): e["kernel"] for e in m.get("field_merges", [])}
        omitted = {(e["kernel_struct"], e["field"]) for e in m.get("omitted_kernel_fields", [])}
        ignored = {e["kernel"] for e in m.get("ignored_kernel_structs", [])}
        all_structs = {s["name"]: s for r in self.rust for s in r["structs"]}
        rev = {}
        for r in self.rust:
            for s in r["structs"]:
                k = windows[s["name"]]["kernel"] if s["name"] in windows else name_map.get(s["name"], "fuse_" + camel_to_snake(s["name"]))
                s["kernel"] = k
                if s["name"] not in windows:
                    rev[k] = s["name"]
        self.struct_rev = rev
        memo = {}
        paired_kernel = set()
        self.struct_expect = {}
        for r in self.rust:
            for s in r["structs"]:
                name, k, file = s["name"], s["kernel"], r["file"]
                obl = "C13.layout." + name
                if k not in self.hdr["structs"]:
                    self.fail(obl, "unpaired", "struct " + name, file, s["line"], "struct %s" % name,
                              "Rust wire struct %s has no kernel partner (looked for `struct %s` in %s) and no entry in abi_map.json" % (name, k, self.header))
                    continue
                paired_kernel.add(k)
                kst, klay = self.hdr["structs"][k], self.klayout[k]
                if s["generic"]:
                    raise ToolError("generic wire struct %s is not supported by the generator" % name)
                self.text_check(obl, "`struct %s` is #[repr(C)]" % name, s["repr_c"], "struct " + name, file, s["line"])
                # window of the kernel struct covered by this Rust struct
                if name in windows:
                    w = windows[name]
                    try:
                        base = klay["fields"][w["first"]]["offset"]
                        endf = klay["fields"][w["last"]]
                    except KeyError as e:
                        raise ToolError("abi_map.json struct_windows[%s]: kernel field %s not in struct %s" % (name, e, k))
                    wsize = endf["offset"] + endf["size"] - base
                    if w.get("size_const"):
                        if w["size_const"] not in self.kvalues:
                            raise ToolError("abi_map.json: size_const %s not in header" % w["size_const"])
                        self.used_k.add(w["size_const"])
                        if self.kvalues[w["size_const"]] != wsize:
                            raise ToolError("abi_map.json struct_windows[%s]: window is %d bytes but %s = %d" % (name, wsize, w["size_const"], self.kvalues[w["size_const"]]))
                else:
                    base, wsize = 0, klay["size"]
                in_window = [f for f in kst["fields"] if base <= klay["fields"][f["name"]]["offset"] < base + wsize or
                             (klay["fields"][f["name"]]["size"] == 0 and klay["fields"][f["name"]]["offset"] == base + wsize and name not in windows)]
                rlay = rust_struct_layout(s, all_structs, memo)
                self.struct_expect[name] = {"kernel": k, "base": base, "size": wsize}
                h = self.new_harness("layout_" + re.sub(r"\W", "_", name))
                path = "%s::%s" % (r["module"], name)
                h["uses"] = [path]
                kdesc = "struct %s" % k + ("" if name not in windows else " bytes [%d, %d)" % (base, base + wsize))
                if s["public"]:
                    self.add_assert(h, obl, "core::mem::size_of::<%s>() == %d" % (name, wsize),
                                    "size_of::<%s>() == %d (%s)" % (name, wsize, kdesc), "struct " + name, file, s["line"],
                                    expected=wsize, rust_text=rlay["size"] if rlay else None)
                else:
                    self.harnesses.remove(h)
                    self.text_check(obl, "private struct %s has size %d (%s), from source text under repr(C)" % (name, wsize, kdesc),
                                    rlay is not None and rlay["size"] == wsize, "struct " + name, file, s["line"],
                                    witness={"kernel": wsize, "rust_source_text": rlay["size"] if rlay else None})
                covered = set()
                for f in s["fields"]:
                    key = (name, f["name"])
                    if key in fmerges:
                        knames = fmerges[key]
                    else:
                        knames = [fnames.get(key, f["name"])]
                    missing = [kn for kn in knames if kn not in klay["fields"] or kn not in [x["name"] for x in in_window]]
                    if missing:
                        self.fail(obl, "unpaired", "%s.%s" % (name, f["name"]), file, f["line"], "%s: %s" % (f["name"], f["type"]),
                                  "Rust field %s.%s has no kernel partner (no field `%s` in %s) and no entry in abi_map.json" % (name, f["name"], "/".join(missing), kdesc))
                        continue
                    dup = [kn for kn in knames if kn in covered]
                    if dup:
                        self.fail(obl, "text mismatch", "%s.%s" % (name, f["name"]), file, f["line"], "%s: %s" % (f["name"], f["type"]),
                                  "kernel field %s of %s is claimed by two Rust fields" % ("/".join(dup), k))
                        continue
                    covered.update(knames)
                    koff = klay["fields"][knames[0]]["offset"] - base
                    ksize = sum(klay["fields"][kn]["size"] for kn in knames)
                    # merged kernel fields must be contiguous (table sanity)
                    o = klay["fields"][knames[0]]["offset"]
                    for kn in knames:
                        if klay["fields"][kn]["offset"] != o:
                            raise ToolError("abi_map.json field_merges %s.%s: kernel fields are not contiguous" % (name, f["name"]))
                        o += klay["fields"][kn]["size"]
                    kname_txt = "+".join(knames)
                    rt = rlay["fields"].get(f["name"]) if rlay else None
                    if f["public"] and s["public"]:
                        self.add_assert(h, obl, "core::mem::offset_of!(%s, %s) == %d" % (name, f["name"], koff),
                                        "offset_of!(%s, %s) == %d (%s.%s)" % (name, f["name"], koff, k, kname_txt),
                                        "%s.%s" % (name, f["name"]), file, f["line"], expected=koff, rust_text=rt["offset"] if rt else None)
                        self.add_assert(h, obl, "fsz(|s: &%s| &s.%s) == %d" % (name, f["name"], ksize),
                                        "size of field %s.%s == %d (%s.%s)" % (name, f["name"], ksize, k, kname_txt),
                                        "%s.%s" % (name, f["name"]), file, f["line"], expected=ksize, rust_text=rt["size"] if rt else None)
                    else:
                        ok = rt is not None and rt["offset"] == koff and rt["size"] == ksize
                        self.text_check(obl, "private field %s.%s at offset %d size %d (%s.%s), from source text under repr(C)" % (name, f["name"], koff, ksize, k, kname_txt),
                                        ok, "%s.%s" % (name, f["name"]), file, f["line"], witness={"kernel": {"offset": koff, "size": ksize}, "rust_source_text": rt})
                    # field type, text level (width AND signedness / nested struct identity)
                    if len(knames) == 1:
                        kf = [x for x in kst["fields"] if x["name"] == knames[0]][0]
                        want = c_type_as_rust(kf, rev)
                        if want is not None:
                            got = re.sub(r"\s+", " ", f["type"])
                            self.text_check(obl, "type of %s.%s is `%s` (kernel: %s %s%s)" % (name, f["name"], want, kf["ctype"], kf["name"], "[%s]" % kf["array"] if kf["array"] else ""),
                                            got.replace(" ", "") == want.replace(" ", ""), "%s.%s" % (name, f["name"]), file, f["line"],
                                            witness={"kernel": want, "rust_source_text": got})
                for kf in in_window:
                    if kf["name"] not in covered and (k, kf["name"]) not in omitted:
                        self.fail(obl, "unpaired", "struct " + name, file, s["line"], "struct %s" % name,
                                  "kernel field %s.%s (offset %d, size %d) has no Rust partner in %s and no entry in abi_map.json" % (
                                      k, kf["name"], klay["fields"][kf["name"]]["offset"], klay["fields"][kf["name"]]["size"], name))
        # tilings (table + header only)
        for t in m.get("struct_tilings", []):
            pos = 0
            for part in t["parts"]:
                e = self.struct_expect.get(part)
                if e is None:
                    self.fail("C13.layout." + part, "unpaired", "struct " + part, self.rust[0]["file"], None, "struct " + part,
                              "abi_map.json expects Rust struct %s (part of %s) but the source does not define it" % (part, t["kernel"]))
                    pos = None
                    break
                if e["kernel"] != t["kernel"] or e["base"] != pos:
                    raise ToolError("abi_map.json struct_tilings[%s]: part %s does not start at byte %d" % (t["kernel"], part, pos))
                pos += e["size"]
            if pos is not None and pos != self.klayout[t["kernel"]]["size"]:
                raise ToolError("abi_map.json struct_tilings[%s]: parts cover %d of %d bytes" % (t["kernel"], pos, self.klayout[t["kernel"]]["size"]))
        for k in self.hdr["structs"]:
            if k.startswith("fuse_") and k not in paired_kernel:
                if k in ignored:
                    self.kernel_only.append("struct %s (ignored: %s)" % (k, [e["why"] for e in m["ignored_kernel_structs"] if e["kernel"] == k][0]))
                else:
                    self.fail("C13.layout." + snake_to_camel(k[5:]), "unpaired", "struct " + snake_to_camel(k[5:]), self.rust[0]["file"], None, "struct %s" % k,
                              "kernel wire struct %s has no Rust definition and is not listed in abi_map.json ignored_kernel_structs" % k)

    # -- constants --------------------------------------------------------------
    def pair_constants(self):
        m = self.map
        cnames = {e["rust"]: e for e in m.get("const_names", [])}
        crel = {e["rust"]: e for e in m.get("const_relations", [])}
        sentinels = {e["rust"]: e for e in m.get("sentinels", [])}
        unchecked = {e["rust"]: e for e in m.get("unchecked", [])}
        # constants newer than the header installed in the sandbox whose value is known from the kernel source: pinned BY HAND in abi_map.json (an assumption,
        # listed as such); the Rust source text is compared with the pinned value, so a changed constant is reported instead of silently listed as unchecked
        pinned = {e["rust"]: e for e in m.get("pinned", [])}

        def check_pinned(q, tv, file, line):
            if q in pinned:
                self.text_check("C13.const." + q, "%s == %#x (pinned: %s)" % (q, pinned[q]["value"], pinned[q]["why"]), tv == pinned[q]["value"], q, file, line,
                                witness={"pinned": pinned[q]["value"], "rust_source_text": tv})
        reserved = {e["kernel"] for e in m.get("reserved_opcodes", [])}
        kv = self.kvalues

        def find(cands):
            for c in cands:
                if c in kv:
                    return c
            return None

        for r in self.rust:
            file, mod = r["file"], r["module"]
            env = {}
            for c in r["consts"]:
                env[c["name"]] = eval_rust_expr(c["expr"], env)
            # ---- free constants
            free_pairs = {}
            groups = {}
            for c in r["consts"]:
                nm = c["name"]
                obl = "C13.const." + nm
                if nm in unchecked:
                    self.unchecked.append("%s = %s (%s)" % (nm, c["expr"], unchecked[nm]["why"]))
                    check_pinned(nm, env.get(nm), file, c["line"])
                    free_pairs[nm] = None
                    continue
                if nm in cnames:
                    k = cnames[nm]["kernel"]
                    if k not in kv:
                        raise ToolError("abi_map.json const_names[%s]: %s not in header" % (nm, k))
                elif nm in crel:
                    k = crel[nm]["kernel"]
                else:
                    k = find([nm, "FUSE_" + nm])
                if k is None:
                    self.fail(obl, "unpaired", "const " + nm, file, c["line"], "const %s: %s = %s" % (nm, c["type"], c["expr"]),
                              "Rust constant %s has no kernel partner (looked for %s / FUSE_%s) and no entry in abi_map.json" % (nm, nm, nm))
                    free_pairs[nm] = None
                    continue
                free_pairs[nm] = k
                c["kernel"] = k
                self.used_k.add(k)
            # which private constants have a public route through a bitflags member?
            routed = {}
            for bf in r["bitflags"]:
                for mem in bf["members"]:
                    if re.fullmatch(r"\w+", mem["expr"]) and not mem["expr"][0].isdigit():
                        routed.setdefault(mem["expr"], []).append((bf, mem))
            # ---- bitflags
            for bf in r["bitflags"]:
                prefixes = m.get("bitflags_prefixes", {}).get(bf["name"], ["FUSE_", ""])
                h = self.new_harness("const_" + bf["name"])
                h["uses"] = ["%s::%s" % (mod, bf["name"])]
                paired_vals = []
                pend_unchecked = []
                for mem in bf["members"]:
                    q = "%s::%s" % (bf["name"], mem["name"])
                    obl = "C13.const." + q
                    if q in unchecked:
                        self.unchecked.append("%s = %s (%s)" % (q, mem["expr"], unchecked[q]["why"]))
                        check_pinned(q, eval_rust_expr(mem["expr"], env), file, mem["line"])
                        pend_unchecked.append(mem)
                        continue
                    if q in cnames:
                        k = cnames[q]["kernel"]
                        if k not in kv:
                            raise ToolError("abi_map.json const_names[%s]: %s not in header" % (q, k))
                    else:
                        k = find([p + mem["name"] for p in prefixes])
                    if k is None:
                        self.fail(obl, "unpaired", q, file, mem["line"], "const %s = %s;" % (mem["name"], mem["expr"]),
                                  "Rust flag %s has no kernel partner (looked for %s) and no entry in abi_map.json" % (q, ", ".join(p + mem["name"] for p in prefixes)))
                        continue
                    self._bf_partner[q] = k
                    self.used_k.add(k)
                    paired_vals.append(kv[k])
                    tv = eval_rust_expr(mem["expr"], env)
                    if bf["public"]:
                        self.add_assert(h, obl, "%s.bits() as u64 == %d" % (q, kv[k]), "%s.bits() == %#x (%s)" % (q, kv[k], k),
                                        q, file, mem["line"], expected=kv[k], rust_text=tv)
                    else:
                        self.text_check(obl, "%s == %#x (%s), literal value from source text" % (q, kv[k], k), tv == kv[k], q, file, mem["line"],
                                        witness={"kernel": kv[k], "rust_source_text": tv})
                union = 0
                for v in paired_vals:
                    union |= v
                for mem in pend_unchecked:
                    q = "%s::%s" % (bf["name"], mem["name"])
                    if bf["public"]:
                        self.add_assert(h, "C13.const." + q, "%s.bits() as u64 & %#xu64 == 0" % (q, union),
                                        "%s (not in the %d.%d header) does not collide with any header-defined %s bit" % (q, kv["FUSE_KERNEL_VERSION"], kv["FUSE_KERNEL_MINOR_VERSION"], bf["name"]),
                                        q, file, mem["line"], expected="no overlap with %#x" % union, rust_text=eval_rust_expr(mem["expr"], env))
                if not h["asserts"]:
                    self.harnesses.remove(h)
            # ---- free constants: Kani (public), routed (private, via bitflags), text (private, no route)
            hv = self.new_harness("const_version")
            hc = self.new_harness("const_compat_sizes")
            hf = self.new_harness("const_flags")
            for hh in (hv, hc, hf):
                hh["uses"] = [mod + "::*"]
            for c in r["consts"]:
                nm, k = c["name"], free_pairs.get(c["name"])
                if k is None:
                    continue
                obl = "C13.const." + nm
                rel = crel[nm]["relation"] if nm in crel else "=="
                tv = env.get(nm)
                clause = "%s %s %d (%s)" % (nm, rel, kv[k], k)
                if c["public"]:
                    h = hv if "KERNEL" in nm and "VERSION" in nm else hc if re.match(r"FUSE_COMPAT_\w+_SIZE$", nm) else hf
                    self.add_assert(h, obl, "(%s as u64) %s %d" % (nm, rel, kv[k]), clause, "const " + nm, file, c["line"], expected=kv[k], rust_text=tv)
                else:
                    routes = [(bf, mem) for (bf, mem) in routed.get(nm, []) if bf["public"] and self._bf_partner.get("%s::%s" % (bf["name"], mem["name"])) == k]
                    if routes:
                        bf, mem = routes[0]
                        self.notes.append("private const %s is checked by Kani through %s::%s.bits()" % (nm, bf["name"], mem["name"]))
                    else:
                        if tv is None:
                            raise ToolError("%s:%d: cannot evaluate private constant %s = %s from text" % (file, c["line"], nm, c["expr"]))
                        ok = (tv == kv[k]) if rel == "==" else (tv <= kv[k])
                        self.text_check(obl, clause + ", literal value from source text (item is private)", ok, "const " + nm, file, c["line"],
                                        witness={"kernel": kv[k], "rust_source_text": tv})
            for hh in (hv, hc, hf):
                if not hh["asserts"]:
                    self.harnesses.remove(hh)
            # ---- enums
            for en in r["enums"]:
                prefixes = m.get("enum_prefixes", {}).get(en["name"])
                if prefixes is None:
                    self.fail("C13.const." + en["name"], "unpaired", "enum " + en["name"], file, en["line"], "enum " + en["name"],
                              "Rust enum %s has no kernel partner configured in abi_map.json enum_prefixes" % en["name"])
                    continue
                self.text_check("C13.const." + en["name"], "`enum %s` is #[repr(u32)]" % en["name"], en["repr"] == "u32", "enum " + en["name"], file, en["line"])
                h = self.new_harness("const_" + en["name"])
                h["uses"] = ["%s::%s" % (mod, en["name"])]
                paired = {}
                pend = []
                for v in en["variants"]:
                    q = "%s::%s" % (en["name"], v["name"])
                    obl = "C13.const." + q
                    tv = eval_rust_expr(v["expr"], env) if v["expr"] else None
                    if q in unchecked:
                        self.unchecked.append("%s = %s (%s)" % (q, v["expr"], unchecked[q]["why"]))
                        check_pinned(q, tv, file, v["line"])
                        continue
                    if q in sentinels:
                        pend.append((v, sentinels[q], tv))
                        continue
                    if q in cnames:
                        k = cnames[q]["kernel"]
                        if k not in kv:
                            raise ToolError("abi_map.json const_names[%s]: %s not in header" % (q, k))
                    else:
                        k = find([p + camel_to_snake(v["name"]).upper() for p in prefixes])
                    if k is None:
                        self.fail(obl, "unpaired", q, file, v["line"], "%s = %s" % (v["name"], v["expr"]),
                                  "Rust enum variant %s has no kernel partner (looked for %s) and no entry in abi_map.json" % (
                                      q, ", ".join(p + camel_to_snake(v["name"]).upper() for p in prefixes)))
                        continue
                    paired[q] = k
                    self.used_k.add(k)
                    if en["public"]:
                        self.add_assert(h, obl, "%s as u32 as u64 == %d" % (q, kv[k]), "%s as u32 == %d (%s)" % (q, kv[k], k), q, file, v["line"], expected=kv[k], rust_text=tv)
                    else:
                        self.text_check(obl, "%s == %d (%s), literal value from source text" % (q, kv[k], k), tv == kv[k], q, file, v["line"],
                                        witness={"kernel": kv[k], "rust_source_text": tv})
                dispatchable = sorted(kv[k] for q, k in paired.items() if k not in reserved)
                if en["name"] == "Opcode":
                    self.supported_opcodes = dispatchable
                    kenum = self.hdr["enums"].get("fuse_opcode", [])
                    have = set(paired.values())
                    for kn in kenum:
                        if kn not in have:
                            self.kernel_only.append("opcode %s = %d (no library variant: must decode as unsupported; proven by opcode_from)" % (kn, kv[kn]))
                for v, s, tv in pend:
                    q = "%s::%s" % (en["name"], v["name"])
                    obl = "C13.const." + q
                    others = [x for x in en["variants"] if x["name"] != v["name"] and ("%s::%s" % (en["name"], x["name"])) not in sentinels]
                    if not en["public"]:
                        continue
                    if "kernel" in s:
                        self.used_k.add(s["kernel"])
                        self.add_assert(h, obl, "%s as u32 as u64 >= %d" % (q, kv[s["kernel"]]), "%s as u32 >= %d (%s)" % (q, kv[s["kernel"]], s["kernel"]),
                                        q, file, v["line"], expected=">= %d" % kv[s["kernel"]], rust_text=tv)
                        for x in others:
                            self.add_assert(h, obl, "%s as u32 > %s::%s as u32" % (q, en["name"], x["name"]), "%s > %s::%s (end marker lies above every code)" % (q, en["name"], x["name"]),
                                            q, file, v["line"], rust_text=tv)
                    else:
                        top = max(dispatchable) if dispatchable else 0
                        self.add_assert(h, obl, "%s as u32 as u64 > %d" % (q, top), "%s as u32 > %d (above every kernel opcode the library dispatches)" % (q, top),
                                        q, file, v["line"], expected="> %d" % top, rust_text=tv)
                if not h["asserts"]:
                    self.harnesses.remove(h)
        if not hasattr(self, "supported_opcodes"):
            raise ToolError("enum Opcode not found in the Rust ABI sources")
        # informational: header constants the library does not define
        enum_consts = {n for names in self.hdr["enums"].values() for n in names}
        for k in sorted(kv):
            if k not in self.used_k and k not in enum_consts and not k.startswith("CUSE_"):
                self.kernel_only.append("constant %s = %#x (not defined by the library)" % (k, kv[k]))

    # -- crate ------------------------------------------------------------------
    def emit_crate(self):
        out = self.out
        pkg = package_root(self.src)
        os.makedirs(os.path.join(out, "src"), exist_ok=True)
        os.makedirs(os.path.join(out, ".cargo"), exist_ok=True)
        with open(os.path.join(out, "Cargo.toml"), "w") as f:
            f.write(CARGO_TOML % {"name": "kx-abi", "pkg": pkg, "extra": ""})
        with open(os.path.join(out, ".cargo", "config.toml"), "w") as f:
            f.write("[net]\noffline = true\n")
        copy_lock(pkg, out)
        for fn in ("opcode.rs", "conv.rs", "canary.rs"):
            shutil.copyfile(os.path.join(KX_DIR, "abi_src", fn), os.path.join(out, "src", fn))
        with open(os.path.join(out, "src", "lib.rs"), "w") as f:
            f.write(LIB_RS)
        g = ["// GENERATED by /verif/kx/gen_abi.py from %s (oracle) and %s (subject) -- do not edit." % (self.header, self.src),
             "// One loop-free proof per struct / constant group: complete (no unwinding bound).",
             "#![allow(unused_imports, non_snake_case, clippy::all)]", ""]
        uses = sorted({u for h in self.harnesses for u in h.get("uses", [])})
        for u in uses:
            g.append("use %s;" % u)
        g += ["",
              "/// size of a field, from its type, without needing a value of the struct",
              "fn fsz<T, F>(_: fn(&T) -> &F) -> usize {", "    core::mem::size_of::<F>()", "}", "",
              "/// GENERATED from enum fuse_opcode: kernel opcodes that have a library `Opcode` variant",
              "/// (reserved byte-swap sentinels excluded). Used by the hand-written opcode_from proof.",
              "pub fn kernel_opcode_supported(x: u32) -> bool {",
              "    matches!(x, %s)" % (" | ".join(str(v) for v in self.supported_opcodes) or "u32::MAX if false"),
              "}", ""]
        for h in self.harnesses:
            g.append("#[kani::proof]")
            g.append("fn %s() {" % h["name"])
            g.append('    kani::cover!(true, "reached");')
            g.append("    // every check sits on its own path (selector), so one failing check cannot mask another")
            g.append("    let sel: u16 = kani::any();")
            for i, a in enumerate(h["asserts"]):
                g.append("    if sel == %d {" % i)
                g.append("        assert!(%s, %s);" % (a["cond"], json.dumps(a["msg"])))
                g.append("    }")
            g.append("}")
            g.append("")
        with open(os.path.join(out, "src", "gen.rs"), "w") as f:
            f.write("\n".join(g))

    def report(self):
        hand = []
        for fn in ("opcode.rs", "conv.rs", "canary.rs"):
            hand += hand_harnesses(os.path.join(KX_DIR, "abi_src", fn))
        rep = {
            "src": self.src, "header": self.header, "crate": self.out,
            "protocol": "%d.%d" % (self.kvalues["FUSE_KERNEL_VERSION"], self.kvalues["FUSE_KERNEL_MINOR_VERSION"]),
            "generated_harnesses": [{"name": h["name"], "obligations": h["obligations"], "asserts": [a["msg"] for a in h["asserts"]]} for h in self.harnesses],
            "hand_harnesses": hand,
            "assert_index": self.assert_index,
            "text_checks": self.text_checks,
            "failures": self.failures,
            "unchecked": self.unchecked,
            "kernel_only": self.kernel_only,
            "notes": self.notes,
            "skipped_header_macros": self.kskipped,
            "supported_opcodes": self.supported_opcodes,
        }
        with open(os.path.join(self.out, "report.json"), "w") as f:
            json.dump(rep, f, indent=1)
        return rep


CARGO_TOML = """# GENERATED by /verif/kx -- do not edit
[package]
name = "%(name)s"
version = "0.0.0"
edition = "2021"

[lib]
path = "src/lib.rs"

[dependencies]
fuse-backend-rs = { path = "%(pkg)s", features = ["fusedev", "virtiofs"] }
%(extra)s
[workspace]
"""

LIB_RS = """// GENERATED by /verif/kx/gen_abi.py -- do not edit.
#![cfg(kani)]
#![allow(dead_code)]
mod canary;
mod conv;
mod gen;
mod opcode;
"""


def hand_harnesses(path):
    """names of #[kani::proof] functions in a hand-written harness file (macro-stamped ones included)"""
    txt = open(path).read()
    names = re.findall(r"#\[kani::proof\]\s*(?:#\[[^\]]*\]\s*)*fn\s+(\w+)\s*\(", txt)
    # macro-stamped: `xxx_proof!(name, ...)`
    names += re.findall(r"^\w+_proof!\(\s*(\w+)\s*,", txt, flags=re.M)
    return [n for n in names if not n.startswith("$")]


def package_root(src):
    """directory usable as a cargo path dependency for the tree `src`.

    A full checkout (Cargo.toml present) is used as is. A tree that only has
    `src/` gets a shadow package under /verif/build/kx/pkg: `src` is a symlink
    to the tree, Cargo.toml / build.rs / Cargo.lock are copied from /repo."""
    src = os.path.abspath(src)
    if os.path.isfile(os.path.join(src, "Cargo.toml")):
        return src
    if not os.path.isdir(os.path.join(src, "src")):
        raise ToolError("%s has neither Cargo.toml nor src/" % src)
    os.makedirs(PKG_SHADOW, exist_ok=True)
    link = os.path.join(PKG_SHADOW, "src")
    if os.path.islink(link) or os.path.exists(link):
        os.remove(link)
    os.symlink(os.path.join(src, "src"), link)
    toml = open(os.path.join(FALLBACK_PKG, "Cargo.toml")).read()
    toml = re.sub(r"(\[workspace\]\s*\n)members\s*=\s*\[[^\]]*\]", r"\1members = []", toml)
    with open(os.path.join(PKG_SHADOW, "Cargo.toml"), "w") as f:
        f.write(toml)
    for fn in ("build.rs", "Cargo.lock"):
        if os.path.isfile(os.path.join(FALLBACK_PKG, fn)):
            shutil.copyfile(os.path.join(FALLBACK_PKG, fn), os.path.join(PKG_SHADOW, fn))
    return PKG_SHADOW


def copy_lock(pkg, out):
    for cand in (os.path.join(pkg, "Cargo.lock"), os.path.join(FALLBACK_PKG, "Cargo.lock")):
        if os.path.isfile(cand):
            shutil.copyfile(cand, os.path.join(out, "Cargo.lock"))
            return
    raise ToolError("no Cargo.lock found for offline dependency resolution")


def generate(src=DEFAULT_SRC, out=DEFAULT_OUT, header=None, map_path=DEFAULT_MAP):
    if header is None:
        try:
            header = json.load(open(map_path))["oracle"]["header"]
        except Exception as e:
            raise ToolError("cannot read exception table %s: %s" % (map_path, e))
    return Gen(os.path.abspath(src), out, header, map_path).run()


def main():
    ap = argparse.ArgumentParser(description=__doc__, formatter_class=argparse.RawDescriptionHelpFormatter)
    ap.add_argument("--src", default=DEFAULT_SRC, help="source root of fuse-backend-rs (default /repo)")
    ap.add_argument("--out", default=DEFAULT_OUT)
    ap.add_argument("--header", default=None)
    ap.add_argument("--map", default=DEFAULT_MAP)
    a = ap.parse_args()
    try:
        rep = generate(a.src, a.out, a.header, a.map)
    except ToolError as e:
        print("tool-error: %s" % e, file=sys.stderr)
        return 2
    n_as = sum(len(h["asserts"]) for h in rep["generated_harnesses"])
    print("oracle %s (protocol %s), subject %s" % (rep["header"], rep["protocol"], rep["src"]))
    print("generated %d Kani harnesses (%d assertions) + %d hand-written, crate %s" % (
        len(rep["generated_harnesses"]), n_as, len(rep["hand_harnesses"]), rep["crate"]))
    print("text-compared items: %d (%d failed)" % (len(rep["text_checks"]), sum(1 for t in rep["text_checks"] if not t["ok"])))
    print("unchecked: %d, kernel-only (informational): %d" % (len(rep["unchecked"]), len(rep["kernel_only"])))
    for f in rep["failures"]:
        print("FAIL %-28s %-14s %s:%s  %s" % (f["obligation"], f["kind"], f["site"]["file"], f["site"]["line"], f["rendered"]))
    return 1 if rep["failures"] else 0


if __name__ == "__main__":
    sys.exit(main())
