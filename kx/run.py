#!/usr/bin/env python3
"""Engine KX driver: (re)generate the Kani harness crates from the current text
of a fuse-backend-rs tree, run `cargo kani`, and turn the output into one result
dict per harness group.

    from run import run_harnesses
    run_harnesses("C13", ["abi"], "/repo", "full")        -> [ {...} ]
    run_harnesses("C04", ["file_buf"], "/repo", "full")   -> [ {...} ]

CLI:  python3 /verif/kx/run.py <group> [<group> ...] [--src DIR] [--pid PID] [--tier TIER]

Groups:
  abi       C13: layout + constants (generated), opcode decoding + stat/attr
            conversions (hand-written), canary
  file_buf  C04 (buffer-adapter clause): FileVolatileSlice proofs, canary

Statuses: "ok" | "fail" | "tool-error". Tool problems (build failure, timeout,
parse problems, missing header, canary not failing, vacuous proof, no harness
run) are always "tool-error", never failures of the library.
"""
import argparse
import concurrent.futures
import fnmatch
import json
import os
import re
import shutil
import signal
import subprocess
import sys
import time

KX_DIR = os.path.dirname(os.path.abspath(__file__))
sys.path.insert(0, KX_DIR)
import gen_abi  # noqa: E402

BUILD = "/verif/build/kx"
TARGET_DIR = os.path.join(BUILD, "target")
ABI_CRATE = os.path.join(BUILD, "abi")
FB_CRATE = os.path.join(BUILD, "file_buf")
JOBS = max(1, min(8, os.cpu_count() or 1))
TIMEOUT_S = 20 * 60
PLAYBACK_TIMEOUT_S = 5 * 60
CANARY = "canary_must_fail"

DEFAULT_PID = {"abi": "C13", "file_buf": "C04"}

# hand-written obligations -> (repo-relative file, regex locating the Rust item, display name)
HAND_SITES = {
    "C13.opcode.from": ("src/abi/fuse_abi_linux.rs", r"impl\s+From<u32>\s+for\s+Opcode", "<Opcode as From<u32>>::from"),
    "C13.conv.with_flags": ("src/abi/fuse_abi_linux.rs", r"pub\s+fn\s+with_flags\b", "Attr::with_flags"),
    "C13.conv.attr_from_stat64": ("src/abi/fuse_abi_linux.rs", r"impl\s+From<stat64>\s+for\s+Attr", "<Attr as From<stat64>>::from"),
    "C13.conv.stat64_from_attr": ("src/abi/fuse_abi_linux.rs", r"impl\s+From<Attr>\s+for\s+stat64", "<stat64 as From<Attr>>::from"),
    "C13.conv.attr_roundtrip": ("src/abi/fuse_abi_linux.rs", r"impl\s+From<Attr>\s+for\s+stat64", "<stat64 as From<Attr>>::from / <Attr as From<stat64>>::from"),
    "C13.conv.kstatfs_from_statvfs64": ("src/abi/fuse_abi_linux.rs", r"impl\s+From<statvfs64>\s+for\s+Kstatfs", "<Kstatfs as From<statvfs64>>::from"),
    "C13.conv.stat64_from_setattr_in": ("src/abi/fuse_abi_linux.rs", r"impl\s+From<SetattrIn>\s+for\s+stat64", "<stat64 as From<SetattrIn>>::from"),
    "C13.conv.entry_out_from_entry": ("src/api/filesystem/mod.rs", r"impl\s+From<Entry>\s+for\s+(?:\w+::)*EntryOut", "<EntryOut as From<Entry>>::from"),
}
# harness name -> default obligation (used when Kani reports a check without our "OBLIGATION: ..." message)
HAND_OBLIGATION = {
    "opcode_from": "C13.opcode.from",
    "conv_with_flags": "C13.conv.with_flags",
    "conv_attr_from_stat64": "C13.conv.attr_from_stat64",
    "conv_stat64_from_attr": "C13.conv.stat64_from_attr",
    "conv_attr_roundtrip": "C13.conv.attr_roundtrip",
    "conv_kstatfs_from_statvfs64": "C13.conv.kstatfs_from_statvfs64",
    "conv_stat64_from_setattr_in": "C13.conv.stat64_from_setattr_in",
    "conv_entry_out_from_entry": "C13.conv.entry_out_from_entry",
}
FB_FILE = "src/common/file_buf.rs"
FB_METHOD_RE = {
    "read_slice": r"fn\s+read_slice\s*\(", "read": r"fn\s+read\s*\(", "write_slice": r"fn\s+write_slice\s*\(", "write": r"fn\s+write\s*\(",
    "load": r"fn\s+load\s*<", "store": r"fn\s+store\s*<", "view.offset": r"pub\s+fn\s+offset\s*\(", "view.volatile_slice": r"pub\s+fn\s+as_volatile_slice\s*\(",
}


# --------------------------------------------------------------------------
# process handling
# --------------------------------------------------------------------------

def _run(cmd, cwd, timeout):
    """run cmd in its own process group; returns (rc, output, wall_s, timed_out)"""
    env = dict(os.environ)
    env["CARGO_NET_OFFLINE"] = "true"
    env["CARGO_TARGET_DIR"] = TARGET_DIR
    env.pop("RUSTFLAGS", None)
    t0 = time.time()
    try:
        p = subprocess.Popen(cmd, cwd=cwd, env=env, stdout=subprocess.PIPE, stderr=subprocess.STDOUT, text=True,
                             errors="replace", start_new_session=True)
    except OSError as e:
        return 127, "cannot start %s: %s" % (cmd[0], e), 0.0, False
    try:
        out, _ = p.communicate(timeout=timeout)
        return p.returncode, out, time.time() - t0, False
    except subprocess.TimeoutExpired:
        try:
            os.killpg(p.pid, signal.SIGKILL)  # kills cargo, kani-driver and every cbmc child (by process group, not by name)
        except OSError:
            pass
        try:
            out, _ = p.communicate(timeout=30)
        except Exception:
            out = ""
        return -9, out or "", time.time() - t0, True


def _kani_cmd(extra=()):
    return ["cargo", "kani", "--output-format", "terse"] + list(extra)


# --------------------------------------------------------------------------
# Kani output parsing
# --------------------------------------------------------------------------

def _norm_msg(raw):
    raw = raw.strip()
    if raw.startswith("concat!"):
        return "".join(json.loads('"%s"' % s) for s in re.findall(r'"((?:[^"\\]|\\.)*)"', raw))
    m = re.fullmatch(r'"((?:[^"\\]|\\.)*)"', raw, flags=re.S)
    if m:
        try:
            return json.loads('"%s"' % m.group(1))
        except ValueError:
            return m.group(1)
    return raw


def parse_kani(out):
    """-> (results: {short harness name: {...}}, summary or None)"""
    results = {}
    current = {}   # thread -> qualified harness name
    blocks = []    # (thread, [lines])
    cur = None
    for ln in out.splitlines():
        m = re.match(r"^(?:Thread (\d+): )?Checking harness (\S+?)\.\.\.\s*$", ln)
        if m:
            th = m.group(1) or "0"
            current[th] = m.group(2)
            if m.group(1) is None:
                cur = (th, m.group(2), [])
                blocks.append(cur)
            else:
                cur = None
            continue
        m = re.match(r"^Thread (\d+):\s*$", ln)
        if m:
            th = m.group(1)
            cur = (th, current.get(th), [])
            blocks.append(cur)
            continue
        if re.match(r"^(Manual Harness Summary:|Complete - )", ln):
            cur = None
        if cur is not None:
            cur[2].append(ln)
    for th, qname, lines in blocks:
        txt = "\n".join(lines)
        vm = re.search(r"VERIFICATION:- (SUCCESSFUL|FAILED)", txt)
        if not vm or qname is None:
            continue
        r = {"qualified": qname, "ok": vm.group(1) == "SUCCESSFUL", "failed_checks": [], "covers": None, "time_s": None, "text": txt.strip()}
        cm = re.search(r"\*\* (\d+) of (\d+) cover properties satisfied", txt)
        if cm:
            r["covers"] = (int(cm.group(1)), int(cm.group(2)))
        tm = re.search(r"Verification Time: ([0-9.]+)s", txt)
        if tm:
            r["time_s"] = float(tm.group(1))
        for chunk in txt.split("Failed Checks:")[1:]:
            chunk = re.split(r"\n\s*\n|\nVERIFICATION:-", chunk)[0]
            fm = re.search(r"^(.*?)\n\s*File: \"([^\"]*)\", line (\d+), in (\S+)", chunk, flags=re.S)
            if fm:
                r["failed_checks"].append({"msg": _norm_msg(fm.group(1)), "file": fm.group(2), "line": int(fm.group(3)), "in": fm.group(4)})
            else:
                r["failed_checks"].append({"msg": _norm_msg(chunk.strip().splitlines()[0] if chunk.strip() else ""), "file": None, "line": None, "in": None})
        results[qname.split("::")[-1]] = r
    sm = re.search(r"Complete - (\d+) successfully verified harnesses, (\d+) failures, (\d+) total", out)
    summary = tuple(int(x) for x in sm.groups()) if sm else None
    return results, summary


def parse_playback(out):
    """concrete values of the first counterexample (not cover witness) printed by --concrete-playback=print"""
    for blk in re.findall(r"```(.*?)```", out, flags=re.S):
        km = re.search(r"Check for `(\w+)`", blk)
        if km and km.group(1) == "cover":
            continue
        vals = []
        for vm in re.finditer(r"//\s*([^\n]*)\n\s*vec!\[([^\]]*)\]", blk):
            b = [int(x) for x in vm.group(2).split(",") if x.strip()]
            vals.append({"shown": vm.group(1).strip(), "bytes": b})
        if vals:
            return vals
    return None


def read_inputs_spec(paths):
    """`//@inputs <glob>: a:u32, b:[u8;8], @grp` and `//@define grp = ...` lines"""
    defs, specs = {}, []
    for p in paths:
        for ln in open(p).read().splitlines():
            m = re.match(r"\s*//@define\s+(\w+)\s*=\s*(.*)$", ln)
            if m:
                defs[m.group(1)] = m.group(2)
            m = re.match(r"\s*//@inputs\s+([\w*?]+)\s*:\s*(.*)$", ln)
            if m:
                specs.append((m.group(1), m.group(2)))
    out = []
    for glob, body in specs:
        body = re.sub(r"@(\w+)", lambda mm: defs.get(mm.group(1), mm.group(0)), body)
        items = []
        for part in re.split(r",\s*(?![^\[]*\])", body):
            part = part.strip()
            if not part:
                continue
            nm, _, ty = part.partition(":")
            items.append((nm.strip(), ty.strip()))
        out.append((glob, items))
    return out


def label_witness(harness, vals, specs):
    if vals is None:
        return None

    def num(v, ty):
        n = int.from_bytes(bytes(v["bytes"]), "little", signed=False)
        if ty.startswith("i"):
            bits = 8 * len(v["bytes"])
            if n >= 1 << (bits - 1):
                n -= 1 << bits
        return n
    for glob, items in specs:
        if not fnmatch.fnmatchcase(harness, glob):
            continue
        w, i = {}, 0
        try:
            for nm, ty in items:
                am = re.fullmatch(r"\[\s*\w+\s*;\s*(\d+)\s*\]", ty)
                if am:
                    n = int(am.group(1))
                    if len(vals[i]["bytes"]) == n and n > 1:
                        w[nm] = list(vals[i]["bytes"])
                        i += 1
                    else:
                        w[nm] = [num(v, "u8") for v in vals[i:i + n]]
                        if len(w[nm]) != n:
                            raise IndexError
                        i += n
                else:
                    w[nm] = num(vals[i], ty)
                    i += 1
        except IndexError:
            break
        if i == len(vals):
            return w
        break
    return {"kani_any_values_in_call_order": [num(v, "u") for v in vals]}


# --------------------------------------------------------------------------
# group runner
# --------------------------------------------------------------------------

def _find_line(src, relfile, pattern):
    try:
        txt = open(os.path.join(src, relfile)).read()
    except OSError:
        return None
    m = re.search(pattern, txt)
    return txt.count("\n", 0, m.start()) + 1 if m else None


def _base(group, cmd, assumptions, bounded):
    return {"harness": group, "status": "tool-error", "reason": "", "checks": 0, "failed": 0, "solver_ms": 0.0, "wall_s": 0.0,
            "checker_cmd": cmd, "bounded": bounded, "assumptions": assumptions, "samples": [], "unchecked": [], "failures": []}


def _failure(pid, obligation, kind, function, file, line, text, rendered, witness):
    return {"obligation": obligation, "tags": [obligation], "generic_tags": [], "props": [pid], "kind": kind, "function": function,
            "fn_key": None, "site": {"file": file, "line": line, "text": text}, "rendered": rendered, "witness": witness}


def _verify(res, crate, expected, resolve, pid, input_files):
    """run cargo kani on `crate`, fill `res`; `resolve(harness, failed_check) -> (obligation, function, file, line, witness|None)`"""
    t0 = time.time()
    cmd = _kani_cmd(["-j", str(JOBS)])
    rc, out, wall, timed_out = _run(cmd, crate, TIMEOUT_S)
    res["wall_s"] = round(wall, 2)
    log = os.path.join(crate, "kani.log")
    try:
        with open(log, "w") as f:
            f.write(out)
    except OSError:
        pass
    if timed_out:
        res["reason"] = "cargo kani exceeded %d s (killed); log %s" % (TIMEOUT_S, log)
        return
    results, summary = parse_kani(out)
    pre = ""
    if res["failures"]:
        pre = "(generator had already found %d text-level problem(s): %s) " % (len(res["failures"]), "; ".join("%s %s" % (f["obligation"], f["kind"]) for f in res["failures"][:5]))
    if not results:
        tail = "\n".join(l for l in out.splitlines() if l.startswith("error") or "panicked" in l or "internal error" in l)[-1500:]
        res["reason"] = pre + "cargo kani ran no harness (exit %s): build or tool failure; log %s\n%s" % (rc, log, tail or out[-1500:])
        return
    res["solver_ms"] = round(1000.0 * sum(r["time_s"] or 0.0 for r in results.values()), 1)
    if summary is None or summary[2] != len(results) or summary[1] != sum(1 for r in results.values() if not r["ok"]):
        res["reason"] = "cannot parse cargo kani output consistently (summary %s, parsed %d results); log %s" % (summary, len(results), log)
        return
    missing = sorted(set(expected) - set(results))
    extra = sorted(set(results) - set(expected))
    if missing or extra:
        res["reason"] = "harness set mismatch: not run %s, unexpected %s; log %s" % (missing, extra, log)
        return
    if CANARY not in results or results[CANARY]["ok"]:
        res["reason"] = "the deliberately false harness %s did not fail: the tool chain is not checking; log %s" % (CANARY, log)
        return
    for name, r in results.items():
        if r["ok"] and (r["covers"] is None or r["covers"][0] != r["covers"][1] or r["covers"][1] == 0):
            res["reason"] = "vacuity guard: harness %s has unsatisfied or missing cover properties %s; log %s" % (name, r["covers"], log)
            return
        for fc in r["failed_checks"]:
            if name != CANARY and "unwinding assertion" in fc["msg"]:
                res["reason"] = "harness %s: unwinding bound too small (%s): result is not a verdict; log %s" % (name, fc["msg"], log)
                return
    res["checks"] += len(results) - 1  # canary not counted
    specs = read_inputs_spec(input_files)
    failing = [n for n, r in results.items() if not r["ok"] and n != CANARY]
    # counterexample values for hand-written (symbolic-input) harnesses: re-run with concrete playback
    need_pb = [n for n in failing if any(fnmatch.fnmatchcase(n, g) for g, _ in specs)]
    playback = {}
    if need_pb:
        def pb(n):
            c = _kani_cmd(["-Z", "concrete-playback", "--concrete-playback=print", "--exact", "--harness", results[n]["qualified"]])
            _rc, o, _w, to = _run(c, crate, PLAYBACK_TIMEOUT_S)
            return n, (None if to else parse_playback(o))
        with concurrent.futures.ThreadPoolExecutor(max_workers=JOBS) as ex:  # cargo serialises the (small) rebuild itself
            for n, v in ex.map(pb, need_pb):
                playback[n] = v
    for name in sorted(failing):
        r = results[name]
        by_obl = {}
        checks = r["failed_checks"] or [{"msg": "verification failed (no failed check reported)", "file": None, "line": None, "in": None}]
        for fc in checks:
            obligation, function, file, line, wit = resolve(name, fc)
            by_obl.setdefault(obligation, []).append((fc, function, file, line, wit))
        for obligation, lst in by_obl.items():
            fc, function, file, line, wit = lst[0]
            if name in playback:
                wit = label_witness(name, playback[name], specs)
            rendered = "harness %s: VERIFICATION FAILED\n" % r["qualified"] + "\n".join(
                "Failed check: %s\n  at %s:%s in %s" % (x[0]["msg"], x[0]["file"], x[0]["line"], x[0]["in"]) for x in lst)
            res["failures"].append(_failure(pid, obligation, "kani assertion failed", function, file, line, fc["msg"], rendered, wit))
    res["wall_s"] = round(time.time() - t0 + res.get("_gen_s", 0.0), 2)
    res["status"] = "fail" if res["failures"] else "ok"


def run_abi(pid, src, tier):
    cmd = "cd %s && CARGO_NET_OFFLINE=true CARGO_TARGET_DIR=%s cargo kani --output-format terse -j %d   # after: python3 %s/gen_abi.py --src %s" % (
        ABI_CRATE, TARGET_DIR, JOBS, KX_DIR, src)
    res = _base("abi", cmd, [], None)
    t0 = time.time()
    try:
        rep = gen_abi.generate(src, ABI_CRATE)
    except gen_abi.ToolError as e:
        res["reason"] = "generator: %s" % e
        res["wall_s"] = round(time.time() - t0, 2)
        return res
    except Exception as e:  # parse problems are tool problems
        res["reason"] = "generator crashed: %r" % (e,)
        res["wall_s"] = round(time.time() - t0, 2)
        return res
    res["_gen_s"] = time.time() - t0
    res["assumptions"] = [
        "kernel header %s (protocol %s), compiled with clang for the host ABI (x86_64), is the oracle" % (rep["header"], rep["protocol"]),
        "exception table %s/abi_map.json (renamed fields, repurposed padding, compat prefixes, renamed constants) is trusted" % KX_DIR,
        "Kani/rustc layout of the crate built with features fusedev+virtiofs for the host target is the layout used in production",
        "generated layout/constant proofs and the hand-written opcode/conversion proofs are loop-free: complete, no unwinding bound",
        "unchecked (listed, not compared): %d constants absent from the %s header" % (len(rep["unchecked"]), rep["protocol"]),
        "private items are compared from their source-text literal value (text-compared), not by Kani",
    ]
    res["unchecked"] = list(rep["unchecked"])
    res["checks"] = len(rep["text_checks"])
    idx = rep["assert_index"]
    want = ["C13.layout.Attr: offset_of!(Attr, atimensec)", "C13.const.WRITE_CACHE:", "C13.const.Opcode::Setlkw:", "C13.const.FsOptions::ASYNC_READ:"]
    for w in want:
        for msg, meta in idx.items():
            if msg.startswith(w):
                res["samples"].append({"obligation": meta["obligation"], "clause": meta["clause"]})
                break
    for f in rep["failures"]:
        res["failures"].append(_failure(pid, f["obligation"], f["kind"], f["function"], f["site"]["file"], f["site"]["line"], f["site"]["text"], f["rendered"], f["witness"]))
    gen_names = {h["name"]: h for h in rep["generated_harnesses"]}

    def resolve(name, fc):
        meta = idx.get(fc["msg"])
        if meta:
            return meta["obligation"], meta["function"], meta["site"]["file"], meta["site"]["line"], meta["witness"]
        m = re.match(r"^((?:C\d+|KX)\.[\w.:]+?): ", fc["msg"])
        obligation = m.group(1) if m else None
        if obligation is None:
            obligation = HAND_OBLIGATION.get(name) or (gen_names[name]["obligations"][0] if name in gen_names and gen_names[name]["obligations"] else "C13." + name)
        site = HAND_SITES.get(obligation) or HAND_SITES.get(HAND_OBLIGATION.get(name, ""))
        if site:
            return obligation, site[2], site[0], _find_line(src, site[0], site[1]), None
        return obligation, name, None, None, None

    expected = list(gen_names) + rep["hand_harnesses"]
    _verify(res, ABI_CRATE, expected, resolve, pid, [os.path.join(KX_DIR, "abi_src", f) for f in ("opcode.rs", "conv.rs", "canary.rs")])
    res.pop("_gen_s", None)
    if res["status"] != "tool-error":
        res["failed"] = len(res["failures"])
    return res


def gen_file_buf(src):
    pkg = gen_abi.package_root(src)
    os.makedirs(os.path.join(FB_CRATE, "src"), exist_ok=True)
    os.makedirs(os.path.join(FB_CRATE, ".cargo"), exist_ok=True)
    ver = "*"
    try:
        toml = open(os.path.join(pkg, "Cargo.toml")).read()
        m = re.search(r'^vm-memory\s*=\s*(?:"([^"]+)"|\{[^}]*version\s*=\s*"([^"]+)")', toml, flags=re.M)
        if m:
            ver = m.group(1) or m.group(2)
    except OSError:
        pass
    with open(os.path.join(FB_CRATE, "Cargo.toml"), "w") as f:
        f.write(gen_abi.CARGO_TOML % {"name": "kx-file-buf", "pkg": pkg, "extra": 'vm-memory = "%s"\n' % ver})
    with open(os.path.join(FB_CRATE, ".cargo", "config.toml"), "w") as f:
        f.write("[net]\noffline = true\n")
    gen_abi.copy_lock(pkg, FB_CRATE)
    shutil.copyfile(os.path.join(KX_DIR, "file_buf_src", "lib.rs"), os.path.join(FB_CRATE, "src", "lib.rs"))
    if not os.path.isfile(os.path.join(src, FB_FILE)):
        raise gen_abi.ToolError("%s not found under %s" % (FB_FILE, src))
    return gen_abi.hand_harnesses(os.path.join(KX_DIR, "file_buf_src", "lib.rs"))


def run_file_buf(pid, src, tier):
    cmd = "cd %s && CARGO_NET_OFFLINE=true CARGO_TARGET_DIR=%s cargo kani --output-format terse -j %d" % (FB_CRATE, TARGET_DIR, JOBS)
    bounded = ("fixed transfer lengths L = 0..=4 (load/store: 1, 2, 4) over an 8-byte buffer, offset fully symbolic; "
               "read/write/read_slice/write_slice proofs carry #[kani::unwind(6)] for vm-memory's <= 4-byte copy loop with unwinding "
               "assertions ON (a too small bound would be reported as tool-error), so each proof is complete for its L; "
               "load/store/view proofs have no unwinding annotation")
    res = _base("file_buf", cmd, [
        "model: 8-byte 8-aligned backing buffer with symbolic contents, FileVolatileSlice over exactly these bytes, symbolic usize offset",
        "vm-memory (version pinned by Cargo.lock) is executed, not stubbed; Kani treats its volatile/atomic accesses as sequential",
        "a failed write_slice that straddles the end may have stored a prefix inside [off, size) (vm-memory's Bytes contract); nothing outside may change",
        "zero-length accesses: memory unchanged; success required only for off <= size",
        "misaligned load/store may be rejected by vm-memory; success is required for naturally aligned in-range accesses",
    ], bounded)
    t0 = time.time()
    try:
        expected = gen_file_buf(src)
    except gen_abi.ToolError as e:
        res["reason"] = "generator: %s" % e
        return res
    except Exception as e:
        res["reason"] = "generator crashed: %r" % (e,)
        return res
    res["_gen_s"] = time.time() - t0
    res["samples"] = [
        {"obligation": "C04.file_buf.read_slice.len2", "clause": "after s.read_slice(&mut out[..2], off): memory == memory before; off + 2 <= 8 ==> Ok and out[..2] == mem[off..off+2]; else Err"},
        {"obligation": "C04.file_buf.write_slice.len3", "clause": "after s.write_slice(&data[..3], off), off + 3 <= 8: Ok and for all i in 0..8: mem[i] == (off <= i < off+3 ? data[i-off] : before[i])"},
        {"obligation": "C04.file_buf.store.len4", "clause": "s.store(val: u32, off): Ok ==> exactly bytes off..off+4 become val.to_ne_bytes(); Err ==> memory unchanged; off + 4 > 8 ==> Err"},
        {"obligation": "C04.file_buf.view.offset", "clause": "s.offset(c): Ok iff c <= 8; view.len() == 8 - c; view.as_ptr() == base + c; 1-byte read/write at a through the view hits parent byte c + a"},
    ]

    def resolve(name, fc):
        m = re.match(r"^(C04\.file_buf\.[\w.]+?): ", fc["msg"])
        if m:
            obligation = m.group(1)
        else:
            hm = re.fullmatch(r"(read_slice|write_slice|read|write|load|store)_len(\d)", name)
            obligation = "C04.file_buf.%s.len%s" % (hm.group(1), hm.group(2)) if hm else "C04.file_buf." + name.replace("view_offset", "view.offset").replace("view_volatile_slice_roundtrip", "view.volatile_slice")
        mm = re.match(r"C04\.file_buf\.(view\.\w+|\w+)", obligation)
        method = mm.group(1) if mm else None
        pat = FB_METHOD_RE.get(method)
        fn = "FileVolatileSlice::%s" % (method.split(".")[-1] if method else name)
        if method in ("read_slice", "write_slice", "read", "write", "load", "store"):
            fn = "<FileVolatileSlice as vm_memory::Bytes<usize>>::%s" % method
        return obligation, fn, FB_FILE, _find_line(src, FB_FILE, pat) if pat else None, None

    _verify(res, FB_CRATE, expected, resolve, pid, [os.path.join(KX_DIR, "file_buf_src", "lib.rs")])
    res.pop("_gen_s", None)
    if res["status"] != "tool-error":
        res["failed"] = len(res["failures"])
    return res


GROUPS = {"abi": run_abi, "file_buf": run_file_buf}


def run_harnesses(pid, names, src, tier):
    """one result dict per harness group in `names` ("abi", "file_buf")"""
    out = []
    os.makedirs(BUILD, exist_ok=True)
    src = os.path.abspath(src)
    for name in names:
        fn = GROUPS.get(name)
        if fn is None:
            r = _base(name, "", [], None)
            r["reason"] = "unknown harness group %r (known: %s)" % (name, ", ".join(sorted(GROUPS)))
            out.append(r)
            continue
        try:
            r = fn(pid, src, tier)
        except Exception as e:  # never let a tool crash look like a verdict
            r = _base(name, "", [], None)
            r["reason"] = "driver crashed: %r" % (e,)
        if r["status"] == "tool-error":
            r["failures"] = []
            r["failed"] = 0
        out.append(r)
    return out


def main():
    ap = argparse.ArgumentParser(description=__doc__, formatter_class=argparse.RawDescriptionHelpFormatter)
    ap.add_argument("groups", nargs="+", help="abi | file_buf")
    ap.add_argument("--src", default="/repo")
    ap.add_argument("--pid", default=None, help="property id put into failures[].props (default: C13 for abi, C04 for file_buf)")
    ap.add_argument("--tier", default="full")
    a = ap.parse_args()
    res = []
    for g in a.groups:
        res += run_harnesses(a.pid or DEFAULT_PID.get(g, "KX"), [g], a.src, a.tier)
    json.dump(res, sys.stdout, indent=1)
    print()
    return 0 if all(r["status"] == "ok" for r in res) else 1


if __name__ == "__main__":
    sys.exit(main())
