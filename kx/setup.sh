#!/bin/bash
# Engine KX: warm the cargo/kani build offline (dependencies of fuse-backend-rs compiled
# by kani-compiler into /verif/build/kx/target) by generating both harness crates from
# /repo and verifying one trivial harness of each. Later runs then only rebuild the
# harness crates (and fuse-backend-rs itself when its source changed).
set -e
cd "$(dirname "$0")"
export CARGO_NET_OFFLINE=true
export CARGO_TARGET_DIR=/verif/build/kx/target
SRC="${1:-/repo}"
command -v cargo-kani >/dev/null || cargo kani --version >/dev/null || { echo "kx: cargo kani not found"; exit 1; }
command -v clang >/dev/null || { echo "kx: clang not found"; exit 1; }
[ -f /usr/include/linux/fuse.h ] || { echo "kx: /usr/include/linux/fuse.h not found"; exit 1; }
mkdir -p /verif/build/kx
python3 gen_abi.py --src "$SRC" >/dev/null || { echo "kx: gen_abi.py reports problems on $SRC (see python3 /verif/kx/gen_abi.py)"; }
python3 - "$SRC" <<'EOP'
import sys
sys.path.insert(0, "/verif/kx")
import run
run.gen_file_buf(sys.argv[1])
EOP
( cd /verif/build/kx/abi && cargo kani --output-format terse --harness const_version 2>&1 | tail -n 3 | grep -q "1 successfully verified harnesses, 0 failures" ) \
    || { echo "kx: warm-up of the abi crate failed (cd /verif/build/kx/abi && cargo kani --harness const_version)"; exit 1; }
( cd /verif/build/kx/file_buf && cargo kani --output-format terse --harness view_volatile_slice_roundtrip 2>&1 | tail -n 3 | grep -q "1 successfully verified harnesses, 0 failures" ) \
    || { echo "kx: warm-up of the file_buf crate failed (cd /verif/build/kx/file_buf && cargo kani --harness view_volatile_slice_roundtrip)"; exit 1; }
echo "kx setup ok"
