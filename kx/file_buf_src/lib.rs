// Engine KX, property C04 (clause "the buffer adapters used for file I/O behave
// as plain views of the underlying bytes"): Kani harnesses for
// fuse_backend_rs::file_buf::FileVolatileSlice.
//
// Model: an 8-byte, 8-aligned backing buffer with fully symbolic contents, a
// FileVolatileSlice over exactly these 8 bytes, a fully symbolic `usize`
// offset (so also "far out of range" and address-overflowing offsets), and a
// FIXED transfer length L per proof (L = 0..=4; 1/2/4 for load/store).
// The harness code itself contains no loops (all comparisons are unrolled over
// the 8 memory bytes). load/store/view proofs need no unwinding annotation.
// The read/write proofs go through vm-memory's `copy_slice_volatile`, whose
// copy loop has a symbolic trip count (min(L, 8 - off) <= 4 bytes): CBMC cannot
// bound it syntactically, so these proofs carry `#[kani::unwind(6)]`. Kani's
// unwinding assertions are ON: if 6 were not enough the proof would FAIL with
// an "unwinding assertion" -- so a successful proof is still complete for its
// length L and this buffer size; the bound does not restrict the result.
//
// Specification (what a plain view of bytes must do):
//   read-like  (read_slice / read / load): bytes returned == memory bytes at
//       that offset; MEMORY AFTERWARDS == MEMORY BEFORE, always.
//   write-like (write_slice / write / store): on success exactly the addressed
//       range changes, to the data; every other byte keeps its value.
//   in range  (off + L <= 8): the access succeeds (load/store: if naturally
//       aligned; vm-memory rejects misaligned atomic accesses).
//   out of range: the access fails. If it is entirely out of range
//       (off >= 8, L > 0) memory is untouched. If it straddles the end
//       (off < 8 < off + L): read/write transfer the in-range prefix and report
//       its length; read_slice/write_slice fail; a failed straddling
//       write_slice may have stored a prefix of the data inside [off, 8)
//       (vm-memory's documented Bytes contract) but never touches any byte
//       outside [off, 8); load/store fail and leave memory untouched.
//   views: offset(c) addresses bytes c.. of the parent; as_volatile_slice /
//       from_volatile_slice keep address and length.
//
// `//@inputs <harness-glob>: ...` lines name the kani::any() calls in order;
// run.py uses them to label CBMC counterexample values.

#![cfg(kani)]
#![allow(dead_code)]
#![allow(clippy::all)]

use core::sync::atomic::Ordering;
use fuse_backend_rs::file_buf::FileVolatileSlice;
use vm_memory::Bytes;

const N: usize = 8;

#[repr(C, align(8))]
struct Mem([u8; N]);

/// Snapshot of the 8 backing bytes, read straight through the raw pointer.
unsafe fn snap(p: *const u8) -> [u8; N] {
    [
        core::ptr::read_volatile(p),
        core::ptr::read_volatile(p.add(1)),
        core::ptr::read_volatile(p.add(2)),
        core::ptr::read_volatile(p.add(3)),
        core::ptr::read_volatile(p.add(4)),
        core::ptr::read_volatile(p.add(5)),
        core::ptr::read_volatile(p.add(6)),
        core::ptr::read_volatile(p.add(7)),
    ]
}

fn same(a: &[u8; N], b: &[u8; N]) -> bool {
    a[0] == b[0] && a[1] == b[1] && a[2] == b[2] && a[3] == b[3] && a[4] == b[4] && a[5] == b[5] && a[6] == b[6] && a[7] == b[7]
}

/// byte `i` of the memory expected after storing the first `n` bytes of `d` at `off`
/// (caller guarantees off + n <= 8, n <= 4)
fn expect_byte(before: &[u8; N], d: &[u8; 4], off: usize, n: usize, i: usize) -> u8 {
    if i >= off && i - off < n {
        d[i - off]
    } else {
        before[i]
    }
}

fn written_exactly(after: &[u8; N], before: &[u8; N], d: &[u8; 4], off: usize, n: usize) -> bool {
    after[0] == expect_byte(before, d, off, n, 0)
        && after[1] == expect_byte(before, d, off, n, 1)
        && after[2] == expect_byte(before, d, off, n, 2)
        && after[3] == expect_byte(before, d, off, n, 3)
        && after[4] == expect_byte(before, d, off, n, 4)
        && after[5] == expect_byte(before, d, off, n, 5)
        && after[6] == expect_byte(before, d, off, n, 6)
        && after[7] == expect_byte(before, d, off, n, 7)
}

/// the first `n` (<= 4) bytes of `out` are the memory bytes at `off` (off + n <= 8)
fn got_bytes(out: &[u8; 4], mem: &[u8; N], off: usize, n: usize) -> bool {
    (n < 1 || out[0] == mem[off]) && (n < 2 || out[1] == mem[off + 1]) && (n < 3 || out[2] == mem[off + 2]) && (n < 4 || out[3] == mem[off + 3])
}

/// bytes outside [off, 8) are unchanged, bytes inside are old or the matching data byte
fn straddle_ok(after: &[u8; N], before: &[u8; N], d: &[u8; 4], off: usize) -> bool {
    let ok = |i: usize| -> bool {
        if i < off {
            after[i] == before[i]
        } else {
            after[i] == before[i] || (i - off < 4 && after[i] == d[i - off])
        }
    };
    ok(0) && ok(1) && ok(2) && ok(3) && ok(4) && ok(5) && ok(6) && ok(7)
}

/// first (up to 4) bytes of `b`, zero padded -- written without a loop
fn pad4(b: &[u8]) -> [u8; 4] {
    [
        if b.len() > 0 { b[0] } else { 0 },
        if b.len() > 1 { b[1] } else { 0 },
        if b.len() > 2 { b[2] } else { 0 },
        if b.len() > 3 { b[3] } else { 0 },
    ]
}

fn in_range(off: usize, len: usize) -> bool {
    off <= N && len <= N - off
}

// ---------------------------------------------------------------------------
// read_slice / read
// ---------------------------------------------------------------------------

//@inputs read_slice_len*: mem:[u8;8], off:usize, out:[u8;4]
macro_rules! read_slice_proof {
    ($name:ident, $len:literal, $tag:literal) => {
        #[kani::proof]
        #[kani::unwind(6)] // vm-memory copies <= 4 bytes in a loop; see header comment
        fn $name() {
            let mut mem = Mem(kani::any());
            let off: usize = kani::any();
            let mut out: [u8; 4] = kani::any();
            let p = mem.0.as_mut_ptr();
            let before = unsafe { snap(p) };
            let s = unsafe { FileVolatileSlice::from_raw_ptr(p, N) };

            let r = s.read_slice(&mut out[..$len], off);

            let after = unsafe { snap(p) };
            kani::cover!(r.is_ok() && off == N - $len, "in-range read reached");
            kani::cover!(r.is_err() || $len == 0, "failing read reached");
            assert!(same(&after, &before), concat!($tag, ": read_slice leaves memory unchanged"));
            if in_range(off, $len) {
                assert!(r.is_ok(), concat!($tag, ": in-range read_slice succeeds"));
                assert!(got_bytes(&out, &before, off, $len), concat!($tag, ": read_slice returns the bytes at the offset"));
            } else if $len > 0 {
                // (an empty access touches no byte: no requirement on its result)
                assert!(r.is_err(), concat!($tag, ": out-of-range read_slice fails"));
            }
        }
    };
}
read_slice_proof!(read_slice_len0, 0, "C04.file_buf.read_slice.len0");
read_slice_proof!(read_slice_len1, 1, "C04.file_buf.read_slice.len1");
read_slice_proof!(read_slice_len2, 2, "C04.file_buf.read_slice.len2");
read_slice_proof!(read_slice_len3, 3, "C04.file_buf.read_slice.len3");
read_slice_proof!(read_slice_len4, 4, "C04.file_buf.read_slice.len4");

//@inputs read_len*: mem:[u8;8], off:usize, out:[u8;4]
macro_rules! read_proof {
    ($name:ident, $len:literal, $tag:literal) => {
        #[kani::proof]
        #[kani::unwind(6)] // vm-memory copies <= 4 bytes in a loop; see header comment
        fn $name() {
            let mut mem = Mem(kani::any());
            let off: usize = kani::any();
            let mut out: [u8; 4] = kani::any();
            let p = mem.0.as_mut_ptr();
            let before = unsafe { snap(p) };
            let s = unsafe { FileVolatileSlice::from_raw_ptr(p, N) };

            let r = s.read(&mut out[..$len], off);

            let after = unsafe { snap(p) };
            kani::cover!(r.is_ok() && off == N - $len, "in-range read reached");
            kani::cover!(r.is_err() || $len == 0, "failing read reached");
            assert!(same(&after, &before), concat!($tag, ": read leaves memory unchanged"));
            if $len == 0 {
                assert!(matches!(r, Ok(0)), concat!($tag, ": empty read returns Ok(0)"));
            } else if off < N {
                // in range or straddling: the in-range prefix is transferred
                let want = if $len <= N - off { $len } else { N - off };
                assert!(matches!(r, Ok(n) if n == want), concat!($tag, ": read returns min(len, size - off) bytes"));
                assert!(got_bytes(&out, &before, off, want), concat!($tag, ": read returns the bytes at the offset"));
            } else {
                assert!(r.is_err(), concat!($tag, ": out-of-range read fails"));
            }
        }
    };
}
read_proof!(read_len0, 0, "C04.file_buf.read.len0");
read_proof!(read_len1, 1, "C04.file_buf.read.len1");
read_proof!(read_len2, 2, "C04.file_buf.read.len2");
read_proof!(read_len3, 3, "C04.file_buf.read.len3");
read_proof!(read_len4, 4, "C04.file_buf.read.len4");

// ---------------------------------------------------------------------------
// write_slice / write
// ---------------------------------------------------------------------------

//@inputs write_slice_len*: mem:[u8;8], off:usize, data:[u8;4]
macro_rules! write_slice_proof {
    ($name:ident, $len:literal, $tag:literal) => {
        #[kani::proof]
        #[kani::unwind(6)] // vm-memory copies <= 4 bytes in a loop; see header comment
        fn $name() {
            let mut mem = Mem(kani::any());
            let off: usize = kani::any();
            let data: [u8; 4] = kani::any();
            let p = mem.0.as_mut_ptr();
            let before = unsafe { snap(p) };
            let s = unsafe { FileVolatileSlice::from_raw_ptr(p, N) };

            let r = s.write_slice(&data[..$len], off);

            let after = unsafe { snap(p) };
            kani::cover!(r.is_ok() && off == N - $len, "in-range write reached");
            kani::cover!(r.is_err() || $len == 0, "failing write reached");
            if in_range(off, $len) {
                assert!(r.is_ok(), concat!($tag, ": in-range write_slice succeeds"));
                assert!(written_exactly(&after, &before, &data, off, $len), concat!($tag, ": write_slice changes exactly the range to the data"));
            } else if $len == 0 {
                // an empty access touches no byte: no requirement on its result
                assert!(same(&after, &before), concat!($tag, ": empty write_slice leaves memory unchanged"));
            } else {
                assert!(r.is_err(), concat!($tag, ": out-of-range write_slice fails"));
                if off >= N {
                    assert!(same(&after, &before), concat!($tag, ": out-of-range write_slice leaves memory unchanged"));
                } else {
                    assert!(straddle_ok(&after, &before, &data, off), concat!($tag, ": straddling write_slice touches nothing outside [off, size)"));
                }
            }
        }
    };
}
write_slice_proof!(write_slice_len0, 0, "C04.file_buf.write_slice.len0");
write_slice_proof!(write_slice_len1, 1, "C04.file_buf.write_slice.len1");
write_slice_proof!(write_slice_len2, 2, "C04.file_buf.write_slice.len2");
write_slice_proof!(write_slice_len3, 3, "C04.file_buf.write_slice.len3");
write_slice_proof!(write_slice_len4, 4, "C04.file_buf.write_slice.len4");

//@inputs write_len*: mem:[u8;8], off:usize, data:[u8;4]
macro_rules! write_proof {
    ($name:ident, $len:literal, $tag:literal) => {
        #[kani::proof]
        #[kani::unwind(6)] // vm-memory copies <= 4 bytes in a loop; see header comment
        fn $name() {
            let mut mem = Mem(kani::any());
            let off: usize = kani::any();
            let data: [u8; 4] = kani::any();
            let p = mem.0.as_mut_ptr();
            let before = unsafe { snap(p) };
            let s = unsafe { FileVolatileSlice::from_raw_ptr(p, N) };

            let r = s.write(&data[..$len], off);

            let after = unsafe { snap(p) };
            kani::cover!(r.is_ok() && off == N - $len, "in-range write reached");
            kani::cover!(r.is_err() || $len == 0, "failing write reached");
            if $len == 0 {
                assert!(matches!(r, Ok(0)), concat!($tag, ": empty write returns Ok(0)"));
                assert!(same(&after, &before), concat!($tag, ": empty write leaves memory unchanged"));
            } else if off < N {
                let want = if $len <= N - off { $len } else { N - off };
                assert!(matches!(r, Ok(n) if n == want), concat!($tag, ": write stores min(len, size - off) bytes"));
                assert!(written_exactly(&after, &before, &data, off, want), concat!($tag, ": write changes exactly the range to the data"));
            } else {
                assert!(r.is_err(), concat!($tag, ": out-of-range write fails"));
                assert!(same(&after, &before), concat!($tag, ": out-of-range write leaves memory unchanged"));
            }
        }
    };
}
write_proof!(write_len0, 0, "C04.file_buf.write.len0");
write_proof!(write_len1, 1, "C04.file_buf.write.len1");
write_proof!(write_len2, 2, "C04.file_buf.write.len2");
write_proof!(write_len3, 3, "C04.file_buf.write.len3");
write_proof!(write_len4, 4, "C04.file_buf.write.len4");

// ---------------------------------------------------------------------------
// load / store (atomic accessors; vm-memory requires natural alignment)
// ---------------------------------------------------------------------------

//@inputs load_len*: mem:[u8;8], off:usize
macro_rules! load_proof {
    ($name:ident, $ty:ty, $len:literal, $tag:literal) => {
        #[kani::proof]
        fn $name() {
            let mut mem = Mem(kani::any());
            let off: usize = kani::any();
            let p = mem.0.as_mut_ptr();
            let before = unsafe { snap(p) };
            let s = unsafe { FileVolatileSlice::from_raw_ptr(p, N) };

            let r: Result<$ty, _> = s.load(off, Ordering::SeqCst);

            let after = unsafe { snap(p) };
            kani::cover!(r.is_ok() && off == N - $len, "in-range load reached");
            kani::cover!(r.is_err(), "failing load reached");
            assert!(same(&after, &before), concat!($tag, ": load leaves memory unchanged"));
            if in_range(off, $len) {
                if off % $len == 0 {
                    assert!(r.is_ok(), concat!($tag, ": in-range aligned load succeeds"));
                }
                if let Ok(v) = r {
                    let out = pad4(&v.to_ne_bytes());
                    assert!(got_bytes(&out, &before, off, $len), concat!($tag, ": load returns the bytes at the offset"));
                }
            } else {
                assert!(r.is_err(), concat!($tag, ": out-of-range load fails"));
            }
        }
    };
}
load_proof!(load_len1, u8, 1, "C04.file_buf.load.len1");
load_proof!(load_len2, u16, 2, "C04.file_buf.load.len2");
load_proof!(load_len4, u32, 4, "C04.file_buf.load.len4");

//@inputs store_len*: mem:[u8;8], off:usize, val
macro_rules! store_proof {
    ($name:ident, $ty:ty, $len:literal, $tag:literal) => {
        #[kani::proof]
        fn $name() {
            let mut mem = Mem(kani::any());
            let off: usize = kani::any();
            let val: $ty = kani::any();
            let p = mem.0.as_mut_ptr();
            let before = unsafe { snap(p) };
            let s = unsafe { FileVolatileSlice::from_raw_ptr(p, N) };

            let r = s.store(val, off, Ordering::SeqCst);

            let after = unsafe { snap(p) };
            let data = pad4(&val.to_ne_bytes());
            kani::cover!(r.is_ok() && off == N - $len, "in-range store reached");
            kani::cover!(r.is_err(), "failing store reached");
            if in_range(off, $len) && off % $len == 0 {
                assert!(r.is_ok(), concat!($tag, ": in-range aligned store succeeds"));
            }
            if !in_range(off, $len) {
                assert!(r.is_err(), concat!($tag, ": out-of-range store fails"));
            }
            if r.is_ok() {
                assert!(written_exactly(&after, &before, &data, off, $len), concat!($tag, ": store changes exactly the range to the value"));
            } else {
                assert!(same(&after, &before), concat!($tag, ": failed store leaves memory unchanged"));
            }
        }
    };
}
store_proof!(store_len1, u8, 1, "C04.file_buf.store.len1");
store_proof!(store_len2, u16, 2, "C04.file_buf.store.len2");
store_proof!(store_len4, u32, 4, "C04.file_buf.store.len4");

// ---------------------------------------------------------------------------
// views
// ---------------------------------------------------------------------------

//@inputs view_offset: mem:[u8;8], count:usize, a:usize, d:u8
#[kani::proof]
fn view_offset() {
    let mut mem = Mem(kani::any());
    let count: usize = kani::any();
    let a: usize = kani::any();
    let d: u8 = kani::any();
    let p = mem.0.as_mut_ptr();
    let before = unsafe { snap(p) };
    let s = unsafe { FileVolatileSlice::from_raw_ptr(p, N) };

    let v = s.offset(count);

    kani::cover!(v.is_ok() && count == 3 && a == 4, "C04.file_buf.view.offset: sub-view reached");
    kani::cover!(v.is_err(), "C04.file_buf.view.offset: failing offset reached");
    if count <= N {
        assert!(v.is_ok(), "C04.file_buf.view.offset: offset(count) succeeds for count <= len");
    } else {
        assert!(v.is_err(), "C04.file_buf.view.offset: offset(count) fails for count > len");
    }
    assert!(same(&unsafe { snap(p) }, &before), "C04.file_buf.view.offset: taking a view leaves memory unchanged");
    if let Ok(v) = v {
        assert!(v.len() == N - count, "C04.file_buf.view.offset: view length == len - count");
        assert!(v.is_empty() == (count == N), "C04.file_buf.view.offset: is_empty() == (len() == 0)");
        assert!(v.as_ptr() as usize == p as usize + count, "C04.file_buf.view.offset: view starts at byte `count` of the parent");
        // one-byte read and write through the view address byte count + a of the parent
        let mut out = [0u8; 1];
        let r = v.read(&mut out, a);
        if a < N - count {
            assert!(matches!(r, Ok(1)) && out[0] == before[count + a], "C04.file_buf.view.offset: read through the view returns parent byte count + a");
            let w = v.write(&[d], a);
            let after = unsafe { snap(p) };
            let data = [d, 0, 0, 0];
            assert!(matches!(w, Ok(1)) && written_exactly(&after, &before, &data, count + a, 1), "C04.file_buf.view.offset: write through the view changes exactly parent byte count + a");
        } else {
            assert!(r.is_err(), "C04.file_buf.view.offset: access beyond the view fails");
            let w = v.write(&[d], a);
            assert!(w.is_err() && same(&unsafe { snap(p) }, &before), "C04.file_buf.view.offset: write beyond the view fails and leaves memory unchanged");
        }
    }
}

//@inputs view_volatile_slice_roundtrip: mem:[u8;8]
#[kani::proof]
fn view_volatile_slice_roundtrip() {
    let mut mem = Mem(kani::any());
    let p = mem.0.as_mut_ptr();
    let before = unsafe { snap(p) };
    let s = unsafe { FileVolatileSlice::from_raw_ptr(p, N) };
    let vs = s.as_volatile_slice();
    let s2 = FileVolatileSlice::from_volatile_slice(&vs);
    let m = unsafe { FileVolatileSlice::from_mut_slice(&mut mem.0) };
    kani::cover!(s2.len() == N, "C04.file_buf.view.volatile_slice: reached");
    assert!(s.as_ptr() == p && s.len() == N && !s.is_empty(), "C04.file_buf.view.volatile_slice: from_raw_ptr keeps address and length");
    assert!(vs.len() == N && vs.ptr_guard().as_ptr() as usize == p as usize, "C04.file_buf.view.volatile_slice: as_volatile_slice keeps address and length");
    assert!(s2.as_ptr() == p && s2.len() == N, "C04.file_buf.view.volatile_slice: from_volatile_slice keeps address and length");
    assert!(m.as_ptr() == p && m.len() == N, "C04.file_buf.view.volatile_slice: from_mut_slice keeps address and length");
    assert!(same(&unsafe { snap(p) }, &before), "C04.file_buf.view.volatile_slice: conversions leave memory unchanged");
}

// ---------------------------------------------------------------------------
// canary: deliberately false, MUST FAIL
// ---------------------------------------------------------------------------

//@inputs canary_must_fail: mem:[u8;8], off:usize
#[kani::proof]
fn canary_must_fail() {
    let mut mem = Mem(kani::any());
    let off: usize = kani::any();
    let p = mem.0.as_mut_ptr();
    let s = unsafe { FileVolatileSlice::from_raw_ptr(p, N) };
    let mut out = [0u8; 1];
    kani::cover!(off == 8, "KX.canary reached");
    // false: offsets >= 8 are out of range
    assert!(s.read(&mut out, off).is_ok(), "KX.canary: deliberately false");
}
