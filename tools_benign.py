#!/usr/bin/env python3
"""False-alarm probe: apply a semantics-preserving transformation to a scratch export of /repo and run every claimed check on it.
Expected: no check exits 1 (exit 2 = undecided is tolerated and reported).  usage: tools_benign.py B1|B2|B3"""
import os, re, subprocess, sys, json
VERIF = os.path.dirname(os.path.abspath(__file__))
sys.path.insert(0, VERIF)
from vx import registry as R
kind = sys.argv[1]
scratch = '/var/tmp/benign-%s-%d' % (kind, os.getpid())
subprocess.run('rm -rf %s && mkdir -p %s && git -C /repo archive HEAD | tar -x -C %s' % (scratch, scratch, scratch), shell=True, check=True)
n = 0
for dp, dn, fns in os.walk(os.path.join(scratch, 'src')):
    for fn in fns:
        if not fn.endswith('.rs'):
            continue
        p = os.path.join(dp, fn)
        s = open(p).read()
        if kind == 'B1':      # a log line as the first statement of every function body that starts on its own line
            s2 = re.sub(r'(\n( *)(?:pub(?:\([a-z]+\))? )?(?:async )?(?:unsafe )?fn [^;{]*\{\n)', lambda m: m.group(1) + m.group(2) + '    trace!("benign probe");\n', s)
        elif kind == 'B2':    # a comment line after every line that ends with `{`
            s2 = re.sub(r'\{\n', '{\n// benign probe\n', s)
        elif kind == 'B3':    # trailing whitespace-only change: a blank line between statements ending with `;`
            s2 = re.sub(r';\n(\s+)(let |self\.|if |match |return |Ok\()', lambda m: ';\n\n' + m.group(1) + m.group(2), s)
        else:
            raise SystemExit('unknown kind')
        if s2 != s:
            n += 1
            open(p, 'w').write(s2)
print('transformed %d files in %s' % (n, scratch))
res = {}
for p in sorted(R.PROPS):
    if R.PROPS[p].get('kx') and kind != 'B1':
        pass
    r = subprocess.run([os.path.join(VERIF, 'check'), p, '--no-evidence', '--src', scratch], capture_output=True, text=True, cwd=VERIF)
    und = [l for l in r.stderr.splitlines() if l.startswith('UNDECIDED')]
    res[p] = (r.returncode, [l for l in r.stdout.splitlines() if l.startswith('VIOLATION')][:3], [u[:160] for u in und][:2])
    print(p, res[p][0], res[p][1], res[p][2], flush=True)
subprocess.run(['rm', '-rf', scratch])
print('ALARMS:', [p for p, v in res.items() if v[0] == 1], 'UNDECIDED:', [p for p, v in res.items() if v[0] == 2])
