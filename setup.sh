#!/bin/bash
# run once after a fresh restore, offline: warm up Verus (cold start) and make sure tools are present
set -e
cd "$(dirname "$0")"
export CARGO_NET_OFFLINE=true
command -v verus >/dev/null
mkdir -p build evidence replay
cat > build/_warm.rs <<'EOR'
use vstd::prelude::*;
verus! { proof fn warm() ensures 1 + 1 == 2int {} }
fn main() {}
EOR
verus build/_warm.rs >/dev/null 2>&1 || { echo "verus does not run"; exit 1; }
if [ -x kx/setup.sh ]; then kx/setup.sh; fi
echo setup ok
