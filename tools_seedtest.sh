#!/bin/bash
# usage: tools_seedtest.sh <seed-dir-name> <PROP> [<PROP>...]   applies seeded/<name>/patch.diff to /repo, runs the checks, reverts
name=$1; shift
cd /repo || exit 9
if ! git -C /repo diff --quiet; then echo "/repo dirty"; exit 9; fi
git -C /repo apply /verif/seeded/$name/patch.diff || { echo "PATCH DOES NOT APPLY"; exit 8; }
cd /verif
for p in "$@"; do ./check $p --no-evidence; echo "  -> $name $p rc=$?"; done
git -C /repo checkout -- .
