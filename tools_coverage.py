#!/usr/bin/env python3
"""Which functions of /repo/src are under contract (according to the evidence files the checks wrote) and which are not.
Approximate on the source side (a regex over `fn NAME`, everything behind `#[cfg(test)]` + `mod` in a file is skipped, trait method
declarations without a body are skipped); exact on the evidence side.  Usage: tools_coverage.py [--names] [SRC]"""
import collections, glob, json, os, re, sys

args = [a for a in sys.argv[1:] if not a.startswith('--')]
SRC = args[0] if args else '/repo'
names = '--names' in sys.argv
here = os.path.dirname(os.path.abspath(__file__))
cov = collections.defaultdict(set)
for f in glob.glob(os.path.join(here, 'evidence', 'C*.json')):
    d = json.load(open(f))
    for fn in d.get('coverage', {}).get('functions_under_contract', []):
        if isinstance(fn, dict) and fn.get('file'):
            cov[fn['file']].add(fn['function'].split('__')[0] if fn['function'].endswith('__canary') else fn['function'])
tot = und = 0
rows = []
for root, _, files in os.walk(os.path.join(SRC, 'src')):
    for fnm in sorted(files):
        if not fnm.endswith('.rs'):
            continue
        p = os.path.join(root, fnm)
        rel = os.path.relpath(p, SRC)
        if 'macos' in rel or 'fuse_t' in rel:
            continue
        s = open(p).read()
        m = re.search(r'#\[cfg\(test\)\]\s*(pub\s+)?mod\s+\w+\s*\{', s)
        if m:
            s = s[:m.start()]
        fns = []
        for m in re.finditer(r'^[ \t]*(?:pub(?:\([^)]*\))?\s+)?(?:const\s+)?(?:async\s+)?(?:unsafe\s+)?fn\s+(\w+)', s, re.M):
            # skip declarations without body
            k = m.end(); depth = 0
            while k < len(s):
                c = s[k]
                if c in '([<': depth += 1
                elif c in ')]>' and s[k - 1] != '-': depth -= 1
                elif c == ';' and depth <= 0: break
                elif c == '{' and depth <= 0: break
                k += 1
            if k < len(s) and s[k] == '{':
                fns.append(m.group(1))
        if not fns:
            continue
        c = cov.get(rel, set())
        have = [f for f in fns if f in c]
        miss = sorted(set(f for f in fns if f not in c))
        tot += len(fns); und += len(have)
        rows.append((rel, len(fns), len(have), miss))
for rel, n, h, miss in sorted(rows):
    print('%-44s %3d / %3d under contract' % (rel, h, n) + (('   NOT: ' + ' '.join(miss)) if names and miss else ''))
print('total: %d of %d function bodies under contract (test modules, macos / fuse-t files excluded; same-named functions of one file count together)' % (und, tot))
