#!/usr/bin/env python3
"""dev helper: python3 tools_run_unit.py <unit> [--canary] [--src DIR]  -> prints failures"""
import sys, importlib, argparse
sys.path.insert(0, '/verif')
from vx import build as B, extract as X
ap = argparse.ArgumentParser(); ap.add_argument('unit'); ap.add_argument('--canary', action='store_true'); ap.add_argument('--src', default='/repo'); ap.add_argument('--rlimit')
a = ap.parse_args()
mod = importlib.import_module('vx.units.' + a.unit)
u = mod.unit(a.src)
try:
    gen, res, path = B.build_and_verify(u, a.src, canary=a.canary, rlimit=a.rlimit)
except X.ExtractError as e:
    print('EXTRACT ERROR', e); sys.exit(2)
c = B.classify(gen, u, res)
print(path, 'wall %.1fs' % res['wall_s'], res['summary'].get('verification-results'), 'cached' if res.get('cached') else '')
print('STATUS', c['status'])
if c['reason']: print('REASON', c['reason'][:6000])
for f in c['failures']:
    print('---', f['obligation'], f['props'], f['function'], f['site'])
    print(f['rendered'][:1800])
slow = sorted(res['fn_times'], key=lambda f: -f['ms'])[:5]
print('slowest:', [(f['function'], round(f['ms'])) for f in slow])
