#!/usr/bin/env python3
"""Mechanical extraction of real function text from /repo for Verus (engine VX).

Nothing here knows about any property.  It locates functions by
(file, enclosing impl/trait/mod header, fn name) with a comment/string-aware brace
matcher, resolves #[cfg] for the fixed configuration, and applies the rewrite rules
R1..R10 of DESIGN.md section 3.2.  Every rule that fires is logged.  Anything that
cannot be found or parsed raises ExtractError (-> exit 2, never an alarm).
"""
import hashlib
import re

CFG = {
    'target_os': 'linux',
    'features': {'fusedev', 'virtiofs'},
    'target_arch': 'x86_64',
    'target_env': 'gnu',
    'flags': set(),           # bare cfg flags that are on (test, fuse_backend_rs_verif, ...)
}


class ExtractError(Exception):
    pass


import threading
_TL = threading.local()        # per-thread opt-in cfg features (see class `features`); empty unless a unit asks for them


# ----------------------------------------------------------------------------------------------
# masking: same-length copy of the source with the *contents* of comments, string and char
# literals blanked, so that brace matching and regexes never look inside them.

def mask(src):
    out = list(src)
    i, n = 0, len(src)

    def blank(a, b):
        for k in range(a, b):
            if out[k] != '\n':
                out[k] = ' '
    while i < n:
        c = src[i]
        if src.startswith('//', i):
            j = src.find('\n', i)
            j = n if j < 0 else j
            blank(i, j)
            i = j
        elif src.startswith('/*', i):
            depth, j = 1, i + 2
            while j < n and depth:
                if src.startswith('/*', j):
                    depth += 1
                    j += 2
                elif src.startswith('*/', j):
                    depth -= 1
                    j += 2
                else:
                    j += 1
            blank(i, j)
            i = j
        elif c == '"' or (c == 'b' and src.startswith('b"', i)) :
            j = i + (2 if c == 'b' else 1)
            while j < n and src[j] != '"':
                j += 2 if src[j] == '\\' else 1
            blank(i + (2 if c == 'b' else 1), j)
            i = j + 1
        elif c == 'r' and re.match(r'r#*"', src[i:i + 8]) and (i == 0 or not (src[i - 1].isalnum() or src[i - 1] == '_')):
            m = re.match(r'r(#*)"', src[i:])
            close = '"' + m.group(1)
            j = src.find(close, i + m.end())
            j = n if j < 0 else j
            blank(i + m.end(), j)
            i = j + len(close)
        elif c == "'":
            m = re.match(r"'(\\x[0-9a-fA-F]{2}|\\u\{[0-9a-fA-F]+\}|\\.|[^\\'\n])'", src[i:])
            if m:
                blank(i + 1, i + m.end() - 1)
                i += m.end()
            else:
                i += 1          # lifetime
        else:
            i += 1
    return ''.join(out)


def match_close(msk, k):
    """msk[k] is an opening bracket; return index of the matching closing bracket."""
    pairs = {'(': ')', '[': ']', '{': '}'}
    o = msk[k]
    c = pairs[o]
    d = 0
    n = len(msk)
    while k < n:
        ch = msk[k]
        if ch == o:
            d += 1
        elif ch == c:
            d -= 1
            if d == 0:
                return k
        k += 1
    raise ExtractError('unbalanced bracket')


def norm_ws(s):
    return re.sub(r'\s+', ' ', s).strip()


# ----------------------------------------------------------------------------------------------
# cfg evaluation

def split_top(s, sep=','):
    out, d, cur = [], 0, ''
    for ch in s:
        if ch in '([{':
            d += 1
        elif ch in ')]}':
            d -= 1
        if ch == sep and d == 0:
            out.append(cur)
            cur = ''
        else:
            cur += ch
    out.append(cur)
    return out


def eval_cfg(e):
    e = e.strip()
    m = re.match(r'^not\s*\((.*)\)$', e, re.S)
    if m:
        return not eval_cfg(m.group(1))
    m = re.match(r'^(all|any)\s*\((.*)\)$', e, re.S)
    if m:
        vals = [eval_cfg(p) for p in split_top(m.group(2)) if p.strip()]
        return all(vals) if m.group(1) == 'all' else any(vals)
    m = re.match(r'^feature\s*=\s*"([^"]+)"$', e)
    if m:
        return m.group(1) in CFG['features'] or m.group(1) in getattr(_TL, 'features', ())
    m = re.match(r'^(target_os|target_arch|target_env)\s*=\s*"([^"]+)"$', e)
    if m:
        return CFG[m.group(1)] == m.group(2)
    if re.match(r'^\w+$', e):
        return e in CFG['flags']
    raise ExtractError('cannot evaluate cfg(%s)' % e)


ATTR_RE = re.compile(r'#\s*!?\[')


def leading_attrs(src, msk, pos):
    """Walk backwards from pos over whitespace, doc comments and #[...] attributes.
    Returns (start_of_attrs, [attr inner texts])."""
    attrs = []
    start = pos
    while True:
        k = start
        while k > 0 and src[k - 1] in ' \t\n':
            k -= 1
        # line comment / doc comment directly above?
        ls = src.rfind('\n', 0, k) + 1
        line = src[ls:k]
        if line.strip().startswith('//'):
            start = ls
            continue
        if k > 0 and src[k - 1] == ']':
            # find the matching '[' backwards on masked text
            d, j = 0, k - 1
            while j >= 0:
                if msk[j] == ']':
                    d += 1
                elif msk[j] == '[':
                    d -= 1
                    if d == 0:
                        break
                j -= 1
            h = j - 1
            while h >= 0 and src[h] in ' \t':
                h -= 1
            if h >= 0 and src[h] == '#':
                attrs.append(src[j + 1:k - 1])
                start = h
                continue
        break
    return start, attrs


def attrs_enabled(attrs):
    for a in attrs:
        m = re.match(r'^\s*cfg\s*\((.*)\)\s*$', a, re.S)
        if m and not eval_cfg(m.group(1)):
            return False
    return True


# ----------------------------------------------------------------------------------------------
# locating scopes and functions

class Source:
    def __init__(self, root, rel):
        self.rel = rel
        self.path = root.rstrip('/') + '/' + rel
        try:
            self.src = open(self.path).read()
        except OSError as e:
            raise ExtractError('cannot read %s: %s' % (self.path, e))
        self.msk = mask(self.src)

    def line_of(self, pos):
        return self.src.count('\n', 0, pos) + 1

    def scopes(self, header):
        """All enabled blocks (impl/trait/mod) whose normalised header equals `header`.
        Returns list of (open_brace_pos, close_brace_pos)."""
        want = norm_ws(header)
        kw = want.split(' ')[0].split('<')[0]
        if kw == 'unsafe':
            kw = 'unsafe'
        res = []
        for m in re.finditer(r'(?m)^[ \t]*((?:pub(?:\([a-z]+\))?\s+)?(?:unsafe\s+)?(?:impl|trait|mod)\b[^{;]*)\{', self.msk):
            hdr = norm_ws(self.src[m.start(1):m.end(1)])
            hdr_novis = re.sub(r'^pub(\([a-z]+\))? ', '', hdr)
            if hdr != want and hdr_novis != want:
                continue
            _, attrs = leading_attrs(self.src, self.msk, m.start(1))
            if not attrs_enabled(attrs):
                continue
            ob = m.end() - 1
            res.append((ob, match_close(self.msk, ob)))
        return res

    def find_fn(self, scope, name):
        """Return dict(sig, body, line, attrs) of the enabled definition of fn `name`
        directly inside `scope` (None = file top level)."""
        if scope is None:
            ranges = [(-1, len(self.src))]
        else:
            ranges = self.scopes(scope)
            if not ranges:
                raise ExtractError('scope not found: %s :: %s' % (self.rel, scope))
        found = []
        for (ob, cb) in ranges:
            for m in re.finditer(r'\bfn\s+%s\b' % re.escape(name), self.msk[ob + 1:cb]):
                p = ob + 1 + m.start()
                # depth relative to the scope must be 0
                seg = self.msk[ob + 1:p]
                if seg.count('{') - seg.count('}') != 0:
                    continue
                # start of the item: walk back over qualifiers on the same logical item
                ls = p
                qm = re.search(r'((?:pub(?:\([a-z]+\))?\s+)?(?:default\s+)?(?:const\s+)?(?:async\s+)?(?:unsafe\s+)?(?:extern\s+"[^"]*"\s+)?)$', self.src[:p])
                if qm:
                    ls = qm.start(1)
                _, attrs = leading_attrs(self.src, self.msk, ls)
                if not attrs_enabled(attrs):
                    continue
                # signature end: first '{' or ';' at bracket depth 0
                k, d = p, 0
                while True:
                    ch = self.msk[k]
                    if ch in '([':
                        d += 1
                    elif ch in ')]':
                        d -= 1
                    elif ch == '<':
                        pass
                    elif ch == '{' and d == 0:
                        break
                    elif ch == ';' and d == 0:
                        break
                    k += 1
                if self.msk[k] == ';':
                    continue        # declaration without body
                e = match_close(self.msk, k)
                found.append(dict(sig=self.src[ls:k], body=self.src[k:e + 1], line=self.line_of(ls),
                                  body_line=self.line_of(k), attrs=attrs, start=ls, end=e + 1))
        if not found:
            raise ExtractError('fn not found: %s :: %s :: %s' % (self.rel, scope, name))
        if len(found) > 1:
            raise ExtractError('fn ambiguous (%d enabled definitions): %s :: %s :: %s' % (len(found), self.rel, scope, name))
        return found[0]

    def find_item(self, regex):
        """Return the text of a top-level-ish item (struct/const/enum) that starts at a match of `regex`
        (on masked text) and ends at its closing brace or semicolon."""
        hits = []
        for m in re.finditer(regex, self.msk):
            _, attrs = leading_attrs(self.src, self.msk, m.start())
            if not attrs_enabled(attrs):
                continue
            k, d = m.start(), 0
            while True:
                ch = self.msk[k]
                if ch in '([':
                    d += 1
                elif ch in ')]':
                    d -= 1
                elif ch == '{' and d == 0:
                    k = match_close(self.msk, k)
                    break
                elif ch == ';' and d == 0:
                    break
                k += 1
            hits.append((self.src[m.start():k + 1], self.line_of(m.start()), attrs))
        if not hits:
            raise ExtractError('item not found: %s :: /%s/' % (self.rel, regex))
        if len(hits) > 1:
            raise ExtractError('item ambiguous: %s :: /%s/' % (self.rel, regex))
        return hits[0]


# ----------------------------------------------------------------------------------------------
# rewrite rules.  Every rule preserves the number of newlines of the text it touches, so that
# generated lines map 1:1 onto /repo lines (spliced ghost text uses \x01 as its line separator
# until the very end).

def _pad(new, old):
    """make `new` contain as many newlines as `old`"""
    d = old.count('\n') - new.count('\n')
    if d < 0:
        new = new.replace('\n', ' ', -d)
        d = old.count('\n') - new.count('\n')
    return new + '\n' * d


def item_end(msk, k):
    """end (exclusive) of the statement / match arm / field initialiser starting at k"""
    d = 0
    n = len(msk)
    while k < n:
        c = msk[k]
        if c in '([{':
            d += 1
        elif c in ')]}':
            d -= 1
            if d < 0:
                return k
            if c == '}' and d == 0:
                m = re.match(r'\s*,', msk[k + 1:])
                if m:
                    return k + 1 + m.end()
                rest = msk[k + 1:].lstrip()
                if not rest.startswith(('.', '?', 'else', ')', ';', 'as ')):
                    return k + 1
        elif c in ';,' and d == 0:
            return k + 1
        k += 1
    return k


def r6_resolve_cfg(text, fired):
    while True:
        msk = mask(text)
        m = re.search(r'#\[cfg\(', msk)
        if not m:
            break
        ob = m.end() - 1
        cb = match_close(msk, ob)
        if msk[cb + 1] != ']':
            raise ExtractError('malformed cfg attribute')
        expr = text[ob + 1:cb]
        keep = eval_cfg(expr)
        fired.append('R6 cfg(%s) -> %s' % (norm_ws(expr), 'kept' if keep else 'dropped'))
        end_attr = cb + 2
        if keep:
            text = text[:m.start()] + _pad('', text[m.start():end_attr]) + text[end_attr:]
        else:
            # skip whitespace (and further attributes) after the attribute, then the item
            k = end_attr
            e = item_end(msk, k)
            text = text[:m.start()] + _pad('', text[m.start():e]) + text[e:]
    # other attributes inside bodies (#[allow(...)], #[inline], ...) are deleted
    while True:
        msk = mask(text)
        m = re.search(r'#\[(allow|inline|warn|deny|rustfmt::skip|cold|must_use|default|derive|repr|doc)\b', msk)
        if not m:
            break
        ob = msk.index('[', m.start())
        cb = match_close(msk, ob)
        fired.append('R6 attribute #[%s] deleted' % norm_ws(text[ob + 1:cb]))
        text = text[:m.start()] + _pad('', text[m.start():cb + 1]) + text[cb + 1:]
    return text


def r2_drop_logging(text, fired):
    while True:
        msk = mask(text)
        m = re.search(r'\b(trace|debug|info|warn|error)!\s*[\(\{]', msk)
        if not m:
            break
        ob = m.end() - 1
        cb = match_close(msk, ob)
        rest = re.match(r'\s*;', msk[cb + 1:])
        if not rest:
            # logging macro in expression position (e.g. closure body `|e| error!(..)`): becomes ()
            fired.append('R2 %s!(..) expression -> ()' % m.group(1))
            text = text[:m.start()] + _pad('()', text[m.start():cb + 1]) + text[cb + 1:]
            continue
        e = cb + 1 + rest.end()
        # the macro is deleted, but an argument that can PANIC when it is evaluated (slice / index expression, unwrap, expect) is kept as an
        # evaluation `let _ = &(ARG);` so that its in-bounds / is-Some obligation is still generated (a log line must not crash the server:
        # the arguments are evaluated whenever the log level is enabled)
        keep = []
        args = split_top(text[ob + 1:cb])
        for a in args[1:]:
            am = mask(a)
            am = re.sub(r'^\s*\w+\s*=(?!=)', '', am)        # named argument `name = expr`
            if re.search(r'\[[^\]]*\]|\.unwrap\(\)|\.expect\(', am):
                expr = a.strip()
                expr = re.sub(r'^\w+\s*=(?!=)\s*', '', expr)
                keep.append('let _ = &(%s);' % norm_ws(expr))
        if keep:
            fired.append('R2 %s!(..); deleted, %d argument(s) that may panic kept as evaluations' % (m.group(1), len(keep)))
            text = text[:m.start()] + _pad(' '.join(keep), text[m.start():e]) + text[e:]
        else:
            fired.append('R2 %s!(..); deleted' % m.group(1))
            text = text[:m.start()] + _pad('', text[m.start():e]) + text[e:]
    return text


def r1_eta(text, fired):
    n = len(re.findall(r'\.map\(Into::into\)', text))
    if n:
        fired.append('R1 map(Into::into) eta-expanded (%d)' % n)
        text = re.sub(r'\.map\(Into::into\)', '.map(|v| v.into())', text)

    def rep(m):
        fired.append('R1 %s(%s) eta-expanded' % (m.group(1), m.group(2)))
        return '.%s(|e| %s(e))' % (m.group(1), m.group(2))
    return re.sub(r'\.(map_err|map|and_then|ok_or_else)\(((?:[A-Z]\w*::)+[A-Z]\w*)\)', rep, text)


def r3_closure_params(text, fired):
    n = len(re.findall(r'\|_\|', text))
    if n:
        fired.append('R3 closure parameter _ renamed (%d)' % n)
        text = re.sub(r'\|_\|', '|_v|', text)
    n = len(re.findall(r'\bfor _ in\b', text))
    if n:
        fired.append('R3 for _ in renamed (%d)' % n)
        text = re.sub(r'\bfor _ in\b', 'for _i in', text)
    return text


def r3_tuple_closure_params(text, fired):
    """|(a, b)| BODY  ->  |tp_N| { let (a, b) = tp_N; BODY }   (pattern hoisting; BODY = the closure's body expression)"""
    n = 0
    while True:
        msk = mask(text)
        m = re.search(r'\|\(\s*((?:(?:mut\s+)?\w+\s*,\s*)+(?:mut\s+)?\w+\s*,?)\s*\)\|\s*', msk)
        if not m:
            break
        n += 1
        k = m.end()
        # body: a block, or an expression up to the closing bracket of the enclosing call / a top-level comma
        if msk[k] == '{':
            e = match_close(msk, k) + 1
        else:
            d, e = 0, k
            while e < len(msk):
                c = msk[e]
                if c in '([{':
                    d += 1
                elif c in ')]}':
                    if d == 0:
                        break
                    d -= 1
                elif c == ',' and d == 0:
                    break
                e += 1
        body = text[k:e]
        var = 'tp_%d' % n
        new = '|%s| { let (%s) = %s; %s }' % (var, norm_ws(m.group(1)), var, body)
        fired.append('R3 tuple-pattern closure parameter hoisted: |(%s)|' % norm_ws(m.group(1)))
        text = text[:m.start()] + _pad(new, text[m.start():e]) + text[e:]
    return text


def r4_map_err_ctx(text, fired):
    """let P = X.map_err(|e| { S; e })?;   ->   let P = match X { Ok(v) => v, Err(e) => { S; return Err(e); } };
    only when S mentions `ctx` (the closure would capture it mutably)."""
    pat = re.compile(r'let (\w+) =\s*([^;]*?)\.map_err\(\|e\| \{((?:(?!\n\s*e\s*\}\)\?;).)*?\bctx\b(?:(?!\n\s*e\s*\}\)\?;).)*?)\n\s*e\s*\}\)\?;', re.S)

    def rep(m):
        fired.append('R4 map_err closure touching ctx -> match (let %s)' % m.group(1))
        new = 'let %s = match %s { Ok(v) => v, Err(e) => { %s return Err(e); } };' % (m.group(1), m.group(2).strip(), m.group(3).strip())
        return _pad(new, m.group(0))
    return pat.sub(rep, text)


def r5_asserts(text, fired):
    while True:
        msk = mask(text)
        m = re.search(r'\b(debug_assert_eq|assert_eq|debug_assert|assert)!\s*\(', msk)
        if not m:
            break
        ob = m.end() - 1
        cb = match_close(msk, ob)
        rest = re.match(r'\s*;', msk[cb + 1:])
        e = cb + 1 + (rest.end() if rest else 0)
        args = [a.strip() for a in split_top(text[ob + 1:cb])]
        if m.group(1).endswith('_eq'):
            new = '{ let dbg_l = %s; let dbg_r = %s; assert(dbg_l == dbg_r); }' % (args[0], args[1])
        else:
            new = '{ let dbg_c = %s; assert(dbg_c); }' % args[0]
        fired.append('R5 %s! -> proof obligation' % m.group(1))
        text = text[:m.start()] + _pad(new, text[m.start():e]) + text[e:]
    return text


def r7_format(text, fired):
    while True:
        msk = mask(text)
        m = re.search(r'\bformat!\s*\(', msk)
        if not m:
            break
        ob = m.end() - 1
        cb = match_close(msk, ob)
        fired.append('R7 format!(..) -> fmt_opaque()')
        text = text[:m.start()] + _pad('fmt_opaque()', text[m.start():cb + 1]) + text[cb + 1:]
    return text


def r10_array_repeat(text, fired):
    """only in initialiser position (`= [x; N]`), never in a type"""
    def rep(m):
        n = int(m.group(3))
        fired.append('R10 [%s; %d] expanded' % (m.group(2), n))
        return m.group(1) + '[' + ', '.join([m.group(2)] * n) + ']'
    return re.sub(r'(=\s*)\[\s*(\w+)\s*;\s*(\d+)\s*\]', rep, text)


def r13_paths(text, fired):
    """fully qualified std paths of items the unit's prelude models under their short name (same item, `use`d in the file)"""
    n = len(re.findall(r'\bstd::mem::size_of::<', text))
    if n:
        fired.append('R13 std::mem::size_of -> size_of (%d)' % n)
        text = re.sub(r'\bstd::mem::size_of::<', 'size_of::<', text)
    return text


def r12_iter_flatten(text, fired):
    """for P in E.iter().flatten() { B }   ->   for opt_N in E.iter() { if let Some(P) = opt_N { B } }
    (definition of Iterator::flatten over an iterator of &Option<T>; Verus has no specification for iterator adapters)"""
    n = 0
    while True:
        msk = mask(text)
        m = re.search(r'\bfor\s+(\w+)\s+in\s+([\w\.]+)\.iter\(\)\.flatten\(\)\s*\{', msk)
        if not m:
            break
        n += 1
        ob = m.end() - 1
        cb = match_close(msk, ob)
        new = 'for opt_%d in it_%d: %s.iter() { if let Some(%s) = opt_%d {%s} }' % (n, n, m.group(2), m.group(1), n, text[ob + 1:cb])
        fired.append('R12 for %s in %s.iter().flatten() -> for + if let Some' % (m.group(1), m.group(2)))
        text = text[:m.start()] + new + text[cb + 1:]
    return text


def r18_await(text, fired):
    """R18 (opt-in per Fn: `rules=('R18',)`), body part: `EXPR.await` -> `EXPR`.

    Together with r18_sig (`async fn` -> `fn`) this reads an async function as the sequential function that runs each
    awaited callee to completion at the point of the `.await`.  That is sound for the sequential, Hoare-style
    contracts used here: an `.await` is a call that may SUSPEND, but it has no effect of its own - everything that
    happens is the effect of the awaited callee, which keeps its contract (the callee's model, e.g. an `async fn` of the
    generated AsyncFileSystem model, is declared as a plain fn with that contract).
    What is DROPPED: the suspension points themselves, i.e. every interleaving with other tasks that could run while
    this one is suspended, cancellation (a future dropped at an await point never runs the rest of the body), and the
    `Send`/lifetime obligations of the generated future.  Concurrency is out of scope of the contracts (as for the sync
    path, where handlers also run on several threads).
    Only the postfix form `.await` on masked text is rewritten (never inside strings/comments); `async move { }` /
    `async { }` blocks and `async |..|` closures are NOT handled: their presence raises ExtractError (exit 2)."""
    msk = mask(text)
    m = re.search(r'\basync\s+(move\b|\{|\|)', msk)
    if m:
        raise ExtractError('R18: async block / async closure not supported: %r' % text[m.start():m.start() + 40])
    hits = list(re.finditer(r'\.\s*await\b', msk))
    if hits:
        fired.append('R18 .await removed (%d suspension points dropped)' % len(hits))
    for m in reversed(hits):
        text = text[:m.start()] + _pad('', text[m.start():m.end()]) + text[m.end():]
    return text


def r18_sig(sig, fired):
    """R18, signature part: the `async` qualifier is deleted (`pub async unsafe fn f` -> `pub unsafe fn f`); the declared
    return type `T` of an async fn is the output of its future, which is what the sequential reading returns."""
    msk = mask(sig)
    m = re.search(r'\basync\s+(?=(?:unsafe\s+)?fn\b)', msk)
    if not m:
        raise ExtractError('R18 requested on a function that is not `async fn`: %r' % norm_ws(sig)[:80])
    fired.append('R18 async fn -> fn')
    return sig[:m.start()] + _pad('', sig[m.start():m.end()]) + sig[m.end():]


def _split_generic_args(s):
    out, cur, d = [], '', 0
    for ch in s:
        if ch in '<([':
            d += 1
        elif ch in '>)]':
            d -= 1
        if ch == ',' and d == 0:
            out.append(cur.strip())
            cur = ''
        else:
            cur += ch
    if cur.strip():
        out.append(cur.strip())
    return out


def r18b_sig(sig, file_src, fired):
    """R18b (opt-in per Fn: `rules=('R18b',)`): a HAND-DESUGARED `#[async_trait]` method

        fn f<'a, 'b, 'async_trait>(&'a self, x: &'b T, ..) -> Pin<Box<dyn Future<Output = R> + Send + 'async_trait>>
        where 'a: 'async_trait, 'b: 'async_trait, Self: 'async_trait

    becomes `fn f(&self, x: &T, ..) -> R`, i.e. the `async fn f(&self, x: &T, ..) -> R` the attribute macro would have been given,
    read sequentially as by R18.  A body that RETURNS the future of a callee without awaiting it (`self.deref().g(..)`) is, under
    that reading, the call of g itself: nothing runs before the returned future is polled, and polling it is running g.
    Mechanical steps, each a syntactic check that raises ExtractError (exit 2) when the shape is anything else:
      1. the generic list may contain only lifetimes and must contain 'async_trait; it is deleted;
      2. every use of one of those lifetimes in the parameter list (`&'a self`, `&'c mut ..`) is deleted;
      3. the return type must be `Pin<Box<dyn Future<Output = R> [+ Send] + 'async_trait>>`, or `Pin<ALIAS<args>>` where
         `type ALIAS<params> = Box<dyn Future<Output = R> [+ Send] + 'lt>;` is READ FROM THE SAME FILE (`file_src`) and its type
         parameters are replaced by `args`; it becomes R;
      4. the where-clause may contain only `'x: 'async_trait` and `Self: 'async_trait`; it is deleted.
    What is DROPPED beyond R18: the lifetime bounds tying the future to its borrows, `Send`, the boxing/pinning, and the laziness
    of the returned future (no code of these bodies runs before the first poll)."""
    msk = mask(sig)
    m = re.search(r'\bfn\s+(\w+)\s*<([^<>]*)>\s*\(', msk)
    if not m:
        raise ExtractError('R18b: no lifetime-generic signature: %r' % norm_ws(sig)[:100])
    name = m.group(1)
    lts = [g.strip() for g in sig[m.start(2):m.end(2)].split(',') if g.strip()]
    if not lts or any(not re.match(r"^'\w+$", g) for g in lts) or "'async_trait" not in lts:
        raise ExtractError("R18b: %s: generics %r are not lifetimes including 'async_trait" % (name, lts))
    po = m.end() - 1
    pc = match_close(msk, po)
    params = sig[po:pc + 1]
    for lt in lts:
        params = re.sub(r"&\s*%s\b\s*" % re.escape(lt), '&', params)
    if re.search(r"'\w+", mask(params)):
        raise ExtractError('R18b: %s: a lifetime survives in the parameter list: %r' % (name, norm_ws(params)[:120]))
    tail = sig[pc + 1:]
    tm = mask(tail)
    w = re.search(r'\bwhere\b', tm)
    rett = tail[:w.start()] if w else tail
    where = tail[w.end():] if w else ''
    r = re.match(r'^\s*->\s*(.*?)\s*$', rett, re.S)
    if not r:
        raise ExtractError('R18b: %s: no return type' % name)
    ret = norm_ws(r.group(1))

    def future_output(t, what):
        fm = re.match(r"^Box<\s*dyn Future<Output = (.*)>((?:\s*\+\s*(?:Send|'\w+))*)\s*>$", t)
        if not fm or not re.search(r"'\w+", fm.group(2)):
            raise ExtractError('R18b: %s: %s is not Box<dyn Future<Output = R> [+ Send] + \'lt>: %r' % (name, what, t))
        return fm.group(1).strip()
    pm = re.match(r'^Pin<\s*(.*)\s*>$', ret)
    if not pm:
        raise ExtractError('R18b: %s: return type is not Pin<..>: %r' % (name, ret))
    inner = pm.group(1).strip()
    if inner.startswith('Box<'):
        out = future_output(inner, 'return type')
    else:
        am = re.match(r'^(\w+)\s*<(.*)>$', inner)
        if not am:
            raise ExtractError('R18b: %s: return type %r is neither Box<dyn Future..> nor an alias' % (name, inner))
        alias, args = am.group(1), _split_generic_args(am.group(2))
        fmsk = mask(file_src)
        defs = list(re.finditer(r'(?m)^[ \t]*(?:pub(?:\([a-z]+\))?\s+)?type\s+%s\s*<([^=;]*)>\s*=\s*([^;]*);' % re.escape(alias), fmsk))
        if len(defs) != 1:
            raise ExtractError('R18b: %s: type alias %s defined %d times in the file' % (name, alias, len(defs)))
        d = defs[0]
        aparams = _split_generic_args(file_src[d.start(1):d.end(1)])
        body = norm_ws(file_src[d.start(2):d.end(2)])
        if len(aparams) != len(args):
            raise ExtractError('R18b: %s: alias %s takes %d parameters, %d given' % (name, alias, len(aparams), len(args)))
        out = future_output(body, 'alias %s' % alias)
        for p, a in zip(aparams, args):
            if not p.startswith("'"):
                out = re.sub(r'\b%s\b' % re.escape(p), a, out)
        fired.append('R18b alias %s<%s> = %s read from the file' % (alias, ', '.join(aparams), body))
    if re.search(r"'\w+", out):
        raise ExtractError('R18b: %s: a lifetime survives in the output type %r' % (name, out))
    preds = [norm_ws(p) for p in where.split(',') if p.strip()]
    bad = [p for p in preds if not re.match(r"^('\w+|Self)\s*:\s*'async_trait$", p)]
    if bad:
        raise ExtractError('R18b: %s: where-clause predicate(s) %r cannot be dropped' % (name, bad))
    new = sig[:m.start(2) - 1] + params + ' -> ' + out + ' '
    fired.append("R18b desugared #[async_trait] signature -> fn %s(..) -> %s (lifetimes %s, %d where-predicates, Pin<Box<dyn Future>> dropped)"
                 % (name, out, ' '.join(lts), len(preds)))
    return _pad(new, sig)


class features:
    """`with features({'async-io'}):` - evaluate #[cfg(feature = ..)] with these features ON in addition to the fixed
    configuration, for one unit only (Unit.cfg_features); restored on exit, so no other unit changes behaviour."""

    def __init__(self, extra):
        self.extra = frozenset(extra or ())

    def __enter__(self):
        # thread-local (./check generates the normal and the canary file of a unit in two threads); CFG itself is never modified
        self.saved = getattr(_TL, 'features', frozenset())
        _TL.features = self.saved | self.extra
        return self

    def __exit__(self, *a):
        _TL.features = self.saved
        return False


def r24_explicit_else(text, fired):
    """R24 (applied to every extracted function since its discovery; `fn.rules = ('R24',)` is a no-op kept for the unit that introduced it):  `if C { B }` without an `else`  ->  `if C { B } else { }`  (same meaning:
    an else-less `if` has type () and an empty else branch).  Why: Verus 0.2026.09.13 mis-resolves a value holding a `&mut`
    (e.g. a BTreeMap entry) that is moved in the then-branch of an else-less `if <bool>` which falls through: the join point then
    assumes the reference unchanged AND changed, i.e. `false` (reproduced in isolation; an explicit else is handled correctly).
    Match guards (`pat if c =>`) are left alone."""
    n = 0
    pos = 0
    while True:
        msk = mask(text)
        m = re.compile(r'\bif\b').search(msk, pos)
        if not m:
            break
        pos = m.end()
        # the then-block: first `{` at ()/[] depth 0 after the condition; a `=>` or `;` met first means a match guard / not an if-expression
        k, d, ob = m.end(), 0, -1
        while k < len(msk):
            c = msk[k]
            if c in '([':
                d += 1
            elif c in ')]':
                d -= 1
                if d < 0:
                    break
            elif d == 0 and c == '{':
                ob = k
                break
            elif d == 0 and (msk.startswith('=>', k) or c == ';'):
                break
            k += 1
        if ob < 0:
            continue
        cb = match_close(msk, ob)
        if re.match(r'\s*else\b', msk[cb + 1:]):
            continue
        text = text[:cb + 1] + ' else { }' + text[cb + 1:]
        n += 1
    if n:
        fired.append('R24 explicit empty else added to %d else-less if(s)' % n)
    return text


def rewrite_body(text, fired):
    text = r6_resolve_cfg(text, fired)
    text = r12_iter_flatten(text, fired)
    text = r13_paths(text, fired)
    text = r2_drop_logging(text, fired)
    text = r4_map_err_ctx(text, fired)
    text = r1_eta(text, fired)
    text = r3_closure_params(text, fired)
    text = r3_tuple_closure_params(text, fired)
    text = r5_asserts(text, fired)
    text = r7_format(text, fired)
    text = r24_explicit_else(text, fired)      # applied to every function (defence against a Verus unsoundness, see the rule's docstring)
    return text


def rewrite_sig(sig, fired, ret_name='r'):
    s = sig
    s2 = re.sub(r'\bpub(\((super|crate|self)\))?\s+', '', s)
    if s2 != s:
        fired.append('R6 visibility qualifier deleted')
        s = s2
    # name the return value (R8)
    msk = mask(s)
    # find '->' at paren depth 0 after the parameter list
    d = 0
    arrow = -1
    for i, ch in enumerate(msk):
        if ch in '([':
            d += 1
        elif ch in ')]':
            d -= 1
        elif d == 0 and msk.startswith('->', i):
            arrow = i
            break
    if arrow >= 0:
        w = re.search(r'\bwhere\b', msk[arrow:])
        endt = arrow + w.start() if w else len(s)
        ty = s[arrow + 2:endt].strip()
        tail = s[endt:]
        s = s[:arrow] + '-> (%s: %s) ' % (ret_name, ty) + _pad('', s[arrow:endt]) + tail
        fired.append('R8 return value named')
    return s


SEP = '\x01'


def _fuzzy_normalise(body, text, fired):
    """if `text` does not occur literally but its token sequence occurs exactly once modulo white space and comments, rewrite that occurrence to
    `text`'s own spelling (same tokens; line count kept) and return the new body; otherwise return body unchanged"""
    toks = re.findall(r'[A-Za-z_][A-Za-z0-9_]*|\d+|\S', text)
    if not toks:
        return body
    gap = r'(?:\s|//[^\n]*\n|/\*.*?\*/)*'
    rx = re.compile(gap.join(re.escape(t) if not re.match(r'^\w+$', t) else r'\b' + re.escape(t) + r'\b' for t in toks), re.S)
    hits = list(rx.finditer(body))
    if len(hits) == 1 and SEP not in hits[0].group(0):
        m = hits[0]
        fired.append('R8 anchor %r matched modulo white space / comments' % text[:40])
        return body[:m.start()] + _pad(text, m.group(0)) + body[m.end():]
    return body


def apply_splices(body, splices, fired, what):
    """splices: list of (anchor, mode, text); mode in after|before|replace. anchor must occur exactly once."""
    for sp in splices:
        (anchor, mode, txt) = sp[0], sp[1], sp[2]
        within = sp[3] if len(sp) > 3 else None      # unique locator text that starts with the (ambiguous) anchor
        if anchor == '^':       # function entry: right after the opening brace of the body
            if not body.startswith('{'):
                raise ExtractError('ANCHOR-LOST in %s: body does not start with {' % what)
            body = '{' + SEP + txt.replace('\n', SEP) + SEP + body[1:]
            fired.append('R8 splice at function entry')
            continue
        if within is not None and body.count(within) == 0 and '//' not in within:
            body = _fuzzy_normalise(body, within, fired)      # the locator modulo white space / comments (see below)
        if within is not None:
            if body.count(within) != 1 or not within.startswith(anchor):
                raise ExtractError('ANCHOR-LOST in %s: locator %r occurs %d times' % (what, within, body.count(within)))
            mark = '\x02'
            body = body.replace(within, mark + within[len(anchor):], 1)
            anchor_eff = mark
        else:
            anchor_eff = anchor
        cnt = body.count(anchor_eff)
        if within is not None:
            body = body.replace(mark, anchor, 1)
            pos_override = body.index(within)
        else:
            pos_override = None
        if cnt == 0 and within is None and '//' not in anchor:
            # the anchor text is not there literally: look for it modulo white space and comments (a re-wrapped or re-indented statement, a comment
            # added inside it).  Exactly one such occurrence is rewritten to the anchor's own spelling (same tokens) and the splice proceeds.
            toks = re.findall(r'[A-Za-z_][A-Za-z0-9_]*|\d+|\S', anchor)
            if toks:
                gap = r'(?:\s|//[^\n]*\n|/\*.*?\*/)*'
                rx = re.compile(gap.join(re.escape(t) if not re.match(r'^\w+$', t) else r'\b' + re.escape(t) + r'\b' for t in toks), re.S)
                hits = list(rx.finditer(body))
                if len(hits) == 1 and SEP not in hits[0].group(0):
                    m = hits[0]
                    body = body[:m.start()] + _pad(anchor, m.group(0)) + body[m.end():]
                    cnt = body.count(anchor)
                    fired.append('R8 anchor %r matched modulo white space / comments' % anchor[:40])
        if cnt == 0 and mode.endswith('?'):
            # an OPTIONAL annotation (mode `closure?` ...): the construct it annotates is not in this version of the function - nothing to annotate;
            # the function is verified as it stands (its contract decides), instead of being given up as undecided
            fired.append('R8 optional splice at %r not applicable (construct absent)' % anchor[:40])
            continue
        mode = mode.rstrip('?')
        if cnt != 1:
            raise ExtractError('ANCHOR-LOST in %s: %r occurs %d times' % (what, anchor, cnt))
        ghost = txt.replace('\n', SEP)
        if mode == 'closure':
            # anchor = the closure's parameter list as written (`|e|`); txt = annotated header
            # (`|e: T| -> (q: R) ensures ..`).  A non-block body is wrapped in braces (same expression).
            pos = pos_override if pos_override is not None else body.index(anchor)
            msk = mask(body)
            k = pos + len(anchor)
            while msk[k] in ' \t\n':
                k += 1
            if msk[k] == '{':
                e = match_close(msk, k) + 1
                inner = body[k:e]
            else:
                d, e = 0, k
                while e < len(msk):
                    c = msk[e]
                    if c in '([{':
                        d += 1
                    elif c in ')]}':
                        if d == 0:
                            break
                        d -= 1
                    elif c == ',' and d == 0:
                        break
                    e += 1
                inner = '{ ' + body[k:e] + ' }'
            body = body[:pos] + ghost + ' ' + inner + body[e:]
            fired.append('R8 closure annotated %r' % anchor)
            continue
        if mode == 'after':
            body = body.replace(anchor, anchor + SEP + ghost + SEP, 1)
        elif mode == 'before':
            body = body.replace(anchor, SEP + ghost + SEP + anchor, 1)
        elif mode == 'replace':
            body = body.replace(anchor, _pad(ghost, anchor), 1)
        else:
            raise ExtractError('bad splice mode')
        fired.append('R8 splice %s %r' % (mode, anchor[:40]))
    return body


def sha(s):
    return hashlib.sha256(s.encode()).hexdigest()[:16]


# ----------------------------------------------------------------------------------------------
# R21..R23: opt-in per Fn (`fn.rules = ('R21', 'R22', 'R23')`), used by the units iobuffers / virtiofsw (C04, C17)

def r21_for_ref_iter(text, fired):
    """R21: `for P in &E {`  ->  `for P in E.iter() {`   (E a place path such as `self.buffers`).

    Definition of `impl<'a, T> IntoIterator for &'a C<T>` for the std collections (Vec, VecDeque, slices): `into_iter(self)`
    is `self.iter()` (std docs: "Creates an iterator from a value" - implemented as `self.iter()`); same items, same order.
    Verus has a specification for `VecDeque::iter` / `slice::iter` but none for `<&C as IntoIterator>::into_iter`.
    Nothing is dropped."""
    while True:
        msk = mask(text)
        m = re.search(r'\bfor\s+(\w+)\s+in\s+&\s*((?:\w+\s*\.\s*)*\w+)\s*\{', msk)
        if not m:
            break
        new = 'for %s in %s.iter() {' % (m.group(1), re.sub(r'\s+', '', text[m.start(2):m.end(2)]))
        fired.append('R21 for %s in &%s -> for %s in %s.iter()' % (m.group(1), norm_ws(text[m.start(2):m.end(2)]), m.group(1), norm_ws(text[m.start(2):m.end(2)])))
        text = text[:m.start()] + _pad(new, text[m.start():m.end()]) + text[m.end():]
    return text


def r22_iter_position(text, fired):
    """R22: `let P = E.iter().position(|X| { BODY });`  ->
            `let mut P: Option<usize> = None; let mut P_i: usize = 0;
             while P_i < E.len() { let X = &E[P_i]; if { BODY } { P = Some(P_i); break; } P_i += 1; }`

    Definition of `Iterator::position` (std docs: applies the closure to each element in turn, returns `Some(index)` of the
    first element for which it returns true and stops there, `None` if there is none) over `E.iter()`, which yields `&E[0]`,
    `&E[1]`, ... in index order.  BODY is the closure's block, textually unchanged: a closure that mutates a captured local
    (which Verus rejects) becomes a plain loop body mutating that local at the same points, in the same order.
    Nothing is dropped (position's overflow panic beyond usize::MAX elements cannot occur for an in-memory collection).
    Any other shape of `.position(` (non-block closure, pattern parameter, not a `let`) raises ExtractError (exit 2)."""
    while True:
        msk = mask(text)
        m0 = re.search(r'\.\s*position\s*\(', msk)
        if not m0:
            break
        m = None
        for mm in re.finditer(r'\blet\s+(\w+)\s*=\s*((?:\w+\s*\.\s*)*\w+)\s*\.\s*iter\s*\(\s*\)\s*\.\s*position\s*\(\s*\|\s*(\w+)\s*\|\s*\{', msk):
            m = mm
            break
        if not m or not (m.start() < m0.start() < m.end()):
            raise ExtractError('R22: unsupported shape of .position(..): %r' % norm_ws(text[max(0, m0.start() - 60):m0.end() + 20]))
        ob = m.end() - 1
        cb = match_close(msk, ob)
        tail = re.match(r'\s*\)\s*;', msk[cb + 1:])
        if not tail:
            raise ExtractError('R22: .position(|x| {..}) is not the whole initialiser of a let')
        e = cb + 1 + tail.end()
        p, coll, x = m.group(1), re.sub(r'\s+', '', text[m.start(2):m.end(2)]), m.group(3)
        head = 'let mut %s: Option<usize> = None; let mut %s_i: usize = 0; while %s_i < %s.len() { let %s = &%s[%s_i]; if ' % (p, p, p, coll, x, coll, p)
        foot = ' { %s = Some(%s_i); break; } %s_i += 1; }' % (p, p, p)
        fired.append('R22 let %s = %s.iter().position(|%s| {..}) -> index loop with break' % (p, coll, x))
        text = text[:m.start()] + _pad(head, text[m.start():ob]) + text[ob:cb + 1] + _pad(foot, text[cb + 1:e]) + text[e:]
    return text


def r23_ghost_token_sig(sig, fired, param):
    """R23, signature part: the ghost parameter `param` (e.g. `Tracked(dm): Tracked<&mut DirtyLog>`) is appended to the
    parameter list.  Ghost/tracked parameters are erased by Verus before compilation: no run-time meaning."""
    msk = mask(sig)
    m = re.search(r'\bfn\s+\w+\s*', msk)
    if not m:
        raise ExtractError('R23: no fn in signature')
    k = m.end()
    if msk[k] == '<':
        d = 0
        while True:
            if msk[k] == '<':
                d += 1
            elif msk[k] == '>' and msk[k - 1] != '-':
                d -= 1
                if d == 0:
                    break
            k += 1
        k += 1
        while msk[k] in ' \t\n':
            k += 1
    if msk[k] != '(':
        raise ExtractError('R23: parameter list not found in %r' % norm_ws(sig)[:80])
    cb = match_close(msk, k)
    j = cb
    while msk[j - 1] in ' \t\n':
        j -= 1
    sep = '' if msk[j - 1] == '(' else (' ' if msk[j - 1] == ',' else ', ')
    fired.append('R23 ghost parameter appended: %s' % param)
    return sig[:j] + sep + param + sig[j:]


def r23_ghost_token_calls(text, fired, callees, arg):
    """R23, body part: every method call `.NAME(ARGS)` with NAME in `callees` gets the ghost argument `arg` appended
    (`.NAME(ARGS, Tracked(dm))`).  The callees are exactly the functions whose model / extracted signature carries the ghost
    parameter (R23 signature part), so the token is threaded from the entry point down to the bitmap call.  Erased by Verus."""
    msk = mask(text)
    hits = list(re.finditer(r'\.\s*(%s)\s*\(' % '|'.join(re.escape(c) for c in callees), msk))
    for m in reversed(hits):
        ob = m.end() - 1
        cb = match_close(msk, ob)
        j = cb
        while msk[j - 1] in ' \t\n':
            j -= 1
        sep = '' if j - 1 == ob else (' ' if msk[j - 1] == ',' else ', ')
        text = text[:j] + sep + arg + text[j:]
    if hits:
        fired.append('R23 ghost argument %s appended to %d call(s): %s' % (arg, len(hits), ', '.join(sorted(set(m.group(1) for m in hits)))))
    return text


# ----------------------------------------------------------------------------------------------
# R23 (path form), R31, R32: opt-in, used by unit ptlookup (C08)

def r23_ghost_token_path_calls(text, fired, callees, arg):
    """R23, body part for associated-function calls: every call `Path::NAME(ARGS)` with NAME in `callees`
    (`ghost_token['path_callees']`) gets the ghost argument appended, exactly as r23_ghost_token_calls does for `.NAME(ARGS)`."""
    msk = mask(text)
    hits = list(re.finditer(r'::\s*(%s)\s*\(' % '|'.join(re.escape(c) for c in callees), msk))
    for m in reversed(hits):
        ob = m.end() - 1
        cb = match_close(msk, ob)
        j = cb
        while msk[j - 1] in ' \t\n':
            j -= 1
        sep = '' if j - 1 == ob else (' ' if msk[j - 1] == ',' else ', ')
        text = text[:j] + sep + arg + text[j:]
    if hits:
        fired.append('R23 ghost argument %s appended to %d path call(s): %s' % (arg, len(hits), ', '.join(sorted(set(m.group(1) for m in hits)))))
    return text


def _call_receiver_start(msk, dot):
    """`dot` is the index of the `.` of a method call whose receiver is a call expression `PATH(ARGS)` (possibly followed by
    white space); return the index where PATH starts."""
    k = dot - 1
    while k >= 0 and msk[k] in ' \t\n':
        k -= 1
    if k < 0 or msk[k] != ')':
        raise ExtractError('receiver of the method call is not a call expression: %r' % norm_ws(msk[max(0, dot - 40):dot + 20]))
    d = 0
    while k >= 0:
        if msk[k] == ')':
            d += 1
        elif msk[k] == '(':
            d -= 1
            if d == 0:
                break
        k -= 1
    if k < 0:
        raise ExtractError('unbalanced receiver')
    j = k
    while j > 0 and (msk[j - 1].isalnum() or msk[j - 1] in '_:.'):
        j -= 1
    if j == k:
        raise ExtractError('receiver call has no callee path')
    return j


def r31_result_inspect(text, fired, paren=False):
    """R31: `RECV.inspect(|&X| BLOCK)`  ->  `{ let insp_N = RECV; if let Ok(insp_N_ref) = &insp_N { let X = *insp_N_ref; BLOCK } insp_N }`

    Definition of `Result::inspect` (std: "Calls a function with a reference to the contained value if Ok.  Returns the original
    result."); `|&X|` destructures the `&T` the closure receives (T: Copy).  RECV must be a call expression `PATH(ARGS)`; it is
    evaluated once, before the block, as in the original.  The closure's block becomes a plain block in the enclosing function, so
    what it captured (by reference) it now simply names.  Nothing is dropped.  A receiver that is not a `Result` does not type-check
    after the rewrite (`if let Ok(..)`), so the rule cannot silently change an `Option::inspect` / `Iterator::inspect`.
    Any other shape of `.inspect(` raises ExtractError (exit 2)."""
    n = 0
    while True:
        msk = mask(text)
        m0 = re.search(r'\.\s*inspect\s*\(', msk)
        if not m0:
            break
        m = re.match(r'\.\s*inspect\s*\(\s*\|\s*&\s*(\w+)\s*\|\s*\{', msk[m0.start():])
        if not m:
            raise ExtractError('R31: unsupported shape of .inspect(..): %r' % norm_ws(text[m0.start():m0.start() + 60]))
        n += 1
        ob = m0.start() + m.end() - 1
        cb = match_close(msk, ob)
        tail = re.match(r'\s*\)', msk[cb + 1:])
        if not tail:
            raise ExtractError('R31: closure block is not the whole argument of .inspect(..)')
        e = cb + 1 + tail.end()
        rs = _call_receiver_start(msk, m0.start())
        recv = text[rs:m0.start()].rstrip()
        v = 'insp_%d' % n
        new = '{ let %s = %s; if let Ok(%s_ref) = &%s { let %s = *%s_ref; %s } %s }' % (v, recv, v, v, m.group(1), v, text[ob:cb + 1], v)
        if paren:       # Fn form (unit fusedevw): `({ .. })` so that a method call may follow the block in statement position; explicit else = R24
            new = '(' + new.replace(' } %s }' % v, ' } else { } %s }' % v) + ')'
        fired.append('R31 %s.inspect(|&%s| {..}) -> let + if let Ok + the original result' % (norm_ws(recv)[:40], m.group(1)))
        text = text[:rs] + _pad(new, text[rs:e]) + text[e:]
    return text


def r32_unwrap_or_else(text, fired):
    """R32: `RECV.unwrap_or_else(|| EXPR)`  ->  `match RECV { Some(uoe_N) => uoe_N, None => { EXPR } }`

    Definition of `Option::unwrap_or_else` (std: "Returns the contained Some value or computes it from a closure"); the parameterless
    closure `||` is what distinguishes it from `Result::unwrap_or_else(|e| ..)`, which is not rewritten (ExtractError).  EXPR is
    evaluated only in the None case, as in the original; it stops being a closure, so it may use what the enclosing function may use
    (here: the ghost token, which a closure must not capture mutably).  RECV must be a call expression.  Nothing is dropped."""
    n = 0
    while True:
        msk = mask(text)
        m0 = re.search(r'\.\s*unwrap_or_else\s*\(', msk)
        if not m0:
            break
        m = re.match(r'\.\s*unwrap_or_else\s*\(\s*\|\s*\|', msk[m0.start():])
        if not m:
            raise ExtractError('R32: unsupported shape of .unwrap_or_else(..): %r' % norm_ws(text[m0.start():m0.start() + 60]))
        n += 1
        ob = m0.start() + msk[m0.start():].index('(')
        cb = match_close(msk, ob)
        expr = text[m0.start() + m.end():cb].strip()
        rs = _call_receiver_start(msk, m0.start())
        recv = text[rs:m0.start()].rstrip()
        new = 'match %s { Some(uoe_%d) => uoe_%d, None => { %s } }' % (recv, n, n, expr)
        fired.append('R32 %s.unwrap_or_else(|| ..) -> match' % norm_ws(recv)[:50])
        text = text[:rs] + _pad(new, text[rs:cb + 1]) + text[cb + 1:]
    return text


def r17_cont_as_param(ctext, fired, cont, param):
    """R17' (Lifted.cont_param): closure lifting for a callback that goes on AFTER calling its continuation.

    `ctext` is the closure's block `{ B }`.  The one call `cont(ARGS)` in B is replaced by `{ lifted_args = Some((ARGS)); PARAM }`,
    where PARAM is a parameter of the lifted function standing for whatever the continuation returns (universally quantified by
    the contract), and the block becomes `{ let mut lifted_args = None; let lifted_out = { B }; Ok((lifted_args, lifted_out)) }`:
    the lifted function returns what the closure handed to the continuation (None = it was not called) and the closure's own
    result.  A `?` in B leaves the lifted function with `Err(e)` exactly as it leaves the closure.  The continuation must be
    called exactly once textually and not inside a loop; a `return` in B is not supported (ExtractError -> exit 2)."""
    msk = mask(ctext)
    hits = list(re.finditer(r'(?<![\w.:])%s\s*\(' % re.escape(cont), msk))
    if len(hits) != 1:
        raise ExtractError('ANCHOR-LOST R17\': %d calls of the continuation %s in the closure' % (len(hits), cont))
    if re.search(r'\breturn\b|\b(for|while|loop)\b', msk):
        raise ExtractError('R17\': `return` or a loop in the closure is not supported')
    m = hits[0]
    ob = m.end() - 1
    cb = match_close(msk, ob)
    args = ctext[ob + 1:cb].strip().rstrip(',')
    new = '{ lifted_args = Some((%s)); %s }' % (args, param)
    ctext = ctext[:m.start()] + _pad(new, ctext[m.start():cb + 1]) + ctext[cb + 1:]
    fired.append('R17\' continuation %s(args) -> records (args), yields the parameter `%s`; closure result returned next to the recorded args' % (cont, param))
    return '{ let mut lifted_args = None; let lifted_out = ' + ctext + '; Ok((lifted_args, lifted_out)) }'


# ----------------------------------------------------------------------------------------------
# R33: opt-in per Fn (`fn.rules = ('R33',)`), used by unit vfspersist (C19)

def r33_iter_map_collect(text, fired):
    """R33: `let P: Vec<T> = E.iter().map(|X| BODY).collect();`  ->
            `let mut P: Vec<T> = Vec::new(); let mut P_i: usize = 0;
             while P_i < E.len() { let X = &E[P_i]; let P_v = BODY; P.push(P_v); P_i += 1; }`

    Definition of `Iterator::map` followed by `collect::<Vec<_>>()` over `E.iter()` (E a place path naming a Vec / slice, possibly behind
    an Arc): `iter()` yields `&E[0]`, `&E[1]`, ... in index order, `map` applies the closure to each item in that order, `collect`
    pushes the results in that order into a new Vec.  BODY is the closure's body (block or expression), textually unchanged.
    Nothing is dropped (the capacity reserved by `collect` from the size hint is not observable).  Verus has no specification for
    iterator adapters.  Any other shape of `.collect(` raises ExtractError (exit 2)."""
    while True:
        msk = mask(text)
        m0 = re.search(r'\.\s*collect\s*(?:::\s*<[^>]*>\s*)?\(', msk)
        if not m0:
            break
        m = None
        for mm in re.finditer(r'\blet\s+(\w+)\s*:\s*(Vec\s*<[^=;]*>)\s*=\s*((?:\w+\s*\.\s*)*\w+)\s*\.\s*iter\s*\(\s*\)\s*\.\s*map\s*\(\s*\|\s*(\w+)\s*\|\s*', msk):
            if mm.start() < m0.start():
                m = mm
        if not m:
            raise ExtractError('R33: unsupported shape of .collect(..): %r' % norm_ws(text[max(0, m0.start() - 80):m0.end() + 10]))
        k = m.end()
        if msk[k] == '{':
            e = match_close(msk, k) + 1
        else:
            d, e = 0, k
            while e < len(msk):
                c = msk[e]
                if c in '([{':
                    d += 1
                elif c in ')]}':
                    if d == 0:
                        break
                    d -= 1
                e += 1
        tail = re.match(r'\s*\)\s*\.\s*collect\s*\(\s*\)\s*;', msk[e:])
        if not tail or not (e <= m0.start() < e + tail.end()):
            raise ExtractError('R33: `.iter().map(|x| ..)` is not directly followed by `.collect();` ending the let')
        end = e + tail.end()
        p, ty, coll, x = m.group(1), norm_ws(text[m.start(2):m.end(2)]), re.sub(r'\s+', '', text[m.start(3):m.end(3)]), m.group(4)
        head = 'let mut %s: %s = Vec::new(); let mut %s_i: usize = 0; while %s_i < %s.len() { let %s = &%s[%s_i]; let %s_v = ' % (p, ty, p, p, coll, x, coll, p, p)
        foot = '; %s.push(%s_v); %s_i += 1; }' % (p, p, p)
        fired.append('R33 let %s: %s = %s.iter().map(|%s| ..).collect() -> index loop pushing the closure body' % (p, ty, coll, x))
        text = text[:m.start()] + _pad(head, text[m.start():k]) + text[k:e] + _pad(foot, text[e:end]) + text[end:]
    return text


def r34_continue_to_else(text, fired):
    """R34 (opt-in, unit pseudopersist): inside a `for`/`while`/`loop` body,
            `if C { continue; } [else { }] REST }`   ->   `if C { } else { REST } }`
    where the `if` is a statement directly in the loop body, its then-block consists of `continue;` only (comments aside) and REST is
    everything up to the end of the loop body.  Same meaning: `continue` skips the rest of the body, which is what not entering the else
    branch does.  Reason: Verus `for` loops do not support `continue`.  Any other `continue` raises ExtractError (exit 2)."""
    while True:
        msk = mask(text)
        m = re.search(r'\bcontinue\s*;', msk)
        if not m:
            break
        tail = re.match(r'\s*\}', msk[m.end():])
        if not tail:
            raise ExtractError('R34: `continue` is not the last statement of its block')
        cb = m.end() + tail.end() - 1
        d, ob = 0, cb
        while ob >= 0:
            if msk[ob] == '}':
                d += 1
            elif msk[ob] == '{':
                d -= 1
                if d == 0:
                    break
            ob -= 1
        if ob < 0 or msk[ob + 1:m.start()].strip():
            raise ExtractError('R34: the block of `continue` contains other statements')
        ifs = [mm for mm in re.finditer(r'\bif\b', msk[:ob])]
        if not ifs or '{' in msk[ifs[-1].end():ob] or ';' in msk[ifs[-1].end():ob] or '}' in msk[ifs[-1].end():ob]:
            raise ExtractError('R34: `continue` is not the then-block of an `if`')
        istart = ifs[-1].start()
        e = cb + 1
        em = re.match(r'\s*else\s*\{\s*\}', msk[e:])
        if em:
            e += em.end()
        elif re.match(r'\s*else\b', msk[e:]):
            raise ExtractError('R34: the `if` of `continue` has a non-empty else')
        d, E = 0, e
        while E < len(msk):
            if msk[E] in '{([':
                d += 1
            elif msk[E] in '})]':
                if d == 0:
                    break
                d -= 1
            E += 1
        if E >= len(msk) or msk[E] != '}':
            raise ExtractError('R34: enclosing block not found')
        d, OB = 0, E
        while OB >= 0:
            if msk[OB] == '}':
                d += 1
            elif msk[OB] == '{':
                d -= 1
                if d == 0:
                    break
            OB -= 1
        if msk[OB + 1:istart].strip() and not re.search(r'[;}]\s*$', msk[OB + 1:istart]):
            raise ExtractError('R34: the `if` of `continue` is not a statement')
        hs = max(msk.rfind(';', 0, OB), msk.rfind('{', 0, OB), msk.rfind('}', 0, OB)) + 1
        if not re.match(r"\s*(?:'\w+\s*:\s*)?(for|while|loop)\b", msk[hs:OB]):
            raise ExtractError('R34: `continue` is not directly inside a loop body: %r' % norm_ws(text[hs:OB])[:60])
        fired.append('R34 if %s { continue; } REST -> if .. { } else { REST }' % norm_ws(text[ifs[-1].end():ob])[:40])
        text = text[:m.start()] + _pad('', text[m.start():m.end()]) + text[m.end():cb + 1] + ' else {' + _pad('', text[cb + 1:e]) + text[e:E] + '}' + text[E:]
    return text


# ----------------------------------------------------------------------------------------------
# R40..R42 and the free-call form of R23: opt-in per Fn (`fn.rules = ('R31', 'R40', 'R41', 'R42')`), used by unit fusedevw (C04):
# iterator adapter chains over `E.iter()` replaced by their std definitions (Verus has no specification for iterator adapters and
# rejects closures that capture `&mut self`); the closure bodies are kept verbatim and become plain code of the enclosing function.

_ITER_RECV = r'((?:\w+\s*\.\s*)*\w+\s*\.\s*iter\s*\(\s*\))'


def _closure_body(text, msk, k, stop):
    """closure body starting at k (after the `|..|`), inside a call whose closing parenthesis is at `stop`: the body is everything up
    to `stop` (a block or an expression; a trailing comma is dropped).  A block must be the whole body."""
    body = text[k:stop].strip()
    if body.endswith(','):
        body = body[:-1].rstrip()
    j = k
    while msk[j] in ' \t\n':
        j += 1
    if msk[j] == '{' and msk[match_close(msk, j) + 1:stop].strip(' \t\n,'):
        raise ExtractError('closure block is followed by more text: %r' % norm_ws(text[k:stop])[:60])
    if not body:
        raise ExtractError('empty closure body')
    return body


def r40_iter_fold(text, fired):
    """R40: `E.iter().fold(INIT, |ACC, X| BODY)`  ->  `{ let mut ACC = INIT; for X in E.iter() { ACC = BODY; } ACC }`

    Definition of `Iterator::fold` (std: `let mut accum = init; while let Some(x) = self.next() { accum = f(accum, x); } accum`) over
    `E.iter()` (E a place path naming a slice / Vec), with the closure call `f(accum, x)` replaced by the closure's body, in which the
    parameter ACC names the accumulator (read-only inside BODY: a `mut` parameter pattern is not accepted) and X the item.  BODY (block or
    expression) is textually unchanged; what it captured it now names directly, and its side effects happen at the same points in the
    same order.  Nothing is dropped.  Any other shape of `.fold(` raises ExtractError (exit 2)."""
    while True:
        msk = mask(text)
        m0 = re.search(r'\.\s*fold\s*\(', msk)
        if not m0:
            break
        m = None
        for mm in re.finditer(_ITER_RECV + r'\s*\.\s*fold\s*\(', msk):
            if mm.end() == m0.end():
                m = mm
        if not m:
            raise ExtractError('R40: unsupported shape of .fold(..): %r' % norm_ws(text[max(0, m0.start() - 60):m0.end() + 30]))
        ob = m.end() - 1
        cb = match_close(msk, ob)
        am = re.match(r'\s*([^,|]+?)\s*,\s*\|\s*(\w+)\s*,\s*(\w+)\s*\|', msk[ob + 1:cb])
        if not am:
            raise ExtractError('R40: arguments of .fold(..) are not `INIT, |ACC, X| BODY`: %r' % norm_ws(text[ob:cb + 1])[:80])
        init = text[ob + 1 + am.start(1):ob + 1 + am.end(1)]
        acc, x = am.group(2), am.group(3)
        body = _closure_body(text, msk, ob + 1 + am.end(), cb)
        recv = re.sub(r'\s+', '', text[m.start(1):m.end(1)])
        new = '{ let mut %s = %s; for %s in %s { %s = %s; } %s }' % (acc, init, x, recv, acc, body, acc)
        fired.append('R40 %s.fold(%s, |%s, %s| ..) -> accumulator loop with the closure body' % (recv, norm_ws(init), acc, x))
        text = text[:m.start()] + _pad(new, text[m.start():cb + 1]) + text[cb + 1:]
    return text


def r41_r42_iter_filter(text, fired, rules=('R41', 'R42')):
    """R41: `E.iter().filter(|P| COND).fold(INIT, |ACC, X| BODY)`
              ->  `{ let mut ACC = INIT; for X in E.iter() { if ({ let P = &X; COND }) { ACC = BODY; } else { } } ACC }`
       R42: `for X in E.iter().filter(|P| COND) { B }`
              ->  `for X in E.iter() { if ({ let P = &X; COND }) { B } else { } }`

    Definition of `Iterator::filter` (std: yields exactly the items for which the predicate, called with a reference to the item,
    returns true; the others are dropped; order kept), composed with the definition of `fold` (see R40) resp. with a `for` loop
    (which calls `next()` until None).  `let P = &X;` is the `&Self::Item` the predicate receives; COND, BODY and B are textually
    unchanged.  The predicate is evaluated once per item, immediately before that item is processed - as the lazy adapter does.
    In R42 a `break` / `continue` / `?` inside B leaves or continues the same loop as before.  The explicit empty else is rule R24.
    Nothing is dropped.  Any other shape of `.filter(` raises ExtractError (exit 2)."""
    while True:
        msk = mask(text)
        m0 = re.search(r'\.\s*filter\s*\(', msk)
        if not m0:
            break
        m = None
        for mm in re.finditer(_ITER_RECV + r'\s*\.\s*filter\s*\(', msk):
            if mm.end() == m0.end():
                m = mm
        if not m:
            raise ExtractError('R41/R42: unsupported shape of .filter(..): %r' % norm_ws(text[max(0, m0.start() - 60):m0.end() + 30]))
        fob = m.end() - 1
        fcb = match_close(msk, fob)
        pm = re.match(r'\s*\|\s*(\w+)\s*\|', msk[fob + 1:fcb])
        if not pm:
            raise ExtractError('R41/R42: predicate of .filter(..) is not `|P| COND`: %r' % norm_ws(text[fob:fcb + 1])[:80])
        p = pm.group(1)
        cond = _closure_body(text, msk, fob + 1 + pm.end(), fcb)
        recv = re.sub(r'\s+', '', text[m.start(1):m.end(1)])
        fm = re.match(r'\s*\.\s*fold\s*\(', msk[fcb + 1:])
        hm = re.search(r'\bfor\s+(\w+)\s+in\s+$', msk[:m.start()])
        lm = re.match(r'\s*\{', msk[fcb + 1:])
        if fm and 'R41' in rules:
            ob = fcb + 1 + fm.end() - 1
            cb = match_close(msk, ob)
            am = re.match(r'\s*([^,|]+?)\s*,\s*\|\s*(\w+)\s*,\s*(\w+)\s*\|', msk[ob + 1:cb])
            if not am:
                raise ExtractError('R41: arguments of .fold(..) are not `INIT, |ACC, X| BODY`: %r' % norm_ws(text[ob:cb + 1])[:80])
            init = text[ob + 1 + am.start(1):ob + 1 + am.end(1)]
            acc, x = am.group(2), am.group(3)
            body = _closure_body(text, msk, ob + 1 + am.end(), cb)
            new = '{ let mut %s = %s; for %s in %s { if ({ let %s = &%s; %s }) { %s = %s; } else { } } %s }' % (acc, init, x, recv, p, x, cond, acc, body, acc)
            fired.append('R41 %s.filter(|%s| ..).fold(%s, |%s, %s| ..) -> accumulator loop with `if` (predicate and closure body verbatim)' % (recv, p, norm_ws(init), acc, x))
            text = text[:m.start()] + _pad(new, text[m.start():cb + 1]) + text[cb + 1:]
        elif hm and lm and 'R42' in rules:
            x = hm.group(1)
            ob = fcb + 1 + lm.end() - 1
            cb = match_close(msk, ob)
            new = 'for %s in %s { if ({ let %s = &%s; %s }) %s else { } }' % (x, recv, p, x, cond, text[ob:cb + 1])
            fired.append('R42 for %s in %s.filter(|%s| ..) {..} -> for %s in %s { if (predicate) {..} else { } }' % (x, recv, p, x, recv))
            text = text[:hm.start()] + _pad(new, text[hm.start():cb + 1]) + text[cb + 1:]
        else:
            raise ExtractError('R41/R42: .filter(..) is neither followed by .fold(..) nor the iterator of a `for` loop (or the rule is not enabled): %r'
                               % norm_ws(text[m.start():fcb + 40])[:100])
    return text


def r43_result_map(text, fired):
    """R43: `RECV.map(|X| BLOCK)`  ->  `(match RECV { Ok(X) => Ok(BLOCK), Err(map_e_N) => Err(map_e_N) })`

    Definition of `Result::map` (std: "Maps a Result<T, E> to Result<U, E> by applying a function to a contained Ok value, leaving an Err
    value untouched").  RECV must be a call expression `PATH(ARGS)` (evaluated once, first, as in the original) and the closure a block
    closure with one identifier parameter; BLOCK is textually unchanged and becomes plain code of the enclosing function (unit asyncdevw:
    `pwrite(..).map(|x| { self.account_written(x); x })` captures `&mut self`, which Verus rejects in a closure).  Nothing is dropped.
    Only this shape is rewritten; every other `.map(` is left as it is.  A receiver that is not a `Result` (Option::map, Iterator::map)
    does not type-check after the rewrite (`Ok(..)` pattern), so the rule cannot silently change its meaning."""
    n = 0
    pos = 0
    while True:
        msk = mask(text)
        m = re.compile(r'\.\s*map\s*\(\s*\|\s*(\w+)\s*\|\s*\{').search(msk, pos)
        if not m:
            break
        pos = m.end()
        k = m.start() - 1
        while k >= 0 and msk[k] in ' \t\n':
            k -= 1
        if k < 0 or msk[k] != ')':
            continue                      # receiver is not a call expression: not this rule's shape
        ob = m.end() - 1
        cb = match_close(msk, ob)
        tail = re.match(r'\s*\)', msk[cb + 1:])
        if not tail:
            continue
        e = cb + 1 + tail.end()
        rs = _call_receiver_start(msk, m.start())
        recv = text[rs:m.start()].rstrip()
        n += 1
        new = '(match %s { Ok(%s) => Ok(%s), Err(map_e_%d) => Err(map_e_%d) })' % (recv, m.group(1), text[ob:cb + 1], n, n)
        fired.append('R43 %s.map(|%s| {..}) -> match with the closure block in the Ok arm' % (norm_ws(recv)[:50], m.group(1)))
        text = text[:rs] + _pad(new, text[rs:e]) + text[e:]
        pos = rs
    return text


def r23_ghost_token_free_calls(text, fired, callees, arg):
    """R23, body part for free-function calls: every call `NAME(ARGS)` with NAME in `callees` (`ghost_token['free_callees']`) that is neither
    a method call (`.NAME(`), a path call (`::NAME(`) nor a definition (`fn NAME(`) gets the ghost argument appended, exactly as
    r23_ghost_token_calls does for `.NAME(ARGS)` (unit fusedevw: the device writes `write(fd, buf)` / `writev(fd, iov)`)."""
    msk = mask(text)
    hits = [m for m in re.finditer(r'(?<![\w.:])(%s)\s*\(' % '|'.join(re.escape(c) for c in callees), msk)
            if not re.search(r'\bfn\s+$', msk[:m.start()])]
    for m in reversed(hits):
        ob = m.end() - 1
        cb = match_close(msk, ob)
        j = cb
        while msk[j - 1] in ' \t\n':
            j -= 1
        sep = '' if j - 1 == ob else (' ' if msk[j - 1] == ',' else ', ')
        text = text[:j] + sep + arg + text[j:]
    if hits:
        fired.append('R23 ghost argument %s appended to %d free call(s): %s' % (arg, len(hits), ', '.join(sorted(set(m.group(1) for m in hits)))))
    return text
