// =====================================================================================================================
// Async entry points of the abstract Writer (unit `asyncsrv`, C20), read as sequential functions (R18).  Written from
// src/transport/fusedev/mod.rs `mod async_io` (FuseDevWriter::async_*), like the sync contracts in transport.rs; ASSUMED (T4a).
//   async_write(d)          = write(d):                check_available_space, then buffer (buffered) or ONE pwrite of d
//   async_write2(d, d2)     = write_vectored([d, d2]): check_available_space(sum), then buffer or ONE writev of d ++ d2
//   async_write3(d, d2, d3) = write_vectored([d, d2, d3])
//   async_write_all(d)      = write_all(d):            loops over async_write; nothing happens for an empty d
//   async_commit(other)     : emitted by vx/units/asyncsrv.py (async_commit_model): its contract depends on whether the
//                             text of FuseDevWriter::async_commit starts with the `if !self.buffered { return Ok(0); }`
//                             gate of the sync commit.  VirtioFsWriter::async_commit is the sync commit.
impl<'a, S: BitmapSlice> Writer<'a, S> {
    #[verifier::external_body]
    pub fn async_write(&mut self, data: &[u8]) -> (r: io::Result<usize>)
        requires
            old(self).buffered@ || old(self).buf@.len() == 0, // [assert]
            !old(self).buffered@ && data@.len() <= old(self).cap@ ==> old(self).emit_pre_once(), // [once]
            !old(self).buffered@ && data@.len() <= old(self).cap@ ==> may_reply(old(self).id@), // [noreply]
            !old(self).buffered@ && data@.len() <= old(self).cap@ ==> wire_ok(old(self).id@, data@), // [frame]
            !old(self).buffered@ && data@.len() <= old(self).cap@ ==> emit_ok(old(self).id@, data@), // [emit]
        ensures
            final(self).frame_same(old(self)),
            match r {
                Ok(n) => n == data@.len() && old(self).buf@.len() + data@.len() <= old(self).cap@ && final(self).buf@ == old(self).buf@ + data@
                    && final(self).emitted@ == (if old(self).buffered@ { old(self).emitted@ } else { old(self).emitted@.push(data@) }),
                Err(_) => final(self).unchanged(old(self)),
            },
            old(self).buffered@ && old(self).buf@.len() + data@.len() <= old(self).cap@ ==> r is Ok,
    { unimplemented!() }

    #[verifier::external_body]
    pub fn async_write2(&mut self, data: &[u8], data2: &[u8]) -> (r: io::Result<usize>)
        requires
            old(self).buffered@ || old(self).buf@.len() == 0, // [assert]
            !old(self).buffered@ && (data@ + data2@).len() <= old(self).cap@ ==> old(self).emit_pre_once(), // [once]
            !old(self).buffered@ && (data@ + data2@).len() <= old(self).cap@ ==> may_reply(old(self).id@), // [noreply]
            !old(self).buffered@ && (data@ + data2@).len() <= old(self).cap@ ==> wire_ok(old(self).id@, data@ + data2@), // [frame]
            !old(self).buffered@ && (data@ + data2@).len() <= old(self).cap@ ==> emit_ok(old(self).id@, data@ + data2@), // [emit]
        ensures
            final(self).frame_same(old(self)),
            match r {
                Ok(n) => n == (data@ + data2@).len() && old(self).buf@.len() + n <= old(self).cap@ && final(self).buf@ == old(self).buf@ + (data@ + data2@)
                    && final(self).emitted@ == (if old(self).buffered@ { old(self).emitted@ } else { old(self).emitted@.push(data@ + data2@) }),
                Err(_) => final(self).unchanged(old(self)),
            },
    { unimplemented!() }

    #[verifier::external_body]
    pub fn async_write3(&mut self, data: &[u8], data2: &[u8], data3: &[u8]) -> (r: io::Result<usize>)
        requires
            old(self).buffered@ || old(self).buf@.len() == 0, // [assert]
            !old(self).buffered@ && (data@ + data2@ + data3@).len() <= old(self).cap@ ==> old(self).emit_pre_once(), // [once]
            !old(self).buffered@ && (data@ + data2@ + data3@).len() <= old(self).cap@ ==> may_reply(old(self).id@), // [noreply]
            !old(self).buffered@ && (data@ + data2@ + data3@).len() <= old(self).cap@ ==> wire_ok(old(self).id@, data@ + data2@ + data3@), // [frame]
            !old(self).buffered@ && (data@ + data2@ + data3@).len() <= old(self).cap@ ==> emit_ok(old(self).id@, data@ + data2@ + data3@), // [emit]
        ensures
            final(self).frame_same(old(self)),
            match r {
                Ok(n) => n == (data@ + data2@ + data3@).len() && old(self).buf@.len() + n <= old(self).cap@ && final(self).buf@ == old(self).buf@ + (data@ + data2@ + data3@)
                    && final(self).emitted@ == (if old(self).buffered@ { old(self).emitted@ } else { old(self).emitted@.push(data@ + data2@ + data3@) }),
                Err(_) => final(self).unchanged(old(self)),
            },
    { unimplemented!() }

    #[verifier::external_body]
    pub fn async_write_all(&mut self, data: &[u8]) -> (r: io::Result<()>)
        requires
            data@.len() > 0 ==> old(self).buffered@ || old(self).buf@.len() == 0, // [assert]
            data@.len() > 0 && !old(self).buffered@ && data@.len() <= old(self).cap@ ==> old(self).emit_pre_once(), // [once]
            data@.len() > 0 && !old(self).buffered@ && data@.len() <= old(self).cap@ ==> may_reply(old(self).id@), // [noreply]
            data@.len() > 0 && !old(self).buffered@ && data@.len() <= old(self).cap@ ==> wire_ok(old(self).id@, data@), // [frame]
            data@.len() > 0 && !old(self).buffered@ && data@.len() <= old(self).cap@ ==> emit_ok(old(self).id@, data@), // [emit]
        ensures
            final(self).frame_same(old(self)),
            match r {
                Ok(_) => old(self).buf@.len() + data@.len() <= old(self).cap@ && final(self).buf@ == old(self).buf@ + data@
                    && final(self).emitted@ == (if old(self).buffered@ || data@.len() == 0 { old(self).emitted@ } else { old(self).emitted@.push(data@) }),
                Err(_) => final(self).unchanged(old(self)),
            },
            old(self).buffered@ && old(self).buf@.len() + data@.len() <= old(self).cap@ ==> r is Ok,
    { unimplemented!() }
}
