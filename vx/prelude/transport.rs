// =====================================================================================================================
// Abstract transport (DESIGN 3.4 c/d): ghost Reader / Writer with the semantics of src/transport/fusedev/mod.rs.
// These contracts are ASSUMED by the server unit (T4); the space accounting is separately established in unit `fusedevw`.
pub trait BitmapSlice {}
impl BitmapSlice for () {}
pub mod transport {
    #[verifier::external_body] pub struct Error { _p: u8 }
    pub type Result<T> = core::result::Result<T, Error>;
}

// vm_memory::ByteValued: a plain-old-data type whose memory image is `sbytes` (length size_of).  The concrete layout of
// each wire struct is property C13 (proved by KX); here the image is an uninterpreted function of the struct value.
pub trait ByteValued: Sized + Copy {
    spec fn sbytes(&self) -> Seq<u8>;
    spec fn ssize() -> nat;
    spec fn sdecode(s: Seq<u8>) -> Self;
    fn as_slice(&self) -> (r: &[u8]) ensures r@ == self.sbytes(), r@.len() == Self::ssize();
    // vm_memory::ByteValued::from_slice: reinterpret a slice of exactly size_of bytes
    fn from_slice(bytes: &[u8]) -> (r: Option<&Self>) ensures r is Some <==> bytes@.len() == Self::ssize(), r is Some ==> r->Some_0.sbytes() == bytes@;
}
pub broadcast axiom fn axiom_sbytes_len<T: ByteValued>(x: T)
    ensures #[trigger] x.sbytes().len() == T::ssize();
pub broadcast axiom fn axiom_decode_encode<T: ByteValued>(x: T)
    ensures T::sdecode(#[trigger] x.sbytes()) == x;
#[verifier::external_body]
pub fn size_of<T: ByteValued>() -> (r: usize) ensures r == T::ssize() { unimplemented!() }

impl ByteValued for u8 {
    open spec fn sbytes(&self) -> Seq<u8> { seq![*self] }
    open spec fn ssize() -> nat { 1 }
    uninterp spec fn sdecode(s: Seq<u8>) -> Self;
    #[verifier::external_body] fn as_slice(&self) -> (r: &[u8]) { unimplemented!() }
    #[verifier::external_body] fn from_slice(bytes: &[u8]) -> (r: Option<&Self>) { unimplemented!() }
}
impl ByteValued for [u8; 8] {
    open spec fn sbytes(&self) -> Seq<u8> { self@ }
    open spec fn ssize() -> nat { 8 }
    uninterp spec fn sdecode(s: Seq<u8>) -> Self;
    #[verifier::external_body] fn as_slice(&self) -> (r: &[u8]) { unimplemented!() }
    #[verifier::external_body] fn from_slice(bytes: &[u8]) -> (r: Option<&Self>) { unimplemented!() }
}
impl ByteValued for [u8; 24] {
    open spec fn sbytes(&self) -> Seq<u8> { self@ }
    open spec fn ssize() -> nat { 24 }
    uninterp spec fn sdecode(s: Seq<u8>) -> Self;
    #[verifier::external_body] fn as_slice(&self) -> (r: &[u8]) { unimplemented!() }
    #[verifier::external_body] fn from_slice(bytes: &[u8]) -> (r: Option<&Self>) { unimplemented!() }
}

pub struct IoSlice<'a> { pub b: &'a [u8] }
impl<'a> IoSlice<'a> {
    pub fn new(b: &'a [u8]) -> (r: IoSlice<'a>) ensures r.b@ == b@ { IoSlice { b } }
}
pub open spec fn ios_concat(s: Seq<IoSlice<'_>>) -> Seq<u8> decreases s.len() {
    if s.len() == 0 { Seq::<u8>::empty() } else { s[0].b@ + ios_concat(s.skip(1)) }
}

// ---- what may leave the process on the reply channel `id` (fixed by the contract of the handler that owns the writer)
pub uninterp spec fn emit_ok(id: int, b: Seq<u8>) -> bool;       // C03: the bytes are the specified reply
pub uninterp spec fn may_reply(id: int) -> bool;                 // C01: a reply is allowed at all (never for FORGET / BATCH_FORGET)
pub uninterp spec fn uniq(id: int) -> u64;                       // the request's `unique`
pub uninterp spec fn is_notify(id: int) -> bool;                 // the channel carries a server-initiated notification, not a reply
// "notification messages carry the given arguments with a length equal to their size": unique 0, error = the notify code
#[verifier::opaque]
pub open spec fn notify_frame_ok(b: Seq<u8>) -> bool {
    b.len() >= 16 && ({ let h = <OutHeader as ByteValued>::sdecode(b.subrange(0, 16)); h.len as nat == b.len() && h.unique == 0 && h.error > 0 })
}
pub open spec fn wire_ok(id: int, b: Seq<u8>) -> bool { if is_notify(id) { notify_frame_ok(b) } else { frame_ok(uniq(id), b) } }
// C01: "one complete message (length field equals the bytes emitted, unique equals the request's, error is zero or a negated errno)"
#[verifier::opaque]
pub open spec fn frame_ok(u: u64, b: Seq<u8>) -> bool {
    b.len() >= 16 && ({
        let h = <OutHeader as ByteValued>::sdecode(b.subrange(0, 16));
        h.len as nat == b.len() && h.unique == u && (h.error == 0 || (h.error < 0 && h.error != i32::MIN))
    })
}
pub const MAX_REPLY_CAP: usize = 0x10_1000;      // MAX_BUFFER_SIZE + BUFFER_HEADER_SIZE: sessions never allocate larger reply buffers (T4)

pub struct Writer<'a, S> {
    pub id: Ghost<int>, pub buf: Ghost<Seq<u8>>, pub cap: Ghost<nat>, pub buffered: Ghost<bool>, pub primary: Ghost<bool>,
    pub emitted: Ghost<Seq<Seq<u8>>>, pub p: PhantomData<&'a S>,
}
impl<'a, S: BitmapSlice> Writer<'a, S> {
    pub open spec fn fresh(&self) -> bool {
        self.primary@ && !self.buffered@ && self.buf@.len() == 0 && self.emitted@.len() == 0 && self.cap@ <= MAX_REPLY_CAP && !is_notify(self.id@)
    }
    pub open spec fn fresh_notify(&self) -> bool {
        self.primary@ && !self.buffered@ && self.buf@.len() == 0 && self.emitted@.len() == 0 && self.cap@ <= MAX_REPLY_CAP && is_notify(self.id@)
    }
    pub open spec fn frame_same(&self, o: &Self) -> bool {
        self.id@ == o.id@ && self.cap@ == o.cap@ && self.buffered@ == o.buffered@ && self.primary@ == o.primary@
    }
    pub open spec fn unchanged(&self, o: &Self) -> bool { self.frame_same(o) && self.buf@ == o.buf@ && self.emitted@ == o.emitted@ }
    // one device write of `bytes` is about to happen on this writer
    pub open spec fn emit_pre_once(&self) -> bool { self.primary@ && self.emitted@.len() == 0 }

    #[verifier::external_body]
    pub fn bytes_written(&self) -> (r: usize) ensures r == self.buf@.len() { unimplemented!() }
    #[verifier::external_body]
    pub fn available_bytes(&self) -> (r: usize) ensures r == self.cap@ - self.buf@.len(), self.buf@.len() <= self.cap@ { unimplemented!() }

    #[verifier::external_body]
    pub fn write(&mut self, data: &[u8]) -> (r: io::Result<usize>)
        requires
            old(self).buffered@ || old(self).buf@.len() == 0, // [assert]  the assert! in FuseDevWriter::check_available_space
            !old(self).buffered@ && data@.len() <= old(self).cap@ ==> old(self).emit_pre_once(), // [once]
            !old(self).buffered@ && data@.len() <= old(self).cap@ ==> may_reply(old(self).id@), // [noreply]
            !old(self).buffered@ && data@.len() <= old(self).cap@ ==> wire_ok(old(self).id@, data@), // [frame]
            !old(self).buffered@ && data@.len() <= old(self).cap@ ==> emit_ok(old(self).id@, data@), // [emit]
        ensures
            final(self).frame_same(old(self)),
            match r {
                Ok(n) => n == data@.len() && old(self).buf@.len() + data@.len() <= old(self).cap@ && final(self).buf@ == old(self).buf@ + data@
                    && final(self).emitted@ == (if old(self).buffered@ { old(self).emitted@ } else { old(self).emitted@.push(data@) }),
                Err(_) => final(self).unchanged(old(self)),
            },
            old(self).buffered@ && old(self).buf@.len() + data@.len() <= old(self).cap@ ==> r is Ok,
    { unimplemented!() }

    #[verifier::external_body]
    pub fn write_all(&mut self, data: &[u8]) -> (r: io::Result<()>)
        requires
            data@.len() > 0 ==> old(self).buffered@ || old(self).buf@.len() == 0, // [assert]
            data@.len() > 0 && !old(self).buffered@ && data@.len() <= old(self).cap@ ==> old(self).emit_pre_once(), // [once]
            data@.len() > 0 && !old(self).buffered@ && data@.len() <= old(self).cap@ ==> may_reply(old(self).id@), // [noreply]
            data@.len() > 0 && !old(self).buffered@ && data@.len() <= old(self).cap@ ==> wire_ok(old(self).id@, data@), // [frame]
            data@.len() > 0 && !old(self).buffered@ && data@.len() <= old(self).cap@ ==> emit_ok(old(self).id@, data@), // [emit]
        ensures
            final(self).frame_same(old(self)),
            match r {
                Ok(_) => old(self).buf@.len() + data@.len() <= old(self).cap@ && final(self).buf@ == old(self).buf@ + data@
                    && final(self).emitted@ == (if old(self).buffered@ || data@.len() == 0 { old(self).emitted@ } else { old(self).emitted@.push(data@) }),
                Err(_) => final(self).unchanged(old(self)),
            },
            old(self).buffered@ && old(self).buf@.len() + data@.len() <= old(self).cap@ ==> r is Ok,
    { unimplemented!() }

    // write_obj(val) = write_all(val.as_slice())  (src/transport/fusedev/mod.rs)
    #[verifier::external_body]
    pub fn write_obj<T: ByteValued>(&mut self, val: T) -> (r: io::Result<()>)
        requires
            old(self).buffered@, // [assert] (only used on split-off, buffered writers)
        ensures
            final(self).frame_same(old(self)), final(self).emitted@ == old(self).emitted@,
            match r {
                Ok(_) => old(self).buf@.len() + T::ssize() <= old(self).cap@ && final(self).buf@ == old(self).buf@ + val.sbytes(),
                Err(_) => final(self).buf@ == old(self).buf@,
            },
    { unimplemented!() }

    #[verifier::external_body]
    pub fn write_vectored(&mut self, bufs: &[IoSlice<'_>]) -> (r: io::Result<usize>)
        requires
            old(self).buffered@ || old(self).buf@.len() == 0, // [assert]
            !old(self).buffered@ && bufs@.len() > 0 && ios_concat(bufs@).len() <= old(self).cap@ ==> old(self).emit_pre_once(), // [once]
            !old(self).buffered@ && bufs@.len() > 0 && ios_concat(bufs@).len() <= old(self).cap@ ==> may_reply(old(self).id@), // [noreply]
            !old(self).buffered@ && bufs@.len() > 0 && ios_concat(bufs@).len() <= old(self).cap@ ==> wire_ok(old(self).id@, ios_concat(bufs@)), // [frame]
            !old(self).buffered@ && bufs@.len() > 0 && ios_concat(bufs@).len() <= old(self).cap@ ==> emit_ok(old(self).id@, ios_concat(bufs@)), // [emit]
        ensures
            final(self).frame_same(old(self)),
            match r {
                Ok(n) => n == ios_concat(bufs@).len() && old(self).buf@.len() + n <= old(self).cap@ && final(self).buf@ == old(self).buf@ + ios_concat(bufs@)
                    && final(self).emitted@ == (if old(self).buffered@ || bufs@.len() == 0 { old(self).emitted@ } else { old(self).emitted@.push(ios_concat(bufs@)) }),
                Err(_) => final(self).unchanged(old(self)),
            },
    { unimplemented!() }

    // After the split `self` can hold up to `offset` bytes and is buffered; the returned writer holds the rest, is
    // buffered, and is not a channel of its own (only the primary writer's commit reaches the device).
    #[verifier::external_body]
    pub fn split_at(&mut self, offset: usize) -> (r: transport::Result<Writer<'a, S>>)
        ensures
            final(self).id@ == old(self).id@ && final(self).emitted@ == old(self).emitted@,
            r is Err ==> final(self).primary@ == old(self).primary@,
            // a split at 0 leaves `self` without room: the returned writer (the whole buffer) is then the channel
            r is Ok ==> final(self).primary@ == (old(self).primary@ && offset != 0) && r->Ok_0.primary@ == (old(self).primary@ && offset == 0),
            match r {
                Ok(w) => offset <= old(self).cap@ && final(self).cap@ == offset && final(self).buffered@
                    && final(self).buf@ == (if old(self).buf@.len() > offset { old(self).buf@.subrange(0, offset as int) } else { old(self).buf@ })
                    && w.id@ == old(self).id@ && w.buffered@ && w.emitted@.len() == 0 && w.cap@ == old(self).cap@ - offset
                    && w.buf@ == (if old(self).buf@.len() > offset { old(self).buf@.subrange(offset as int, old(self).buf@.len() as int) } else { Seq::<u8>::empty() }),
                Err(_) => offset > old(self).cap@ && final(self).unchanged(old(self)),
            },
    { unimplemented!() }

    // buffered: ONE device write of (own bytes ++ other's bytes); unbuffered: nothing (the writes went out already)
    #[verifier::external_body]
    pub fn commit(&mut self, other: Option<&Writer<'a, S>>) -> (r: io::Result<usize>)
        requires
            old(self).buffered@ && commit_bytes(old(self), other).len() > 0 ==> old(self).emit_pre_once(), // [once]
            old(self).buffered@ && commit_bytes(old(self), other).len() > 0 ==> may_reply(old(self).id@), // [noreply]
            old(self).buffered@ && commit_bytes(old(self), other).len() > 0 ==> wire_ok(old(self).id@, commit_bytes(old(self), other)), // [frame]
            old(self).buffered@ && commit_bytes(old(self), other).len() > 0 ==> emit_ok(old(self).id@, commit_bytes(old(self), other)), // [emit]
        ensures
            final(self).frame_same(old(self)), final(self).buf@ == old(self).buf@,
            !old(self).buffered@ || commit_bytes(old(self), other).len() == 0 ==> r == Ok::<usize, io::Error>(0usize) && final(self).emitted@ == old(self).emitted@,
            old(self).buffered@ && commit_bytes(old(self), other).len() > 0 ==> match r {
                Ok(n) => n == commit_bytes(old(self), other).len() && final(self).emitted@ == old(self).emitted@.push(commit_bytes(old(self), other)),
                Err(_) => final(self).emitted@ == old(self).emitted@,
            },
    { unimplemented!() }
}
pub open spec fn commit_bytes<'a, S>(w: &Writer<'a, S>, other: Option<&Writer<'a, S>>) -> Seq<u8> {
    w.buf@ + (match other { Some(o) => o.buf@, None => Seq::<u8>::empty() })
}

pub type FuseDevWriter<'a, S> = Writer<'a, S>;
pub struct Reader<'a, S> { pub rem: Ghost<Seq<u8>>, pub p: PhantomData<&'a S> }
impl<'a, S: BitmapSlice> Reader<'a, S> {
    #[verifier::external_body]
    pub fn read_obj<T: ByteValued>(&mut self) -> (r: io::Result<T>)
        ensures match r {
            Ok(v) => old(self).rem@.len() >= T::ssize() && v == T::sdecode(old(self).rem@.subrange(0, T::ssize() as int))
                     && final(self).rem@ == old(self).rem@.skip(T::ssize() as int),
            Err(_) => old(self).rem@.len() < T::ssize(),
        }
    { unimplemented!() }
    #[verifier::external_body]
    pub fn available_bytes(&self) -> (r: usize) ensures r == self.rem@.len() { unimplemented!() }
    #[verifier::external_body]
    pub fn read(&mut self, buf: &mut [u8]) -> (r: io::Result<usize>)
        ensures final(buf)@.len() == old(buf)@.len(), match r {
            Ok(n) => n == (if old(buf)@.len() <= old(self).rem@.len() { old(buf)@.len() } else { old(self).rem@.len() })
                     && final(buf)@.subrange(0, n as int) == old(self).rem@.subrange(0, n as int) && final(self).rem@ == old(self).rem@.skip(n as int),
            Err(_) => true,
        }
    { unimplemented!() }
    #[verifier::external_body]
    pub fn default() -> (r: Self) ensures r.rem@.len() == 0 { unimplemented!() }
}
