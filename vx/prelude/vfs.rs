// ---- VFS unit: opaque flag words (routing only forwards them), opaque helper types
#[derive(Clone, Copy)] pub struct OpenOptions { pub bits: u32 }
// SetattrValid: generated bitflags model (vx/flagsmodel.py) added by the units
pub mod virtio_fs { pub use super::RemovemappingOne; }
#[verifier::external_body] pub struct FsCacheReq { _p: u8 }            // stands for `dyn FsCacheReqHandler`
#[verifier::external_body] pub struct IoctlArg { _p: u8 }              // value of an IoctlData argument
#[verifier::external_body] pub struct IoctlRes { _p: u8 }              // value of an ioctl result
pub uninterp spec fn ioctl_arg(d: IoctlData<'_>) -> IoctlArg;
pub uninterp spec fn ioctl_res(r: io::Result<IoctlData<'_>>) -> io::Result<IoctlRes>;
pub trait ZeroCopyWriter { }
pub trait ZeroCopyReader { }
pub open spec fn zw_appended<W>(o: W, n: W, r: io::Result<usize>) -> bool { true }   // refined in the server unit
pub type Error = io::Error;
pub type Result<T> = io::Result<T>;
pub type VfsHandle = u64;

// backends are opaque objects that implement the (generated) FileSystem model
#[verifier::external_body] pub struct BackFileSystem { _p: u8 }
#[verifier::external_body] pub struct PseudoFs { _p: u8 }
