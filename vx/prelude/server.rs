// =====================================================================================================================
// Server unit prelude: crate-level items the extracted handlers use (hand-written models; assumptions are listed)
pub mod fuse { pub use super::*; }
pub use io::ErrorKind;
pub type Result<T> = core::result::Result<T, Error>;
#[verifier::external_body] pub struct FromBytesWithNulError { _p: u8 }
#[verifier::external_body] pub struct FsCacheReq { _p: u8 }            // stands for `dyn FsCacheReqHandler`
pub ghost struct IoctlArg { pub result: i32, pub data: Option<Seq<u8>> }     // value of an IoctlData
pub type IoctlRes = IoctlArg;
pub mod virtio_fs { pub use super::RemovemappingOne; }
#[verifier::external_body] pub fn fmt_opaque() -> String { unimplemented!() }

// conversions F::Inode / F::Handle <-> u64 are deterministic functions (T8)
pub open spec fn ino_of<F: FileSystem>(x: u64) -> F::Inode { <F::Inode as vstd::std_specs::convert::FromSpec<u64>>::from_spec(x) }
pub open spec fn fh_of<F: FileSystem>(x: u64) -> F::Handle { <F::Handle as vstd::std_specs::convert::FromSpec<u64>>::from_spec(x) }
pub open spec fn fh_u64<F: FileSystem>(h: F::Handle) -> u64 { <F::Handle as vstd::std_specs::convert::IntoSpec<u64>>::into_spec(h) }
pub open spec fn convs_ok<F: FileSystem>() -> bool {
    <F::Inode as vstd::std_specs::convert::FromSpec<u64>>::obeys_from_spec()
    && <F::Handle as vstd::std_specs::convert::FromSpec<u64>>::obeys_from_spec()
    && <F::Handle as vstd::std_specs::convert::IntoSpec<u64>>::obeys_into_spec()
}
pub open spec fn opt_fh_u64<F: FileSystem>(h: Option<F::Handle>) -> u64 { match h { Some(v) => fh_u64::<F>(v), None => 0 } }

// ---- names on the wire: bytes up to the first NUL
#[verifier::opaque]
pub open spec fn has_nul(s: Seq<u8>) -> bool { exists|i: int| 0 <= i < s.len() && s[i] == 0u8 }
pub open spec fn first_nul(s: Seq<u8>) -> int { choose|i: int| 0 <= i < s.len() && s[i] == 0u8 && forall|j: int| 0 <= j < i ==> s[j] != 0u8 }
#[verifier::opaque]
pub open spec fn cstr_of(s: Seq<u8>) -> Seq<u8> { s.subrange(0, first_nul(s)) }
// crate::bytes_to_cstr (src/lib.rs) scans with iter().position, an adapter Verus has no specification for: contract only
// (std meaning of position + CStr::from_bytes_with_nul), listed as assumed
#[verifier::external_body]
pub fn bytes_to_cstr(buf: &[u8]) -> (r: Result<&CStr>)
    ensures r is Ok <==> has_nul(buf@), r is Ok ==> r->Ok_0@ == cstr_of(buf@)
{ unimplemented!() }

// ---- reply encodings, from the kernel's definition of fuse_out_header and the per-opcode fuse_*_out structures
pub open spec fn hdr_bytes(len: nat, error: i32, unique: u64) -> Seq<u8> { (OutHeader { len: len as u32, error: error, unique: unique }).sbytes() }
pub open spec fn spec_kind_errno(k: io::ErrorKind) -> i32 {
    match k {
        io::ErrorKind::PermissionDenied => 13i32,   // EPERM | EACCES == EACCES
        io::ErrorKind::NotFound => 2i32, io::ErrorKind::Interrupted => 4i32, io::ErrorKind::AlreadyExists => 17i32,
        io::ErrorKind::WouldBlock => 11i32, _ => 5i32,
    }
}
// "errors sent as the negated errno"
pub open spec fn err_code(e: io::Error) -> i32 { match e.os_code() { Some(c) => c, None => spec_kind_errno(e.skind()) } }
#[verifier::opaque]
pub open spec fn errno_reply(unique: u64, code: i32) -> Seq<u8> { hdr_bytes(16, (-code) as i32, unique) }
pub open spec fn err_reply(unique: u64, e: io::Error) -> Seq<u8> { errno_reply(unique, err_code(e)) }
#[verifier::opaque]
pub open spec fn ok_reply(unique: u64, d2: Seq<u8>, d3: Seq<u8>) -> Seq<u8> { hdr_bytes(16 + d2.len() + d3.len(), 0, unique) + d2 + d3 }
// any well-formed error reply for this request (what a malformed request may be answered with)
#[verifier::opaque]
pub open spec fn is_err_reply(unique: u64, b: Seq<u8>) -> bool {
    b.len() == 16 && ({ let h = <OutHeader as ByteValued>::sdecode(b); h.len == 16 && h.unique == unique && h.error < 0 && h.error != i32::MIN })
}
// a filesystem error is a usable errno (T8: filesystems do not return errno 0, negative or absurd codes)
pub open spec fn err_ok(e: io::Error) -> bool { e.os_code() is Some ==> 0 < e.os_code()->Some_0 }

pub open spec fn attr_of(st: stat64, flags: u32) -> Attr {
    Attr { ino: st.st_ino, size: st.st_size as u64, blocks: st.st_blocks as u64, atime: st.st_atime as u64, mtime: st.st_mtime as u64, ctime: st.st_ctime as u64,
           atimensec: st.st_atime_nsec as u32, mtimensec: st.st_mtime_nsec as u32, ctimensec: st.st_ctime_nsec as u32, mode: st.st_mode,
           nlink: st.st_nlink as u32, uid: st.st_uid, gid: st.st_gid, rdev: st.st_rdev as u32, blksize: st.st_blksize as u32, flags: flags }
}
// "every reply path that carries an entry encodes it identically": ONE definition
pub open spec fn entry_out(e: Entry) -> EntryOut {
    EntryOut { nodeid: e.inode, generation: e.generation, entry_valid: e.entry_timeout.secs, attr_valid: e.attr_timeout.secs,
               entry_valid_nsec: e.entry_timeout.nanos, attr_valid_nsec: e.attr_timeout.nanos, attr: attr_of(e.attr, e.attr_flags) }
}
pub open spec fn attr_out(st: stat64, t: Duration) -> AttrOut { AttrOut { attr_valid: t.secs, attr_valid_nsec: t.nanos, dummy: 0, attr: attr_of(st, 0) } }
pub open spec fn lock_of(l: WireFileLock) -> FileLock { FileLock { start: l.start, end: l.end, lock_type: l.type_, pid: l.pid } }
pub open spec fn wire_lock_of(l: FileLock) -> WireFileLock { WireFileLock { start: l.start, end: l.end, type_: l.lock_type, pid: l.pid } }
// "conversions between host stat data and wire attributes preserve every field the wire format can carry"
pub open spec fn kstatfs_of(st: statvfs64) -> Kstatfs {
    Kstatfs { blocks: st.f_blocks, bfree: st.f_bfree, bavail: st.f_bavail, files: st.f_files, ffree: st.f_ffree, bsize: st.f_bsize as u32,
              namelen: st.f_namemax as u32, frsize: st.f_frsize as u32, padding: 0, spare: [0, 0, 0, 0, 0, 0] }
}
pub open spec fn zero_stat64() -> stat64 {
    stat64 { st_dev: 0, st_ino: 0, st_nlink: 0, st_mode: 0, st_uid: 0, st_gid: 0, st_rdev: 0, st_size: 0, st_blksize: 0, st_blocks: 0,
             st_atime: 0, st_atime_nsec: 0, st_mtime: 0, st_mtime_nsec: 0, st_ctime: 0, st_ctime_nsec: 0 }
}
// what a SETATTR request asks the filesystem to set: every field of fuse_setattr_in that struct stat can carry
pub open spec fn stat_of_setattr(s: SetattrIn) -> stat64 {
    stat64 { st_mode: s.mode, st_uid: s.uid, st_gid: s.gid, st_size: s.size as i64, st_atime: s.atime as i64, st_mtime: s.mtime as i64, st_ctime: s.ctime as i64,
             st_atime_nsec: s.atimensec as i64, st_mtime_nsec: s.mtimensec as i64, st_ctime_nsec: s.ctimensec as i64, ..zero_stat64() }
}
// std::mem::zeroed::<libc::stat64>() (inside `unsafe`): the all-zero bit pattern of a plain-old-data struct is the value whose
// integer fields are all zero (assumed)
pub mod mem {
    use vstd::prelude::*;
    #[verifier::external_body]
    pub unsafe fn zeroed() -> (r: super::stat64) ensures r == super::zero_stat64() { unimplemented!() }
}
pub type mode_t = u32;
pub assume_specification [<i64 as core::convert::From<u32>>::from] (v: u32) -> (r: i64) ensures r == v as i64;
impl vstd::std_specs::convert::FromSpecImpl<statvfs64> for Kstatfs {
    open spec fn obeys_from_spec() -> bool { true }
    open spec fn from_spec(v: statvfs64) -> Kstatfs { kstatfs_of(v) }
}
impl vstd::std_specs::convert::FromSpecImpl<SetattrIn> for stat64 {
    open spec fn obeys_from_spec() -> bool { true }
    open spec fn from_spec(v: SetattrIn) -> stat64 { stat_of_setattr(v) }
}
impl<'a> vstd::std_specs::convert::FromSpecImpl<&'a InHeader> for Context {
    open spec fn obeys_from_spec() -> bool { true }
    open spec fn from_spec(v: &'a InHeader) -> Context { Context { uid: v.uid, gid: v.gid, pid: v.pid as i32 } }
}
impl vstd::std_specs::convert::FromSpecImpl<stat64> for Attr {
    open spec fn obeys_from_spec() -> bool { true }
    open spec fn from_spec(v: stat64) -> Attr { attr_of(v, 0) }
}
impl vstd::std_specs::convert::FromSpecImpl<Entry> for EntryOut {
    open spec fn obeys_from_spec() -> bool { true }
    open spec fn from_spec(v: Entry) -> EntryOut { entry_out(v) }
}
impl vstd::std_specs::convert::FromSpecImpl<WireFileLock> for FileLock {
    open spec fn obeys_from_spec() -> bool { true }
    open spec fn from_spec(v: WireFileLock) -> FileLock { lock_of(v) }
}
impl vstd::std_specs::convert::FromSpecImpl<FileLock> for WireFileLock {
    open spec fn obeys_from_spec() -> bool { true }
    open spec fn from_spec(v: FileLock) -> WireFileLock { wire_lock_of(v) }
}

// <[u8]>::iter().position(|c| *c == 0): the index of the first NUL byte, None if there is none (definition of Iterator::position)
#[verifier::external_body]
pub fn nul_position(buf: &Vec<u8>) -> (r: Option<usize>)
    ensures r is Some <==> has_nul(buf@), r is Some ==> r->Some_0 as int == first_nul(buf@) && r->Some_0 < buf@.len()
{ unimplemented!() }
// the prefix of a byte string up to and including its first NUL: same name, same first NUL
pub proof fn lemma_nul_prefix(s: Seq<u8>)
    requires has_nul(s)
    ensures 0 <= first_nul(s) < s.len(), s[first_nul(s)] == 0u8,
            has_nul(s.subrange(0, first_nul(s) + 1)), first_nul(s.subrange(0, first_nul(s) + 1)) == first_nul(s),
            cstr_of(s.subrange(0, first_nul(s) + 1)) =~= cstr_of(s),
{
    reveal(has_nul); reveal(cstr_of);
    let i0 = choose|i: int| 0 <= i < s.len() && s[i] == 0u8;
    // least such index exists (well-ordering by a bounded search)
    let k = lemma_least_nul(s, i0);
    assert(0 <= k < s.len() && s[k] == 0u8 && forall|j: int| 0 <= j < k ==> s[j] != 0u8);
    let f = first_nul(s);
    assert(0 <= f < s.len() && s[f] == 0u8 && forall|j: int| 0 <= j < f ==> s[j] != 0u8);
    let p = s.subrange(0, f + 1);
    assert(p[f] == 0u8);
    assert(0 <= f < p.len() && p[f] == 0u8 && forall|j: int| 0 <= j < f ==> p[j] != 0u8);
    let g = first_nul(p);
    assert(0 <= g < p.len() && p[g] == 0u8 && forall|j: int| 0 <= j < g ==> p[j] != 0u8);
    if g < f { assert(p[g] == s[g]); assert(false); }
    if f < g { assert(p[f] == 0u8); assert(false); }
    assert(p.subrange(0, g) =~= s.subrange(0, f));
}
pub proof fn lemma_least_nul(s: Seq<u8>, i: int) -> (k: int)
    requires 0 <= i < s.len(), s[i] == 0u8
    ensures 0 <= k <= i, s[k] == 0u8, forall|j: int| 0 <= j < k ==> s[j] != 0u8
    decreases i
{
    if exists|j: int| 0 <= j < i && s[j] == 0u8 {
        let j = choose|j: int| 0 <= j < i && s[j] == 0u8;
        lemma_least_nul(s, j)
    } else { i }
}
// ---- server::ServerUtil::get_message_body contains `unsafe { buf.set_len(len) }` (R9): contract only HERE; verified on its real text against textually this contract in unit msgbody.
pub struct ServerUtil();
impl ServerUtil {
    #[verifier::external_body]
    pub fn get_message_body<'a, S: BitmapSlice>(r: &mut Reader<'a, S>, in_header: &InHeader, sub_hdr_sz: usize) -> (res: Result<Vec<u8>>)
        ensures match res {
            Ok(v) => in_header.len as int >= 40 + sub_hdr_sz && v@.len() == in_header.len as int - 40 - sub_hdr_sz && old(r).rem@.len() >= v@.len()
                     && v@ == old(r).rem@.subrange(0, v@.len() as int) && final(r).rem@ == old(r).rem@.skip(v@.len() as int),
            Err(_) => (in_header.len as int) < 40 + sub_hdr_sz || old(r).rem@.len() < in_header.len as int - 40 - sub_hdr_sz,
        }
    { unimplemented!() }
}
impl ServerUtil {
    // ServerUtil::extract_two_cstrs scans with iter().position (no Verus specification): contract only, listed as assumed
    #[verifier::external_body]
    pub fn extract_two_cstrs(buf: &[u8]) -> (r: Result<(&CStr, &CStr)>)
        ensures r is Ok <==> two_ok(buf@), r is Ok ==> r->Ok_0.0@ == cstr_of(buf@) && r->Ok_0.1@ == second_of(buf@)
    { unimplemented!() }
}
pub trait MetricsHook {
    fn collect(&self, ih: &InHeader);
    fn on_init_params(&self, init_params: &InitParams);
    fn release(&self, oh: Option<&OutHeader>);
}
#[verifier::external_body] pub fn pagesize() -> (r: usize) ensures r == 4096 { unimplemented!() }   // sysconf(_SC_PAGESIZE) on x86_64 (assumed)

// ---- zero-copy adapters handed to FileSystem::read / write (src/api/server/mod.rs ZcWriter / ZcReader wrap the transport)
pub trait ZeroCopyWriter { spec fn zw_buf(&self) -> Seq<u8>; spec fn zw_rest(&self) -> (int, nat, bool, bool, Seq<Seq<u8>>); }
pub trait ZeroCopyReader { }
// T8: a filesystem's read only APPENDS to the writer it is given and returns the number of bytes it appended
pub open spec fn zw_appended<W: ZeroCopyWriter>(o: W, n: W, r: io::Result<usize>) -> bool {
    n.zw_rest() == o.zw_rest() && n.zw_buf().len() <= n.zw_rest().1 /* a writer never holds more than its capacity */ && (match r {
        Ok(c) => n.zw_buf().len() == o.zw_buf().len() + c && n.zw_buf().subrange(0, o.zw_buf().len() as int) == o.zw_buf(),
        Err(_) => true })
}
// #[derive(Default)] of IoctlData: result 0, no data
impl<'a> Default for IoctlData<'a> { fn default() -> (r: IoctlData<'a>) ensures r.result == 0, r.data is None { IoctlData { result: 0, data: None } } }
pub open spec fn ioctl_arg(d: IoctlData<'_>) -> IoctlArg { IoctlArg { result: d.result, data: (match d.data { Some(s) => Some(s@), None => None::<Seq<u8>> }) } }
pub open spec fn ioctl_res(r: io::Result<IoctlData<'_>>) -> io::Result<IoctlRes> { match r { Ok(d) => Ok(ioctl_arg(d)), Err(e) => Err(e) } }
