// ---- C06 (from the property): "names are single components": no '/', not "." and not ".."
pub open spec fn has_slash(n: Seq<u8>) -> bool { n.contains(47u8) }
pub open spec fn is_dot(n: Seq<u8>) -> bool { n =~= seq![46u8] }
pub open spec fn is_dotdot(n: Seq<u8>) -> bool { n =~= seq![46u8, 46u8] }
pub open spec fn safe_name(n: Seq<u8>) -> bool { !has_slash(n) && !is_dot(n) && !is_dotdot(n) }

pub proof fn lemma_contains_push(s: Seq<u8>, x: u8, y: u8)
    requires x != y
    ensures s.push(y).contains(x) == s.contains(x)
{
    if s.contains(x) { let i = choose|i: int| 0 <= i < s.len() && s[i] == x; assert(s.push(y)[i] == x); }
    if s.push(y).contains(x) { let i = choose|i: int| 0 <= i < s.push(y).len() && s.push(y)[i] == x; assert(i < s.len()); assert(s[i] == x); }
}
pub open spec fn is_einval<T>(r: io::Result<T>) -> bool { r is Err && r->Err_0.os_code() == Some(22i32) }
pub open spec fn is_enoent<T>(r: io::Result<T>) -> bool { r is Err && r->Err_0.os_code() == Some(2i32) }
pub open spec fn is_enosys<T>(r: io::Result<T>) -> bool { r is Err && r->Err_0.os_code() == Some(38i32) }
