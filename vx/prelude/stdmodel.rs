// ---- models of std items used by the extracted code (assumed contracts on dependencies; each is listed in the evidence)
use std::sync::Arc;
use std::collections::HashMap;

pub assume_specification<T: PartialEq> [<[T]>::contains] (s: &[T], x: &T) -> (r: bool)
    ensures r == s@.contains(*x);
pub assume_specification<T> [std::option::Option::<std::option::Option<T>>::flatten] (o: Option<Option<T>>) -> (r: Option<T>)
    ensures r == (match o { Some(Some(v)) => Some(v), _ => None });
pub assume_specification<'a, T: Copy> [std::option::Option::<&T>::copied] (o: Option<&'a T>) -> (r: Option<T>)
    ensures r == (match o { Some(v) => Some(*v), None => None });

pub assume_specification<T, A: core::alloc::Allocator> [<std::vec::Vec<T, A> as std::convert::AsRef<[T]>>::as_ref] (v: &std::vec::Vec<T, A>) -> (r: &[T])
    ensures r@ == v@;
pub assume_specification<T, E, U, F> [std::result::Result::<T, E>::and_then] (r: std::result::Result<T, E>, f: F) -> (out: std::result::Result<U, E>)
    where F: std::ops::FnOnce(T,) -> std::result::Result<U, E> + std::marker::Destruct,
    requires r is Ok ==> f.requires((r->Ok_0,)),
    ensures match r { Ok(v) => f.ensures((v,), out), Err(e) => out == Err::<U, E>(e) };

// Option<&Arc<T>>::cloned(): vstd relates the clone by `cloned`; for Arc the clone denotes the same value (as vstd's own Arc::clone spec)
pub broadcast axiom fn axiom_arc_cloned<T>(a: Arc<T>, b: Arc<T>)
    requires #[trigger] vstd::pervasive::cloned::<Arc<T>>(a, b)
    ensures a == b;

// std::ffi::CStr: a byte string without interior NUL; `view` is the bytes before the terminating NUL
#[verifier::external_body]
pub struct CStr { _p: u8 }
impl CStr {
    pub uninterp spec fn view(&self) -> Seq<u8>;
    #[verifier::external_body]
    pub fn to_bytes_with_nul(&self) -> (r: &[u8]) ensures r@ == self@.push(0u8) { unimplemented!() }
    #[verifier::external_body]
    pub fn to_bytes(&self) -> (r: &[u8]) ensures r@ == self@ { unimplemented!() }
}
pub broadcast axiom fn axiom_cstr_no_nul(c: &CStr)
    ensures forall|i: int| 0 <= i < (#[trigger] c@).len() ==> c@[i] != 0u8;

// std::time::Duration as (secs, nanos)
#[derive(Clone, Copy)]
pub struct Duration { pub secs: u64, pub nanos: u32 }
impl Duration {
    pub fn as_secs(&self) -> (r: u64) ensures r == self.secs { self.secs }
    pub fn subsec_nanos(&self) -> (r: u32) ensures r == self.nanos { self.nanos }
}

// libc::stat64 (x86_64-linux-gnu field set) and statvfs64 (opaque)
#[derive(Clone, Copy)]
pub struct stat64 {
    pub st_dev: u64, pub st_ino: u64, pub st_nlink: u64, pub st_mode: u32, pub st_uid: u32, pub st_gid: u32,
    pub st_rdev: u64, pub st_size: i64, pub st_blksize: i64, pub st_blocks: i64,
    pub st_atime: i64, pub st_atime_nsec: i64, pub st_mtime: i64, pub st_mtime_nsec: i64, pub st_ctime: i64, pub st_ctime_nsec: i64,
}
pub open spec fn stat_no_ids(a: stat64) -> stat64 { stat64 { st_uid: 0, st_gid: 0, ..a } }
#[derive(Clone, Copy)]
pub struct statvfs64 { pub f_bsize: u64, pub f_frsize: u64, pub f_blocks: u64, pub f_bfree: u64, pub f_bavail: u64, pub f_files: u64,
    pub f_ffree: u64, pub f_favail: u64, pub f_fsid: u64, pub f_flag: u64, pub f_namemax: u64 }

// arc_swap::ArcSwap<T>: a cell holding an Arc<T>; `cur` is the value a load observes (sequential model; stores are not modelled)
#[verifier::external_body]
#[verifier::reject_recursive_types(T)]
pub struct ArcSwap<T> { _p: PhantomData<T> }
impl<T> ArcSwap<T> {
    pub uninterp spec fn cur(&self) -> T;
    #[verifier::external_body]
    pub fn load(&self) -> (r: Arc<T>) ensures *r == self.cur() { unimplemented!() }
    // a store is an effect on &self: it is guarded by a capability that the caller's contract must grant (DESIGN 3.4b)
    pub uninterp spec fn may_store(&self, v: T) -> bool;
    #[verifier::external_body]
    pub fn store(&self, v: Arc<T>) requires self.may_store(*v), // [store]
    { unimplemented!() }
}
// opaque synchronisation types that only appear as struct fields
#[verifier::external_body] pub struct AtomicU8 { _p: u8 }
pub enum Ordering { Relaxed, Release, Acquire, AcqRel, SeqCst }
#[verifier::external_body] pub struct AtomicBool { _p: u8 }
impl AtomicBool {
    pub uninterp spec fn cur(&self) -> bool;                  // the value a load observes (sequential model)
    pub uninterp spec fn may_store(&self, v: bool) -> bool;
    #[verifier::external_body] pub fn load(&self, o: Ordering) -> (r: bool) ensures r == self.cur() { unimplemented!() }
    #[verifier::external_body] pub fn store(&self, v: bool, o: Ordering) requires self.may_store(v), // [store]
    { unimplemented!() }
}
#[verifier::external_body] #[verifier::reject_recursive_types(T)] pub struct Mutex<T> { _p: PhantomData<T> }
#[verifier::external_body] #[verifier::reject_recursive_types(T)] pub struct MutexGuard<T> { _p: PhantomData<T> }
#[verifier::external_body] #[derive(Debug)] pub struct PoisonError { _p: u8 }
impl<T> Mutex<T> {
    // "Do not expect poisoned lock here" (comment in the code): assumed
    #[verifier::external_body] pub fn lock(&self) -> (r: core::result::Result<MutexGuard<T>, PoisonError>) ensures r is Ok { unimplemented!() }
}
