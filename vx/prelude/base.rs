global size_of usize == 8;   // x86_64: usize is 64 bits (assumption T7)

// ---- std::io::Error / ErrorKind: opaque value with an optional OS code and a kind (assumed model)
pub mod io {
    use vstd::prelude::*;
    #[verifier::external_body]
    #[verifier::reject_recursive_types_in_ground_variants]
    pub struct Error { _p: u8 }
    #[derive(Clone, Copy, PartialEq, Eq)]
    pub enum ErrorKind { NotFound, PermissionDenied, ConnectionRefused, ConnectionReset, ConnectionAborted, NotConnected,
        AddrInUse, AddrNotAvailable, BrokenPipe, AlreadyExists, WouldBlock, InvalidInput, InvalidData, TimedOut,
        WriteZero, Interrupted, UnexpectedEof, Unsupported, OutOfMemory, Other, Uncategorized }
    pub type Result<T> = core::result::Result<T, Error>;
    impl Error {
        pub uninterp spec fn os_code(&self) -> Option<i32>;
        pub uninterp spec fn skind(&self) -> ErrorKind;
        #[verifier::external_body]
        pub fn raw_os_error(&self) -> (r: Option<i32>) ensures r == self.os_code() { unimplemented!() }
        #[verifier::external_body]
        pub fn kind(&self) -> (r: ErrorKind) ensures r == self.skind() { unimplemented!() }
        #[verifier::external_body]
        pub fn from_raw_os_error(code: i32) -> (r: Error) ensures r.os_code() == Some(code) { unimplemented!() }
        #[verifier::external_body]
        pub fn other(msg: String) -> (r: Error) ensures r.os_code() is None, r.skind() == ErrorKind::Other { unimplemented!() }
        #[verifier::external_body]
        pub fn other_str(msg: &str) -> (r: Error) ensures r.os_code() is None, r.skind() == ErrorKind::Other { unimplemented!() }
    }
}

// ---- libc constants used by the extracted code (values of x86_64-linux-gnu; assumed, self-tested against python's errno/os)
pub mod libc {
    pub const EPERM: i32 = 1; pub const ENOENT: i32 = 2; pub const EIO: i32 = 5; pub const EBADF: i32 = 9; pub const ENOMEM: i32 = 12;
    pub const EACCES: i32 = 13; pub const EEXIST: i32 = 17; pub const EXDEV: i32 = 18; pub const ENODEV: i32 = 19; pub const ENOTDIR: i32 = 20; pub const EINVAL: i32 = 22;
    pub const ENOTTY: i32 = 25; pub const EROFS: i32 = 30; pub const EPIPE: i32 = 32; pub const ENOSYS: i32 = 38; pub const EPROTO: i32 = 71; pub const EOVERFLOW: i32 = 75;
    pub const ENOTSUP: i32 = 95; pub const EOPNOTSUPP: i32 = 95; pub const EINTR: i32 = 4; pub const EAGAIN: i32 = 11; pub const EWOULDBLOCK: i32 = 11;
    pub const ECONNREFUSED: i32 = 111; pub const ECONNRESET: i32 = 104; pub const ECONNABORTED: i32 = 103; pub const ENOTCONN: i32 = 107;
    pub const EADDRINUSE: i32 = 98; pub const EADDRNOTAVAIL: i32 = 99; pub const ETIMEDOUT: i32 = 110;
    pub const FALLOC_FL_KEEP_SIZE: i32 = 1; pub const FALLOC_FL_PUNCH_HOLE: i32 = 2; pub const FALLOC_FL_COLLAPSE_RANGE: i32 = 8;
    pub const FALLOC_FL_ZERO_RANGE: i32 = 16; pub const FALLOC_FL_INSERT_RANGE: i32 = 32; pub const FALLOC_FL_UNSHARE_RANGE: i32 = 64;
    pub const RENAME_NOREPLACE: u32 = 1; pub const RENAME_EXCHANGE: u32 = 2; pub const RENAME_WHITEOUT: u32 = 4;
    pub const S_IFMT: u32 = 0o170000; pub const S_IFDIR: u32 = 0o040000; pub const S_IFREG: u32 = 0o100000; pub const S_IFLNK: u32 = 0o120000;
    pub const O_NOFOLLOW: i32 = 0o400000; pub const O_PATH: i32 = 0o10000000; pub const O_CREAT: i32 = 0o100; pub const O_CLOEXEC: i32 = 0o2000000;
    pub const O_DIRECTORY: i32 = 0o200000; pub const O_RDONLY: i32 = 0; pub const O_WRONLY: i32 = 1; pub const O_RDWR: i32 = 2; pub const O_ACCMODE: i32 = 3;
    pub const O_EXCL: i32 = 0o200; pub const O_APPEND: i32 = 0o2000; pub const O_TRUNC: i32 = 0o1000; pub const O_DIRECT: i32 = 0o40000;
    pub const F_SETFL: i32 = 4; pub const O_NONBLOCK: i32 = 0o4000; pub const AT_EMPTY_PATH: i32 = 0x1000; pub const AT_SYMLINK_NOFOLLOW: i32 = 0x100;
    pub const UTIME_NOW: i64 = 0x3fff_ffff; pub const UTIME_OMIT: i64 = 0x3fff_fffe;
    #[allow(non_camel_case_types)] pub type off64_t = i64;
    #[allow(non_camel_case_types)] pub struct timespec { pub tv_sec: i64, pub tv_nsec: i64 }
    #[allow(non_camel_case_types)] pub type mode_t = u32;
    #[allow(non_camel_case_types)] pub type c_int = i32;
    pub const SEEK_SET: i32 = 0;      // lseek(2) whence (unit ptreaddir)
    #[allow(non_camel_case_types)] pub type ino64_t = u64;
    #[allow(non_camel_case_types)] pub type c_ushort = u16;
    #[allow(non_camel_case_types)] pub type c_uchar = u8;
}

// slices are at most isize::MAX bytes long (language guarantee; invoked explicitly where needed)
pub broadcast axiom fn axiom_slice_len(s: &[u8])
    ensures #[trigger] s@.len() <= 0x7fff_ffff_ffff_ffff;
