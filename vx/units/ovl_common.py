"""Shared model and contracts of the overlay units (C10, C11): ovl_layer, ovl_real, ovl_merge, ovl_ops.

A LAYER is modelled as an object implementing the model trait `FileSystem` below (generated from the real trait text of
src/api/filesystem/sync_io.rs on every run, restricted to the operations the overlay calls) plus `trait Layer`.

* every MUTATING operation (create, mkdir, mknod, symlink, link, unlink, rmdir, rename, setattr, write, setxattr, removexattr, fallocate;
  and the Layer helpers create_whiteout, delete_whiteout, set_opaque) is a capability-guarded call:
      requires self.is_upper()          // [upper]  the object is the overlay's upper layer: C10 "never modifies lowers"
               self.may_<op>(args..)     // [cap]    exactly these arguments (what is created / removed, under which name, with which mode..)
  `is_upper` and `may_*` are uninterpreted; a function under contract can call a mutator only if its own `requires` grants the capability.
* results: `s_<op>(ctx, args..)` names what the layer answers to that call (a function of the arguments; no extracted function relates two
  reads of the same object made on both sides of a mutation - stated assumption A-LAYER-FN).
* signature abstraction (logged per run): `Self::Inode` / `Self::Handle` are `u64` (the overlay fixes `BoxedLayer = Box<dyn Layer<Inode = u64,
  Handle = u64>>`), so the reflexive conversions `x.into()` are the identity; `Box<dyn Layer..>` is an opaque implementor `LayerObj`;
  `&mut dyn ZeroCopyWriter/Reader` are the concrete `&mut File` the overlay passes (copy-up through a temporary file).
"""
import re

from vx.api import Unit, Fn, Copy, Raw, Group
from vx import extract as X, fsmodel

FSMOD = 'src/api/filesystem/mod.rs'
ABI = 'src/abi/fuse_abi_linux.rs'
LAYER = 'src/api/filesystem/overlay.rs'
OVL = 'src/overlayfs/mod.rs'
OVLS = 'src/overlayfs/sync_io.rs'
UTILS = 'src/overlayfs/utils.rs'
LAYER_TRAIT = 'pub trait Layer: FileSystem'

# C10: "the Layer trait's mutating operations"
MUTATING = ['create', 'mkdir', 'mknod', 'symlink', 'link', 'unlink', 'rmdir', 'rename', 'setattr', 'write', 'setxattr', 'removexattr', 'fallocate']
READING = ['lookup', 'forget', 'getattr', 'readlink', 'open', 'read', 'release', 'statfs', 'getxattr', 'listxattr', 'opendir', 'releasedir',
           'access', 'lseek', 'flush', 'fsync', 'fsyncdir']

GENERIC_TAGS = {'upper': ['C10'], 'cap': ['C10']}
# libc items the overlay code uses that prelude/base.rs does not have (x86_64-linux-gnu values): added to the prelude's `libc` module for the
# overlay units only (Unit.prelude_subst), so that no other unit's generated text changes
LIBC_EXTRA = ('pub mod libc {', '''pub mod libc {
    pub const S_IFCHR: u32 = 0o020000; pub const S_IFBLK: u32 = 0o060000; pub const S_IFIFO: u32 = 0o010000; pub const S_IFSOCK: u32 = 0o140000;
    pub const ENAMETOOLONG: i32 = 36; pub const ENOTEMPTY: i32 = 39; pub const ENODATA: i32 = 61;''')
NO_STD_HASHMAP = ('use std::collections::HashMap;', '')


def _spec_param(n, t):
    """-> (exec type in the model, spec type or None, spec expression)"""
    t = t.replace('Self::Inode', 'u64').replace('Self::Handle', 'u64')
    if t == '&Context':
        return ('&Context', 'Context', '*%s' % n)
    if t == '&CStr':
        return ('&CStr', 'Seq<u8>', '%s@' % n)
    if t == '&[u8]':
        return ('&[u8]', 'Seq<u8>', '%s@' % n)
    if t in ('&mut dyn ZeroCopyWriter', '&mut dyn ZeroCopyReader'):
        return ('&mut File', None, None)
    if t.startswith('&') or 'dyn' in t:
        raise X.ExtractError('ovl model: parameter %s: %s not supported' % (n, t))
    return (t, t, n)


def gen_fs_model(root, notes):
    """model trait FileSystem + the opaque implementor LayerObj, from the real trait text"""
    ms = {m['name']: m for m in fsmodel.parse_methods(root)}
    T = ['// ---- model of trait FileSystem for overlay layers, generated from src/api/filesystem/sync_io.rs (operations the overlay calls)',
         'pub trait FileSystem: Sized {',
         '    spec fn is_upper(&self) -> bool;      // this object is the upper layer of the overlay: the only layer a modification may reach (C10)',
         '    spec fn s_content(&self, inode: u64) -> Seq<u8>;    // bytes of the regular file `inode` of this layer']
    I = ['impl FileSystem for LayerObj {', '    uninterp spec fn is_upper(&self) -> bool;', '    uninterp spec fn s_content(&self, inode: u64) -> Seq<u8>;']
    for name in MUTATING + READING:
        if name not in ms:
            raise X.ExtractError('ovl model: FileSystem::%s not found in the real trait' % name)
        m = ms[name]
        eparams, sparams, sexprs = [], [], []
        for (n, t) in m['params']:
            et, st, se = _spec_param(n, t)
            eparams.append('%s: %s' % (n, et))
            if st is not None:
                sparams.append((n, st, se))
        ret = m['ret']
        if ret:
            ret = ret.replace('Self::Inode', 'u64').replace('Self::Handle', 'u64')
        mut = name in MUTATING
        cap_params = [(n, st, se) for (n, st, se) in sparams if n != 'ctx']
        if name == 'write':
            # the bytes on offer (from the reader's cursor on) are part of the call's value
            cap_params = cap_params + [('data', 'Seq<u8>', 'old(r).data().skip(old(r).pos() as int)')]
        if mut:
            T.append('    spec fn may_%s(&self%s) -> bool;' % (name, ''.join(', %s: %s' % (n, st) for (n, st, _) in cap_params)))
            I.append('    uninterp spec fn may_%s(&self%s) -> bool;' % (name, ''.join(', %s: %s' % (n, st) for (n, st, _) in cap_params)))
        if ret:
            T.append('    spec fn s_%s(&self%s) -> %s;' % (name, ''.join(', %s: %s' % (n, st) for (n, st, _) in sparams), ret))
            I.append('    uninterp spec fn s_%s(&self%s) -> %s;' % (name, ''.join(', %s: %s' % (n, st) for (n, st, _) in sparams), ret))
        sig = '    fn %s(&self, %s)' % (name, ', '.join(eparams)) + ((' -> (res: %s)' % ret) if ret else '')
        T.append(sig)
        req, ens = [], []
        if mut:
            req.append('self.is_upper(), // [upper]')
            req.append('self.may_%s(%s), // [cap]' % (name, ', '.join(se for (_, _, se) in cap_params)))
        if ret:
            ens.append('res == self.s_%s(%s)' % (name, ', '.join(se for (_, _, se) in sparams)))
        if name == 'open':
            # C10: opening can itself modify (open(2): O_TRUNC truncates whatever the access mode, O_CREAT creates, a write access mode lets
            # later writes through); on a layer that is not the upper one only flag words that cannot do any of that are allowed
            req.append('self.is_upper() || sp_open_harmless(flags), // [C10.open.lower_flags] a lower layer is only ever opened with flags that cannot change it: access mode O_RDONLY, no O_CREAT, no O_TRUNC')
        if name == 'read':
            # read(2) on the layer's file: up to `size` bytes from `offset` land in `w` at its cursor (the overlay appends to a fresh temporary
            # file); 0 bytes only at or beyond the end of the file
            req.append('old(w).pos() == old(w).data().len(),')
            ens.append('''res is Ok ==> ({ let c = self.s_content(inode); let n = res->Ok_0 as int;
                &&& n <= size && (n > 0 ==> offset + n <= c.len()) && (n == 0 <==> (size == 0 || offset >= c.len()))
                &&& final(w).data() == old(w).data() + c.subrange(offset as int, offset + n) && final(w).pos() == final(w).data().len() })''')
        if name == 'write':
            # write: up to `size` of the bytes on offer go to the file at `offset`; 0 only when nothing is on offer
            ens.append('''res is Ok ==> ({ let n = res->Ok_0 as int; let avail = old(r).data().len() - old(r).pos();
                &&& n <= size && n <= avail && (n == 0 <==> (size == 0 || avail == 0))
                &&& final(r).data() == old(r).data() && final(r).pos() == old(r).pos() + n })''')
        if req:
            T.append('        requires ' + '\n            '.join(req))
        T.append(('        ensures ' + ',\n            '.join(ens) + ';') if ens else '        ;')
        I.append('    #[verifier::external_body] fn %s(&self, %s)%s { unimplemented!() }' % (name, ', '.join(eparams), (' -> (res: %s)' % ret) if ret else ''))
    T.append('}')
    I.append('}')
    notes.append('ovl model: FileSystem restricted to %s; Self::Inode/Self::Handle = u64; stream parameters = &mut File' % ', '.join(MUTATING + READING))
    return '\n'.join(T), '\n'.join(I)


# ----------------------------------------------------------------------------------------------------------------------
# hand-written prelude shared by the overlay units: types, the overlayfs predicates (written from the overlayfs rules), small models
PRE = r'''
pub type Inode = u64;
pub type Handle = u64;
pub type Result<T> = core::result::Result<T, io::Error>;
pub use io::{Error, ErrorKind};
// open(2): the flag bits through which an open can change the file or the directory it is in - a write access mode (O_WRONLY 1, O_RDWR 2,
// and the reserved mode 3), O_CREAT (0o100), O_TRUNC (0o1000; it truncates even with O_RDONLY when the caller may write the file).
// O_APPEND / O_NOFOLLOW / O_DIRECT / O_NOATIME / O_CLOEXEC / O_NONBLOCK / O_SYNC change nothing by themselves; O_TMPFILE needs a write mode.
pub open spec fn sp_open_harmless(flags: u32) -> bool { flags & 0o1103u32 == 0 }
impl Context {
    // #[derive(Default)] on three integer fields
    pub fn default() -> (r: Context) ensures r == (Context { uid: 0, gid: 0, pid: 0 }) { Context { uid: 0, gid: 0, pid: 0 } }
}
// ---- names: &str / String -> the bytes of a C string (UTF-8 encoding, uninterpreted)
pub uninterp spec fn str_bytes(s: Seq<char>) -> Seq<u8>;
#[verifier::external_body] pub struct CString { _p: u8 }
impl CString {
    pub uninterp spec fn view(&self) -> Seq<u8>;
    #[verifier::external_body] pub fn as_c_str(&self) -> (r: &CStr) ensures r@ == self@ { unimplemented!() }
}
// CString::new(name) with the NulError turned into an io::Error (by `?` / map_err): fails only for an interior NUL
#[verifier::external_body] pub fn cstring_new_io(name: &str) -> (r: Result<CString>) ensures r is Ok ==> r->Ok_0@ == str_bytes(name@) { unimplemented!() }
#[verifier::external_body] pub fn fmt_opaque() -> String { unimplemented!() }
// u8::eq_ignore_ascii_case (std: "checks that two values are an ASCII case-insensitive match")
pub open spec fn ascii_lower(b: u8) -> u8 { if 65 <= b <= 90 { (b + 32) as u8 } else { b } }
pub assume_specification [u8::eq_ignore_ascii_case] (a: &u8, b: &u8) -> (r: bool) ensures r == (ascii_lower(*a) == ascii_lower(*b));

// ---- libc device numbers: verified copies of libc 0.2.189 (src/unix/linux_like/linux_l4re_shared.rs: makedev / major / minor)
pub mod libc_dev {
    use vstd::prelude::*;
    pub open spec fn sp_major(dev: u64) -> u32 { (((dev & 0x0000_0000_000f_ff00u64) >> 8) | ((dev & 0xffff_f000_0000_0000u64) >> 32)) as u32 }
    pub open spec fn sp_minor(dev: u64) -> u32 { ((dev & 0x0000_0000_0000_00ffu64) | ((dev & 0x0000_0fff_fff0_0000u64) >> 12)) as u32 }
    pub fn major(dev: u64) -> (r: u32) ensures r == sp_major(dev) {
        let mut major: u64 = 0; major = major | ((dev & 0x0000_0000_000f_ff00u64) >> 8); major = major | ((dev & 0xffff_f000_0000_0000u64) >> 32);
        proof { let a = (dev & 0x0000_0000_000f_ff00u64) >> 8; let b = (dev & 0xffff_f000_0000_0000u64) >> 32; assert(((0u64 | a) | b) == (a | b)) by (bit_vector); }
        major as u32
    }
    pub fn minor(dev: u64) -> (r: u32) ensures r == sp_minor(dev) {
        let mut minor: u64 = 0; minor = minor | ((dev & 0x0000_0000_0000_00ffu64) >> 0); minor = minor | ((dev & 0x0000_0fff_fff0_0000u64) >> 12);
        proof { let a = dev & 0x0000_0000_0000_00ffu64; let b = (dev & 0x0000_0fff_fff0_0000u64) >> 12; assert(((0u64 | (a >> 0)) | b) == (a | b)) by (bit_vector); }
        minor as u32
    }
    pub fn makedev(major: u32, minor: u32) -> (r: u64) ensures major == 0 && minor == 0 ==> r == 0 {
        let major = major as u64; let minor = minor as u64; let mut dev: u64 = 0;
        dev = dev | ((major & 0x0000_0fffu64) << 8); dev = dev | ((major & 0xffff_f000u64) << 32); dev = dev | ((minor & 0x0000_00ffu64) << 0); dev = dev | ((minor & 0xffff_ff00u64) << 12);
        proof { assert(((0u64 & 0x0000_0fffu64) << 8) == 0 && ((0u64 & 0xffff_f000u64) << 32) == 0 && ((0u64 & 0x0000_00ffu64) << 0) == 0 && ((0u64 & 0xffff_ff00u64) << 12) == 0 && (0u64 | 0u64) == 0) by (bit_vector); }
        dev
    }
    // the two halves cover all 64 bits of a device number: "0/0" is the device number 0
    pub proof fn lemma_dev00(dev: u64) ensures (sp_major(dev) == 0 && sp_minor(dev) == 0) <==> dev == 0 {
        assert(((((dev & 0x0000_0000_000f_ff00u64) >> 8) | ((dev & 0xffff_f000_0000_0000u64) >> 32)) as u32 == 0
                && ((dev & 0x0000_0000_0000_00ffu64) | ((dev & 0x0000_0fff_fff0_0000u64) >> 12)) as u32 == 0) <==> dev == 0) by (bit_vector);
    }
}

// ---- the overlayfs predicates, written from Documentation/filesystems/overlayfs.rst ("whiteouts and opaque directories")
pub open spec fn sp_is_dir(st: stat64) -> bool { st.st_mode & 0o170000u32 == 0o040000u32 }
// "A whiteout is created as a character device with 0/0 device number"
pub open spec fn sp_whiteout(st: stat64) -> bool { st.st_mode & 0o170000u32 == 0o020000u32 && st.st_rdev == 0 }
// the node mknod(mode, rdev) makes is a whiteout (mknod(2): file type from mode & S_IFMT, st_rdev = rdev)
pub open spec fn sp_whiteout_node(mode: u32, rdev: u32) -> bool { mode & 0o170000u32 == 0o020000u32 && rdev == 0 }
// "A directory is made opaque by setting the xattr "trusted.overlay.opaque" to "y"" (+ the user.* spellings this crate also honours; the
// crate accepts "Y" as well, the kernel only "y")
pub open spec fn sp_opaque_value(v: Seq<u8>) -> bool { v.len() == 1 && (v[0] == 121u8 || v[0] == 89u8) }
// the marker names, PINNED here as byte strings (not taken from the crate's constants): the fuse-overlayfs marker, the kernel's privileged
// marker (Documentation/filesystems/overlayfs.rst: "trusted.overlay.opaque"), the kernel's marker under the `userxattr` mount option
pub open spec fn opq_name0() -> Seq<u8> { seq![%(N0)s] }      // "user.fuseoverlayfs.opaque"
pub open spec fn opq_name1() -> Seq<u8> { seq![%(N1)s] }      // "trusted.overlay.opaque"
pub open spec fn opq_name2() -> Seq<u8> { seq![%(N2)s] }      // "user.overlay.opaque"
pub open spec fn sp_opaque_name(n: Seq<u8>) -> bool { n == opq_name0() || n == opq_name1() || n == opq_name2() }
pub open spec fn sp_xattr_opaque(r: Result<GetxattrReply>) -> bool { r is Ok && r->Ok_0 is Value && sp_opaque_value(r->Ok_0->Value_0@) }
// the directory `ino` of layer `l` carries an opaque mark / the object `ino` is a whiteout
pub open spec fn opaque_marked<L: FileSystem>(l: &L, ctx: Context, ino: u64) -> bool {
    sp_xattr_opaque(l.s_getxattr(ctx, ino, opq_name0(), OPAQUE_XATTR_LEN)) || sp_xattr_opaque(l.s_getxattr(ctx, ino, opq_name1(), OPAQUE_XATTR_LEN))
        || sp_xattr_opaque(l.s_getxattr(ctx, ino, opq_name2(), OPAQUE_XATTR_LEN))
}
pub open spec fn whiteout_marked<L: FileSystem>(l: &L, ctx: Context, ino: u64) -> bool {
    l.s_getattr(ctx, ino, None) is Ok && sp_whiteout(l.s_getattr(ctx, ino, None)->Ok_0.0)
}
// nothing (visible) exists under a name: lookup says ENOENT, or answers with a negative entry
pub open spec fn sp_absent(r: Result<Entry>) -> bool {
    (r is Err && r->Err_0.os_code() == Some(2i32)) || (r is Ok && r->Ok_0.inode == 0 && !sp_whiteout(r->Ok_0.attr))
}
// file sizes are off_t values (assumption A-FILESIZE)
#[verifier::external_body] pub proof fn axiom_file_size<L: FileSystem>(l: &L, ino: u64) ensures l.s_content(ino).len() <= 0x7fff_ffff_ffff_ffff { }
pub open spec fn err_is(r_err: Error, code: i32) -> bool { r_err.os_code() == Some(code) }
// std::fs::File as the overlay uses it for copy-up: a byte sequence and a cursor
#[verifier::external_body] pub struct File { _p: u8 }
pub enum SeekFrom { Start(u64), End(i64), Current(i64) }
impl File {
    pub uninterp spec fn data(&self) -> Seq<u8>;
    pub uninterp spec fn pos(&self) -> nat;
    #[verifier::external_body] pub fn seek(&mut self, p: SeekFrom) -> (r: Result<u64>)
        ensures final(self).data() == old(self).data(), r is Ok && p == SeekFrom::Start(0) ==> final(self).pos() == 0, r is Err ==> final(self).pos() == old(self).pos()
    { unimplemented!() }
}
'''

DOC_NAMES = dict(N0=b'user.fuseoverlayfs.opaque', N1=b'trusted.overlay.opaque', N2=b'user.overlay.opaque')
for _k, _v in DOC_NAMES.items():
    PRE = PRE.replace('%%(%s)s' % _k, ', '.join('%du8' % b for b in _v))

LAYER_OBJ = r'''
// `Box<dyn Layer<Inode = u64, Handle = u64> + Send + Sync>`: an opaque implementor (dynamic dispatch -> one uninterpreted implementor)
#[verifier::external_body] pub struct LayerObj { _p: u8 }
pub type BoxedLayer = LayerObj;
'''

# ---- contracts of the Layer helpers: proved on the real text in unit ovl_layer, assumed (external_body, same strings) by the other units
WH_MODE = '(0o020000u32 | 0o777u32)'       # S_IFCHR | 0o777: what create_whiteout passes to mknod (shape taken from the code)
LAYER_CONTRACTS = {
    'create_whiteout': dict(
        requires=['self.is_upper() // [upper]',
                  # only a whiteout node, only under that name, only where nothing visible exists
                  'forall|p: u64, n: Seq<u8>, m: u32, d: u32, u: u32| #[trigger] self.may_mknod(p, n, m, d, u) <==> (p == parent && n == name@ && sp_whiteout_node(m, d) && sp_absent(self.s_lookup(*ctx, parent, name@))) // [C10.create_whiteout.cap] what create_whiteout makes is a whiteout (char device 0/0), under that name only, and only where no entry exists'],
        ensures=['({ let l = self.s_lookup(*ctx, parent, name@); r is Ok ==> (l is Ok && sp_whiteout(l->Ok_0.attr) && r->Ok_0 == l->Ok_0) || (sp_absent(l) && r == self.s_mknod(*ctx, parent, name@, %s, 0u32, 0u32)) }) // [C10.create_whiteout.result] the entry returned is the whiteout that already was there or the one just made' % WH_MODE,
                 '({ let l = self.s_lookup(*ctx, parent, name@); l is Ok && l->Ok_0.inode != 0 && !sp_whiteout(l->Ok_0.attr) ==> r is Err && err_is(r->Err_0, 17) }) // [C10.create_whiteout.no_clobber] an existing entry is never replaced (EEXIST)']),
    'delete_whiteout': dict(
        requires=['self.is_upper() // [upper]',
                  'forall|p: u64, n: Seq<u8>| #[trigger] self.may_unlink(p, n) <==> (p == parent && n == name@ && self.s_lookup(*ctx, parent, name@) is Ok && sp_whiteout(self.s_lookup(*ctx, parent, name@)->Ok_0.attr)) // [C11.delete_whiteout.only_whiteout] delete_whiteout removes nothing but a whiteout, under that name'],
        ensures=['({ let l = self.s_lookup(*ctx, parent, name@); l is Ok && sp_whiteout(l->Ok_0.attr) ==> r == self.s_unlink(*ctx, parent, name@) }) // [C11.delete_whiteout.removes] a whiteout under that name is unlinked',
                 '({ let l = self.s_lookup(*ctx, parent, name@); l is Ok && l->Ok_0.inode != 0 && !sp_whiteout(l->Ok_0.attr) ==> r is Err && err_is(r->Err_0, 22) }) // [C11.delete_whiteout.not_whiteout] any other entry is refused (EINVAL)',
                 'sp_absent(self.s_lookup(*ctx, parent, name@)) ==> r is Ok']),
    'is_whiteout': dict(
        requires=[],
        ensures=['r is Ok ==> (r->Ok_0 <==> whiteout_marked(self, *ctx, inode)) // [C10.layer.is_whiteout] whiteout <=> character device with device number 0/0',
                 'self.s_getattr(*ctx, inode, None) is Ok ==> r is Ok']),
    'set_opaque': dict(
        requires=['self.is_upper() // [upper]',
                  'forall|i: u64, n: Seq<u8>, v: Seq<u8>, f: u32| #[trigger] self.may_setxattr(i, n, v, f) <==> (i == inode && sp_opaque_name(n) && sp_opaque_value(v) && self.s_getattr(*ctx, inode, None) is Ok && sp_is_dir(self.s_getattr(*ctx, inode, None)->Ok_0.0)) // [C10.set_opaque.cap] set_opaque writes an opaque mark is_opaque honours ("y"), on that directory only'],
        ensures=['r is Ok ==> r == self.s_setxattr(*ctx, inode, opq_name0(), seq![121u8], 0u32) && sp_is_dir(self.s_getattr(*ctx, inode, None)->Ok_0.0) // [C10.set_opaque.result]',
                 'self.s_getattr(*ctx, inode, None) is Ok && !sp_is_dir(self.s_getattr(*ctx, inode, None)->Ok_0.0) ==> r is Err && err_is(r->Err_0, 20) // [C10.set_opaque.notdir]']),
    'is_opaque': dict(
        requires=[],
        ensures=['r is Ok ==> (r->Ok_0 <==> opaque_marked(self, *ctx, inode)) // [C10.layer.is_opaque] opaque <=> one of the opaque xattrs holds "y"',
                 'r is Ok ==> self.s_getattr(*ctx, inode, None) is Ok && sp_is_dir(self.s_getattr(*ctx, inode, None)->Ok_0.0) // [C10.layer.is_opaque.dir] only directories are opaque']),
}
LAYER_SIG = [('Self::Inode', 'u64')]
INTO_ID = (r'\b(\w+(?:\.\w+)*)\.into\(\)', r'\1', 'every: reflexive conversion u64 -> u64 (Self::Inode = u64) is the identity')
ARC_AS_REF = (r'\b((?:\w+\.)*\w+)\.as_ref\(\)', r'(&*\1)', 'every: <Arc<T> as AsRef<T>>::as_ref is the deref of the Arc')
STATIC_STR = [(': &str', ": &'static str")]       # the elided lifetime of a const is 'static (Verus wants it spelled)
LIBC_DEV = (r'\blibc::(major|minor|makedev)\(', r'libc_dev::\1(', 'every: libc device-number helpers -> verified copies of libc 0.2.189 (module libc_dev)')


def str_const_bytes(root, file, names):
    """R11 for `const NAME: &str = "literal";`: the UTF-8 bytes of each literal, computed here from the constant's text on every run, stated as
    what `str_bytes` (the uninterpreted UTF-8 encoding) gives for the constant (assumed lemma `lemma_str_consts`: the extractor's computation
    is trusted, as for R11).  The SPECIFICATION does not use it: it pins the protocol's names itself (opq_name0/1/2); the checked statement
    `opaque_names_pinned` says the two agree."""
    src = X.Source(root, file)
    ens = []
    for n in names:
        m = re.search(r'(?m)^\s*pub const %s\s*:\s*&(?:\'static\s+)?str\s*=\s*"((?:[^"\\]|\\.)*)"\s*;' % re.escape(n), src.src)
        if not m:
            raise X.ExtractError('str const not found: %s::%s' % (file, n))
        bs = bytes(m.group(1), 'utf-8').decode('unicode_escape').encode('utf-8')
        ens.append('str_bytes(%s@) == seq![%s]' % (n, ', '.join('%du8' % b for b in bs)))
    return ("#[verifier::external_body] pub proof fn lemma_str_consts()\n    ensures " + ',\n        '.join(ens) + "\n{ }\n"
            "// the names is_opaque consults and set_opaque writes are exactly the protocol's; the read buffer can hold the one-byte value\n"
            "pub proof fn opaque_names_pinned()\n"
            "    ensures str_bytes(OPAQUE_XATTR@) == opq_name0() && str_bytes(PRIVILEGED_OPAQUE_XATTR@) == opq_name1() && str_bytes(UNPRIVILEGED_OPAQUE_XATTR@) == opq_name2(), // [C10.layer.is_opaque.names] user.fuseoverlayfs.opaque / trusted.overlay.opaque / user.overlay.opaque, byte for byte\n"
            "        OPAQUE_XATTR_LEN >= 1, // [C10.layer.is_opaque.len]\n"
            "{ lemma_str_consts(); }\n")


def common_items(root, notes, with_setattr=False):
    """types copied from /repo + the layer model"""
    T, I = gen_fs_model(root, notes)
    items = [
        Copy(FSMOD, r'pub struct Context\b', prefix='#[derive(Clone, Copy)]', subst=[('libc::uid_t', 'u32'), ('libc::gid_t', 'u32'), ('libc::pid_t', 'i32')]),
        Copy(FSMOD, r'pub struct Entry\b', prefix='#[derive(Clone, Copy)]'),
        Copy(FSMOD, r'pub enum GetxattrReply\b'),
        Copy(FSMOD, r'pub enum ListxattrReply\b'),
        Copy(ABI, r'pub struct CreateIn\b', prefix='#[derive(Clone, Copy)]'),
        Copy(LAYER, r'pub const OPAQUE_XATTR_LEN\b'), Copy(LAYER, r'pub const OPAQUE_XATTR\b', subst=STATIC_STR),
        Copy(LAYER, r'pub const UNPRIVILEGED_OPAQUE_XATTR\b', subst=STATIC_STR), Copy(LAYER, r'pub const PRIVILEGED_OPAQUE_XATTR\b', subst=STATIC_STR),
        Raw(PRE), Raw(str_const_bytes(root, LAYER, ('OPAQUE_XATTR', 'PRIVILEGED_OPAQUE_XATTR', 'UNPRIVILEGED_OPAQUE_XATTR'))), Raw(LAYER_OBJ),
    ]
    from vx import flagsmodel
    items += flagsmodel.items(root, ABI, 'SetattrValid')
    items += flagsmodel.items(root, ABI, 'OpenOptions')
    items += [Raw(T), Raw(I)]
    return items


def layer_trait(root, external):
    """`trait Layer: FileSystem` with its five helper methods: extracted and verified (unit ovl_layer) or contract only (external=True)"""
    fns = []
    for name in ('create_whiteout', 'delete_whiteout', 'is_whiteout', 'set_opaque', 'is_opaque'):
        c = LAYER_CONTRACTS[name]
        f = Fn(LAYER, LAYER_TRAIT, name, requires=c['requires'], ensures=c['ensures'], props=['C10'], canary=not external,
               sig_subst=LAYER_SIG, body_resub=[INTO_ID, LIBC_DEV], external_body=external)
        fns.append(f)
    return fns


def layer_impl():
    return Raw('impl Layer for LayerObj { #[verifier::external_body] fn root_inode(&self) -> (r: u64) { unimplemented!() } }')


def byte_literals(root, file, scope, name, prefix):
    """R11 for byte-string literals inside a function body: each `b"..."` is replaced by a call of a generated constant function whose
    `ensures` lists the literal's bytes (computed from the literal text).  -> (Raw item defining the functions, body_resub entries)"""
    src = X.Source(root, file)
    d = src.find_fn(scope, name)
    body = d['body']
    defs, subs = [], []
    for k, m in enumerate(re.finditer(r'b"((?:[^"\\]|\\.)*)"', body)):
        lit = m.group(1)
        bs = bytes(lit, 'latin-1').decode('unicode_escape').encode('latin-1')
        fname = '%s_lit%d' % (prefix, k)
        defs.append("#[verifier::external_body] pub fn %s() -> (r: &'static [u8]) ensures r@ == seq![%s] { b\"%s\" }" % (fname, ', '.join('%du8' % b for b in bs), lit))
        subs.append((re.escape(m.group(0)), fname + '()', 'R11 byte-string literal %s -> constant function with its bytes %r as ensures' % (m.group(0), list(bs))))
    return Raw('\n'.join(defs)), subs


# ----------------------------------------------------------------------------------------------------------------------
# collections the overlay code iterates BY VALUE / mutates through get_mut: std HashMap<String, V>, vec::IntoIter, hash_map::IntoIter.
# vstd has no specification for these; the models below state the std meaning (a map keyed by the string's characters; an owning iterator
# yields every element exactly once - a Vec in index order, a HashMap in SOME order).  Used with rule R28 (vx/ovlrules.py).
COLL = r'''
#[verifier::external_body] #[verifier::accept_recursive_types(K)] #[verifier::accept_recursive_types(V)]
pub struct HashMap<K, V> { _p: PhantomData<(K, V)> }
impl<V> HashMap<String, V> {
    pub uninterp spec fn view(&self) -> Map<Seq<char>, V>;
    #[verifier::external_body] pub fn new() -> (r: Self) ensures r@ == Map::<Seq<char>, V>::empty() { unimplemented!() }
    #[verifier::external_body] pub fn insert(&mut self, k: String, v: V) -> (r: Option<V>) ensures final(self)@ == old(self)@.insert(k@, v) { unimplemented!() }
    #[verifier::external_body] pub fn get_mut(&mut self, k: &String) -> (r: Option<&mut V>)
        ensures r is Some <==> old(self)@.contains_key(k@),
            r is Some ==> *(r->Some_0) == old(self)@[k@] && final(self)@ == old(self)@.insert(k@, *final(r->Some_0)),
            r is None ==> final(self)@ == old(self)@,
    { unimplemented!() }
}
#[verifier::external_body] #[verifier::accept_recursive_types(T)] pub struct VecIntoIter<T> { _p: PhantomData<T> }
impl<T> VecIntoIter<T> {
    pub uninterp spec fn rem(&self) -> Seq<T>;
    #[verifier::external_body] pub fn next(&mut self) -> (r: Option<T>)
        ensures old(self).rem().len() == 0 ==> r is None && final(self).rem() == old(self).rem(),
            old(self).rem().len() > 0 ==> r == Some(old(self).rem()[0]) && final(self).rem() == old(self).rem().skip(1),
    { unimplemented!() }
}
#[verifier::external_body] pub fn vec_into_iter<T>(v: Vec<T>) -> (r: VecIntoIter<T>) ensures r.rem() == v@ { unimplemented!() }
#[verifier::external_body] #[verifier::accept_recursive_types(V)] pub struct MapIntoIter<V> { _p: PhantomData<V> }
impl<V> MapIntoIter<V> {
    pub uninterp spec fn rem(&self) -> Seq<(String, V)>;
    #[verifier::external_body] pub fn next(&mut self) -> (r: Option<(String, V)>)
        ensures old(self).rem().len() == 0 ==> r is None && final(self).rem() == old(self).rem(),
            old(self).rem().len() > 0 ==> r == Some(old(self).rem()[0]) && final(self).rem() == old(self).rem().skip(1),
    { unimplemented!() }
}
// `s` lists the map: every entry once, nothing else, in some order
pub open spec fn map_listing<V>(m: Map<Seq<char>, V>, s: Seq<(String, V)>) -> bool {
    &&& forall|i: int| 0 <= i < s.len() ==> m.contains_key(#[trigger] s[i].0@) && m[s[i].0@] == s[i].1
    &&& forall|i: int, j: int| 0 <= i < s.len() && 0 <= j < s.len() && i != j ==> (#[trigger] s[i]).0@ != (#[trigger] s[j]).0@
    &&& forall|k: Seq<char>| m.contains_key(k) ==> exists|i: int| 0 <= i < s.len() && (#[trigger] s[i]).0@ == k
}
#[verifier::external_body] pub fn map_into_iter<V>(m: HashMap<String, V>) -> (r: MapIntoIter<V>) ensures map_listing(m@, r.rem()) { unimplemented!() }
'''

# ---- RealInode: struct copied from /repo; the predicates that say what a RealInode's flags mean
REAL_SPEC = r'''
impl RealInode {
    // C10: a RealInode that claims to live in the upper layer really points at the upper layer object
    pub open spec fn wf(&self) -> bool { self.in_upper_layer ==> (*self.layer).is_upper() }
    // the attributes the merge rules look at: the cached stat, else what getattr of the layer object says (RealInode::stat64)
    pub open spec fn sp_stat(&self, ctx: Context) -> Result<stat64> {
        match self.stat { Some(v) => Ok(v), None => if self.inode == 0 { Err(arbitrary()) } else { match (*self.layer).s_getattr(ctx, self.inode, None) { Ok(p) => Ok(p.0), Err(e) => Err(e) } } }
    }
}
// `c` is the child `name` of directory `p` in p's layer: same layer, flags as the layer's predicates say (whiteout only for non-directories,
// opaque only for directories), attributes as looked up
pub open spec fn sp_child(p: RealInode, ctx: Context, name: Seq<char>, c: RealInode) -> bool {
    let l = (*p.layer).s_lookup(ctx, p.inode, str_bytes(name));
    &&& l is Ok && l->Ok_0.inode != 0
    &&& c.layer == p.layer && c.in_upper_layer == p.in_upper_layer && c.inode == l->Ok_0.inode && c.stat == Some(l->Ok_0.attr)
    &&& (sp_is_dir(l->Ok_0.attr) ==> !c.whiteout && (c.opaque <==> opaque_marked(&*p.layer, ctx, c.inode)))
    &&& (!sp_is_dir(l->Ok_0.attr) ==> !c.opaque && (c.whiteout <==> whiteout_marked(&*p.layer, ctx, c.inode)))
}
pub open spec fn sp_present(l: Result<Entry>) -> bool { l is Ok && l->Ok_0.inode != 0 }
// the child descriptor spelled out (sp_child determines every field), and the listing of a layer's directory: the listed names that exist
pub open spec fn sp_child_val(p: RealInode, ctx: Context, name: Seq<char>) -> RealInode {
    let e = (*p.layer).s_lookup(ctx, p.inode, str_bytes(name))->Ok_0;
    RealInode { layer: p.layer, in_upper_layer: p.in_upper_layer, inode: e.inode, stat: Some(e.attr),
        whiteout: !sp_is_dir(e.attr) && whiteout_marked(&*p.layer, ctx, e.inode), opaque: sp_is_dir(e.attr) && opaque_marked(&*p.layer, ctx, e.inode) }
}
pub open spec fn sp_listing(p: RealInode, ctx: Context) -> Map<Seq<char>, RealInode> {
    Map::new(s_dirnames(&*p.layer, ctx, p.inode).filter(|n: Seq<char>| sp_present((*p.layer).s_lookup(ctx, p.inode, str_bytes(n)))), |n: Seq<char>| sp_child_val(p, ctx, n))
}
// the names a layer lists in a directory (the paging loop over Layer::readdir is not extracted: closure capturing &mut passed as &mut dyn FnMut)
pub uninterp spec fn s_dirnames(l: &LayerObj, ctx: Context, inode: u64) -> Set<Seq<char>>;
#[verifier::external_body]
pub fn vx_list_names(l: &Arc<LayerObj>, ctx: &Context, inode: u64, handle: u64) -> (r: Result<Vec<String>>)
    ensures r is Ok ==> (forall|n: Seq<char>| s_dirnames(&**l, *ctx, inode).contains(n) <==> exists|i: int| 0 <= i < r->Ok_0@.len() && (#[trigger] r->Ok_0@[i])@ == n)
{ unimplemented!() }
'''


def has_lower_flag(root):
    """does `struct OverlayInode` of this tree have the `lower_exists: AtomicBool` field?  Decided on the struct's own text with comments and
    strings blanked (a comment mentioning the field, another visibility or spacing do not change the answer); the units choose the REC model by it."""
    src = X.Source(root, OVL)
    text, _line, _attrs = src.find_item(r'pub\(crate\) struct OverlayInode\b')
    return re.search(r'\blower_exists\s*:\s*AtomicBool\b', X.mask(text)) is not None
