"""Unit `ptlookup` (C08, the lookup side): PassthroughFs::do_lookup, allocate_inode, UniqueInodeGenerator::get_unique_inode, the
InodeMap helpers, and the two callbacks of PassthroughFs::readdir / readdirplus (R17 closure lifting).

State model.  Everything a lookup can change lives behind `&self` (an RwLock<InodeStore>, atomics, a Mutex<BTreeMap>), so the effects
of ONE request are recorded in an erased ghost token `Lg` that rule R23 threads from the entry points down to the effectful primitives:

  store / base : the InodeStore (the three maps of unit `inodes`) as this request sees it, and as it was when this request last
                 acquired the store's lock.  Acquiring the lock (RwLock::read / write) is the interference point: other threads may have
                 replaced the store by ANY store satisfying the invariant `inv` (so the re-probe under the write lock is not dead code).
  rc           : log of this request's own writes to reference counts (AtomicU64::compare_exchange that succeeded, fetch_add).
                 Loads are unconstrained (other threads), exactly as in unit `inodes`.
  ins          : log of the InodeData this request inserted (InodeStore::insert; its map contract is proved in unit `inodes`).
  fg           : log of this request's forget_one(inode, count) calls (forget_one's own contract is proved in unit `inodes`).
  c64/c8/devmap: the allocation counters and the (dev, mnt) -> prefix table of UniqueInodeGenerator, sequential.

Capabilities (uninterpreted predicates, granted by each function's `requires` exactly as the property allows) guard every write:
[cas] [add] [insert] [open].  "Exactly one reference" is decided on the logs: `granted(old, new, ino)`.
"""
from vx.api import Unit, Fn, Copy, Raw, Group, ByteConst, Lifted
from vx.units import inodes as IN

STORE = 'src/passthrough/inode_store.rs'
PT = 'src/passthrough/mod.rs'
PTS = 'src/passthrough/sync_io.rs'
FH = 'src/passthrough/file_handle.rs'
UTIL = 'src/passthrough/util.rs'
CFG = 'src/passthrough/config.rs'
STATX = 'src/passthrough/statx.rs'
FSMOD = 'src/api/filesystem/mod.rs'
VMOD = 'src/api/vfs/mod.rs'
ABI = 'src/abi/fuse_abi_linux.rs'
IMPL = 'impl<S: BitmapSlice + Send + Sync> PassthroughFs<S>'
FSIMPL = 'impl<S: BitmapSlice + Send + Sync> FileSystem for PassthroughFs<S>'

TOK = dict(param='Tracked(lg): Tracked<&mut Lg>', arg='Tracked(lg)')


def _slice(text, start, end=None):
    """part of another unit's model text, located by marker lines (imported, not copied): ExtractError-like failure if a marker is lost"""
    a = text.index(start)
    b = text.index(end, a) if end else len(text)
    return text[a:b]


# the BTreeMap model and the representation predicate `wf` of unit `inodes`
BTREE = _slice(IN.PRE, '// std::collections::BTreeMap', '// std::sync::atomic::AtomicU64')

PRE = r'''
use std::ops::{Deref, DerefMut};
pub type Inode = u64;
pub type RawFd = i32;
pub type MountId = u64;
pub trait BitmapSlice {}
impl BitmapSlice for () {}        // as vm-memory: the unit type is the no-op bitmap
''' + BTREE + r'''
impl<V> BTreeMap<Arc<FileHandle>, V> {
    // BTreeMap::get through Borrow<FileHandle> (the key type is Arc<FileHandle>, the probe a &FileHandle): same lookup, key hkey(*k)
    #[verifier::external_body] pub fn get_borrowed(&self, k: &FileHandle) -> (r: Option<&V>)
        ensures match r { Some(v) => self@.contains_key(hkey(*k)) && *v == self@[hkey(*k)], None => !self@.contains_key(hkey(*k)) } { unimplemented!() }
}
// ---- host objects (opaque)
#[verifier::external_body] pub struct FileHandle { _p: u8 }
impl Clone for FileHandle { #[verifier::external_body] fn clone(&self) -> (r: Self) ensures r == *self { unimplemented!() } }
#[verifier::external_body] pub struct MountFd { _p: u8 }
#[verifier::external_body] pub struct MountFds { _p: u8 }
#[verifier::external_body] pub struct HandleMap { _p: u8 }
#[verifier::external_body] pub struct File { _p: u8 }
#[verifier::external_body] pub struct InodeFile<'a> { _p: PhantomData<&'a u8> }
pub trait AsRawFd { spec fn sfd(&self) -> i32; }
impl AsRawFd for File { uninterp spec fn sfd(&self) -> i32; }
impl<'a> AsRawFd for InodeFile<'a> { uninterp spec fn sfd(&self) -> i32; }
// the Arc under which a file handle is keyed in `by_handle` (Arc<T> is T with shared ownership: same value)
pub uninterp spec fn hkey(h: FileHandle) -> Arc<FileHandle>;
pub broadcast axiom fn axiom_hkey(h: FileHandle) ensures *(#[trigger] hkey(h)) == h;
pub broadcast axiom fn axiom_hkey_arc(a: Arc<FileHandle>) ensures #[trigger] hkey(*a) == a;

// ---- the ghost token: this request's view of the shared state and the log of its own effects (see the module text)
pub enum RcOp { Cas { cur: u64, new: u64 }, Add { n: u64 } }
pub ghost struct RcEv { pub atom: AtomicU64, pub op: RcOp }
pub tracked struct Lg {
    pub ghost store: InodeStore, pub ghost base: InodeStore,
    pub ghost rc: Seq<RcEv>, pub ghost ins: Seq<Arc<InodeData>>, pub ghost fg: Seq<(Inode, u64)>, pub ghost grants: Seq<Inode>,
    pub ghost c64: Map<Counter64, u64>, pub ghost c8: Map<Counter8, u8>, pub ghost devmap: Map<DevMntIDPair, u8>,
    // configuration constants the invariant depends on (tied to `self` by `Lg::of`)
    pub ghost use_host_ino: bool, pub ghost k_next: Counter64, pub ghost k_virt: Counter64, pub ghost k_uid: Counter8,
}
impl Lg {
    // what this request itself has done: nothing
    pub open spec fn same_logs(self, o: Lg) -> bool { self.rc == o.rc && self.ins == o.ins && self.fg == o.fg && self.grants == o.grants }
    pub open spec fn same_alloc(self, o: Lg) -> bool {
        self.c64 == o.c64 && self.c8 == o.c8 && self.devmap == o.devmap && self.same_cfg(o)
    }
    pub open spec fn same_cfg(self, o: Lg) -> bool {
        self.use_host_ino == o.use_host_ino && self.k_next == o.k_next && self.k_virt == o.k_virt && self.k_uid == o.k_uid
    }
    // acquiring the store's lock: other threads may have changed the store (within the invariant); own effects and counters as before
    pub open spec fn lock_step(self, o: Lg) -> bool { self.same_logs(o) && self.same_alloc(o) && self.base == self.store && (inv(o) ==> inv(self)) }
}

// ---- std::sync::atomic::AtomicU64 used as a reference count: loads unconstrained (other threads), writes capability-guarded + logged
#[verifier::external_body] pub struct AtomicU64 { _p: u8 }
pub uninterp spec fn cas_allowed(base: InodeStore, a: &AtomicU64, cur: u64, new: u64) -> bool;
pub uninterp spec fn add_allowed(base: InodeStore, a: &AtomicU64, n: u64) -> bool;
impl AtomicU64 {
    pub uninterp spec fn init(&self) -> u64;              // the value it was created with
    #[verifier::external_body] pub fn new(v: u64) -> (r: AtomicU64) ensures r.init() == v { unimplemented!() }
    #[verifier::external_body] pub fn load(&self, o: Ordering) -> (r: u64) { unimplemented!() }
    #[verifier::external_body] pub fn compare_exchange(&self, cur: u64, new: u64, s: Ordering, f: Ordering, Tracked(lg): Tracked<&mut Lg>) -> (r: Result<u64, u64>)
        requires cas_allowed(old(lg).base, self, cur, new), // [cas]
        ensures r is Ok ==> final(lg).rc == old(lg).rc.push(RcEv { atom: *self, op: RcOp::Cas { cur, new } }),
                r is Err ==> final(lg).rc == old(lg).rc,
                final(lg).store == old(lg).store, final(lg).base == old(lg).base, final(lg).ins == old(lg).ins, final(lg).fg == old(lg).fg, final(lg).grants == old(lg).grants, final(lg).same_alloc(*old(lg)),
    { unimplemented!() }
    #[verifier::external_body] pub fn fetch_add(&self, n: u64, o: Ordering, Tracked(lg): Tracked<&mut Lg>) -> (r: u64)
        requires add_allowed(old(lg).base, self, n), // [add]
        ensures final(lg).rc == old(lg).rc.push(RcEv { atom: *self, op: RcOp::Add { n } }),
                final(lg).store == old(lg).store, final(lg).base == old(lg).base, final(lg).ins == old(lg).ins, final(lg).fg == old(lg).fg, final(lg).grants == old(lg).grants, final(lg).same_alloc(*old(lg)),
    { unimplemented!() }
}
// ---- AtomicU64 / AtomicU8 used as allocation counters (next_inode, next_virtual_inode, next_unique_id): sequential value in the token
#[verifier::external_body] pub struct Counter64 { _p: u8 }
#[verifier::external_body] pub struct Counter8 { _p: u8 }
impl Counter64 {
    #[verifier::external_body] pub fn load(&self, o: Ordering, Tracked(lg): Tracked<&mut Lg>) -> (r: u64)
        requires old(lg).c64.contains_key(*self) ensures r == old(lg).c64[*self], *final(lg) == *old(lg) { unimplemented!() }
    #[verifier::external_body] pub fn fetch_add(&self, n: u64, o: Ordering, Tracked(lg): Tracked<&mut Lg>) -> (r: u64)
        requires old(lg).c64.contains_key(*self)
        ensures r == old(lg).c64[*self], final(lg).c64 == old(lg).c64.insert(*self, if r as int + n as int > u64::MAX { (r as int + n as int - 0x1_0000_0000_0000_0000) as u64 } else { (r + n) as u64 }),
                final(lg).c8 == old(lg).c8, final(lg).devmap == old(lg).devmap, final(lg).same_cfg(*old(lg)),
                final(lg).store == old(lg).store, final(lg).base == old(lg).base, final(lg).same_logs(*old(lg)),
    { unimplemented!() }
}
impl Counter8 {
    #[verifier::external_body] pub fn load(&self, o: Ordering, Tracked(lg): Tracked<&mut Lg>) -> (r: u8)
        requires old(lg).c8.contains_key(*self) ensures r == old(lg).c8[*self], *final(lg) == *old(lg) { unimplemented!() }
    #[verifier::external_body] pub fn fetch_add(&self, n: u8, o: Ordering, Tracked(lg): Tracked<&mut Lg>) -> (r: u8)
        requires old(lg).c8.contains_key(*self)
        ensures r == old(lg).c8[*self], final(lg).c8 == old(lg).c8.insert(*self, if r as int + n as int > u8::MAX { (r as int + n as int - 256) as u8 } else { (r + n) as u8 }),
                final(lg).c64 == old(lg).c64, final(lg).devmap == old(lg).devmap, final(lg).same_cfg(*old(lg)),
                final(lg).store == old(lg).store, final(lg).base == old(lg).base, final(lg).same_logs(*old(lg)),
    { unimplemented!() }
}
// ---- std::sync::RwLock<InodeStore>: the guard holds the store; lock acquisition = interference point (Lg::lock_step)
#[verifier::external_body] #[verifier::reject_recursive_types(T)] pub struct RwLock<T> { _p: PhantomData<T> }
pub struct RwLockReadGuard<'a, T> { pub st: T, pub ph: PhantomData<&'a T> }
pub struct RwLockWriteGuard<'a, T> { pub st: T, pub ph: PhantomData<&'a T> }
impl<'a, T> Deref for RwLockReadGuard<'a, T> { type Target = T; fn deref(&self) -> (r: &T) ensures *r == self.st { &self.st } }
impl<'a, T> Deref for RwLockWriteGuard<'a, T> { type Target = T; fn deref(&self) -> (r: &T) ensures *r == self.st { &self.st } }
impl<'a, T> DerefMut for RwLockWriteGuard<'a, T> { fn deref_mut(&mut self) -> (r: &mut T) ensures *r == old(self).st, *final(r) == final(self).st { &mut self.st } }
impl RwLock<InodeStore> {
    // "Do not expect poisoned lock here" (comment in the code): assumed
    #[verifier::external_body] pub fn read(&self, Tracked(lg): Tracked<&mut Lg>) -> (r: core::result::Result<RwLockReadGuard<'_, InodeStore>, PoisonError>)
        ensures r is Ok, r->Ok_0.st == final(lg).store, final(lg).lock_step(*old(lg)) { unimplemented!() }
    #[verifier::external_body] pub fn write(&self, Tracked(lg): Tracked<&mut Lg>) -> (r: core::result::Result<RwLockWriteGuard<'_, InodeStore>, PoisonError>)
        ensures r is Ok, r->Ok_0.st == final(lg).store, final(lg).lock_step(*old(lg)) { unimplemented!() }
}
// ---- InodeStore::insert: map contract proved on the real text in unit `inodes` ([C08.store.insert]); here capability-guarded + logged.
// `*old(self) == old(lg).store`: the object mutated is the file system's store, held under its write lock.
pub uninterp spec fn insert_allowed(base: InodeStore, d: Arc<InodeData>) -> bool;
impl InodeStore {
    #[verifier::external_body] pub fn insert(&mut self, data: Arc<InodeData>, Tracked(lg): Tracked<&mut Lg>)
        requires *old(self) == old(lg).store, // [seq]
                 insert_allowed(old(lg).base, data), // [insert]
        ensures INSERT_ENSURES
                final(lg).store == *final(self), final(lg).base == old(lg).base, final(lg).ins == old(lg).ins.push(data),
                final(lg).rc == old(lg).rc, final(lg).fg == old(lg).fg, final(lg).grants == old(lg).grants, final(lg).same_alloc(*old(lg)),
    { unimplemented!() }
}
// ---- system-call wrappers: uninterpreted results, keyed by the descriptor / name they are applied to
pub uninterp spec fn fd_of(inode: Inode) -> i32;                       // the host object registered under an inode number (stable while the client holds a reference, as it does on `parent`)
pub uninterp spec fn host_open(dirfd: i32, name: Seq<u8>) -> i32;      // openat(dirfd, name, O_PATH | O_NOFOLLOW): the descriptor's object
pub uninterp spec fn host_statx(fd: i32) -> StatExt;
pub uninterp spec fn host_fh(fd: i32) -> Option<FileHandle>;           // name_to_handle_at: None if the file system has no handles
pub uninterp spec fn open_allowed(dirfd: i32, name: Seq<u8>) -> bool;
impl InodeData {
    #[verifier::external_body] pub fn get_file(&self) -> (r: io::Result<InodeFile<'_>>) ensures r is Ok ==> r->Ok_0.sfd() == fd_of(self.inode) { unimplemented!() }
}
#[verifier::external_body] pub fn statx(f: &impl AsRawFd, path: Option<&CStr>) -> (r: io::Result<StatExt>)
    ensures r is Ok && path is None ==> r->Ok_0 == host_statx(f.sfd()) { unimplemented!() }
impl FileHandle {
    #[verifier::external_body] pub fn from_fd(fd: &impl AsRawFd) -> (r: io::Result<Option<FileHandle>>) ensures r is Ok ==> r->Ok_0 == host_fh(fd.sfd()) { unimplemented!() }
}
#[verifier::external_body] pub struct FromBytesWithNulError { _p: u8 }
impl core::fmt::Debug for FromBytesWithNulError { #[verifier::external_body] fn fmt(&self, f: &mut core::fmt::Formatter<'_>) -> core::fmt::Result { unimplemented!() } }
impl CStr {
    // Ok iff the only NUL is the last byte; then the string is the bytes before it (std docs)
    #[verifier::external_body] pub fn from_bytes_with_nul(b: &[u8]) -> (r: core::result::Result<&CStr, FromBytesWithNulError>)
        ensures (b@.len() > 0 && b@.last() == 0u8 && forall|i: int| 0 <= i < b@.len() - 1 ==> b@[i] != 0u8) ==> (r is Ok && r->Ok_0@ == b@.drop_last()) { unimplemented!() }
}
pub assume_specification<T, F> [std::option::Option::<T>::or_else] (o: std::option::Option<T>, f: F) -> (out: std::option::Option<T>)
    where F: std::ops::FnOnce() -> std::option::Option<T> + std::marker::Destruct, T: std::marker::Destruct,
    requires o is None ==> f.requires(()),
    ensures match o { Some(v) => out == Some(v), None => f.ensures((), out) };
pub assume_specification<T, P> [std::option::Option::<T>::filter] (o: std::option::Option<T>, p: P) -> (out: std::option::Option<T>)
    where P: std::ops::FnOnce(&T,) -> bool + std::marker::Destruct, T: std::marker::Destruct,
    requires o is Some ==> p.requires((&o->Some_0,)),
    ensures match o { Some(v) => (p.ensures((&v,), true) && out == Some(v)) || (p.ensures((&v,), false) && out is None), None => out is None };
#[verifier::external_body] pub fn fmt_opaque() -> String { unimplemented!() }
// do_readdir hands the callback a name produced by CStr::to_bytes(): the NUL that follows it in the getdents64 buffer is what the
// `unsafe { CStr::from_bytes_with_nul_unchecked(from_raw_parts(&name[0], len + 1)) }` expression relies on (its safety comment); the
// expression is that name as a &CStr
#[verifier::external_body] pub fn cstr_of_dirent_name<'a>(name: &'a [u8]) -> (r: &'a CStr) ensures r@ == name@ { unimplemented!() }
pub uninterp spec fn forget_allowed(g: Lg, inode: Inode, count: u64) -> bool;
// the forgets that can have an effect: the root (inode 1) is never forgotten
pub open spec fn nonroot(s: Seq<(Inode, u64)>) -> Seq<(Inode, u64)> decreases s.len() {
    if s.len() == 0 { Seq::<(Inode, u64)>::empty() } else if s.last().0 == 1 { nonroot(s.drop_last()) } else { nonroot(s.drop_last()).push(s.last()) }
}
pub proof fn lemma_nonroot_push(s: Seq<(Inode, u64)>, x: (Inode, u64))
    ensures nonroot(s.push(x)) =~= (if x.0 == 1 { nonroot(s) } else { nonroot(s).push(x) })
{
    assert(s.push(x).drop_last() =~= s); assert(s.push(x).last() == x);
}
// ---- std::collections::btree_map::Entry on the generator's table `Mutex<BTreeMap<DevMntIDPair, u8>>`; the table's contents are
//      `lg.devmap` (sequential: the mutex is held for the whole probe-then-insert)
pub mod btree_map {
    use super::*;
    #[verifier::external_body] #[verifier::reject_recursive_types(K)] #[verifier::reject_recursive_types(V)] pub struct OccupiedEntry<K, V> { _p: PhantomData<(K, V)> }
    #[verifier::external_body] #[verifier::reject_recursive_types(K)] #[verifier::reject_recursive_types(V)] pub struct VacantEntry<K, V> { _p: PhantomData<(K, V)> }
    #[verifier::reject_recursive_types(K)] #[verifier::reject_recursive_types(V)] pub enum Entry<K, V> { Occupied(OccupiedEntry<K, V>), Vacant(VacantEntry<K, V>) }
    impl<K, V> OccupiedEntry<K, V> {
        pub uninterp spec fn val(&self) -> V;
        #[verifier::external_body] pub fn get(&self) -> (r: &V) ensures *r == self.val() { unimplemented!() }
    }
    impl<K, V> VacantEntry<K, V> { pub uninterp spec fn key(&self) -> K; }
    impl VacantEntry<DevMntIDPair, u8> {
        #[verifier::external_body] pub fn insert(self, v: u8, Tracked(lg): Tracked<&mut Lg>)
            ensures final(lg).devmap == old(lg).devmap.insert(self.key(), v), final(lg).c64 == old(lg).c64, final(lg).c8 == old(lg).c8, final(lg).same_cfg(*old(lg)),
                    final(lg).store == old(lg).store, final(lg).base == old(lg).base, final(lg).same_logs(*old(lg)),
        { unimplemented!() }
    }
}
impl MutexGuard<BTreeMap<DevMntIDPair, u8>> {
    #[verifier::external_body] pub fn entry(&mut self, k: DevMntIDPair, Tracked(lg): Tracked<&mut Lg>) -> (r: btree_map::Entry<DevMntIDPair, u8>)
        ensures *final(lg) == *old(lg),
                match r { btree_map::Entry::Occupied(o) => old(lg).devmap.contains_key(k) && o.val() == old(lg).devmap[k],
                          btree_map::Entry::Vacant(v) => !old(lg).devmap.contains_key(k) && v.key() == k }
    { unimplemented!() }
}
'''

# ---------------------------------------------------------------------------------------------------------------------------------
# Specification, written from the property statement
SPEC = r'''
impl InodeStore {
    pub open spec fn live(&self, i: Inode) -> bool { self.data@.contains_key(i) }
    // lookups through the two alternate keys (as InodeStore::get_by_handle / get_by_id: the record may outlive the inode, see forget)
    pub open spec fn by_h(&self, h: FileHandle) -> Option<Arc<InodeData>> {
        if self.by_handle@.contains_key(hkey(h)) && self.live(self.by_handle@[hkey(h)]) { Some(self.data@[self.by_handle@[hkey(h)]]) } else { None }
    }
    pub open spec fn by_i(&self, id: InodeId) -> Option<Arc<InodeData>> {
        if self.by_id@.contains_key(id) && self.live(self.by_id@[id]) { Some(self.data@[self.by_id@[id]]) } else { None }
    }
    // "a host file has one inode number": the live inode that denotes the host file (id, handle), if any.  A file with a handle is
    // identified by the handle; one without by its (ino, dev, mnt) - but never by an entry that carries a (necessarily different) handle.
    pub open spec fn alt(&self, id: InodeId, h: Option<FileHandle>) -> Option<Arc<InodeData>> {
        let a = match h { Some(hh) => self.by_h(hh), None => None };
        if a is Some { a } else {
            match self.by_i(id) { Some(d) => if h is None || !(d.handle is Handle) { Some(d) } else { None }, None => None }
        }
    }
    // "a file looked up again after being forgotten gets the same number": the number remembered for (id, handle)
    pub open spec fn remembered(&self, id: InodeId, h: Option<FileHandle>) -> Option<Inode> {
        match h {
            Some(hh) => if self.by_handle@.contains_key(hkey(hh)) { Some(self.by_handle@[hkey(hh)]) } else { None },
            None => if self.by_id@.contains_key(id) { Some(self.by_id@[id]) } else { None },
        }
    }
    // representation invariant: a live inode sits under its own number and is reachable by its handle if it has one, else by its id
    // (weaker than `wf` of unit inodes: an id record may be taken over by a new file that re-uses the host inode number, see get_alt_locked)
    pub open spec fn wf_h(&self) -> bool {
        forall|i: Inode| #[trigger] self.data@.contains_key(i) ==> self.data@[i].inode == i
            && (self.data@[i].handle is Handle ==> self.by_handle@.contains_key(self.data@[i].handle->Handle_0.handle) && self.by_handle@[self.data@[i].handle->Handle_0.handle] == i)
            && (!(self.data@[i].handle is Handle) ==> self.by_id@.contains_key(self.data@[i].id) && self.by_id@[self.data@[i].id] == i)
    }
}
pub open spec fn opt_h(h: Option<&FileHandle>) -> Option<FileHandle> { match h { Some(x) => Some(*x), None => None } }
pub open spec fn spec_id(st: StatExt) -> InodeId { InodeId { ino: st.st.st_ino, dev: st.st.st_dev, mnt: st.mnt_id } }
pub open spec fn sat_inc(c: u64) -> u64 { if c == u64::MAX { c } else { (c + 1) as u64 } }

// ---- inode numbers.  enc: |flag 1 bit|prefix 8 bits|47 bits|
pub open spec fn enc(prefix: u8, low: u64) -> u64 { ((prefix as u64) << 47) | low }
pub open spec fn pair_of(id: InodeId) -> DevMntIDPair { DevMntIDPair(id.dev, id.mnt) }
pub open spec fn is_virtual(n: u64) -> bool { n & (1u64 << 55) != 0 }
pub open spec fn low47(n: u64) -> u64 { n & 0x7fff_ffff_ffffu64 }
pub proof fn lemma_enc(p: u8, l: u64, q: u8, m: u64)
    requires l <= 0x7fff_ffff_ffffu64 || (l & (1u64 << 55) != 0 && l & !((1u64 << 55) | 0x7fff_ffff_ffffu64) == 0),
             m <= 0x7fff_ffff_ffffu64 || (m & (1u64 << 55) != 0 && m & !((1u64 << 55) | 0x7fff_ffff_ffffu64) == 0),
    ensures enc(p, l) == enc(q, m) ==> p == q && l == m,                       // [C08.alloc.injective] distinct (prefix, low part) give distinct numbers
            l <= 0x7fff_ffff_ffffu64 ==> !is_virtual(enc(p, l)) && low47(enc(p, l)) == l,
            l > 0x7fff_ffff_ffffu64 ==> is_virtual(enc(p, l)) && low47(enc(p, l)) == low47(l), // [C08.alloc.virtual_disjoint] virtual numbers never collide with encoded host numbers
            p >= 1 ==> enc(p, l) >= 0x8000_0000_0000u64,                      // never the root's number
            enc(p, l) <= 0xff_ffff_ffff_ffffu64,
{
    let a = p as u64; let b = q as u64;
    assert(a <= 255 && b <= 255);
    assert((a <= 255 && b <= 255 && (l <= 0x7fff_ffff_ffffu64 || (l & (1u64 << 55) != 0 && l & !((1u64 << 55) | 0x7fff_ffff_ffffu64) == 0))
            && (m <= 0x7fff_ffff_ffffu64 || (m & (1u64 << 55) != 0 && m & !((1u64 << 55) | 0x7fff_ffff_ffffu64) == 0))
            && ((a << 47) | l) == ((b << 47) | m)) ==> a == b && l == m) by (bit_vector);
    assert(a <= 255 && l <= 0x7fff_ffff_ffffu64 ==> ((a << 47) | l) & (1u64 << 55) == 0 && ((a << 47) | l) & 0x7fff_ffff_ffffu64 == l) by (bit_vector);
    assert(a <= 255 && (l & (1u64 << 55) != 0 && l & !((1u64 << 55) | 0x7fff_ffff_ffffu64) == 0) ==> ((a << 47) | l) & (1u64 << 55) != 0 && ((a << 47) | l) & 0x7fff_ffff_ffffu64 == l & 0x7fff_ffff_ffffu64) by (bit_vector);
    assert(a >= 1 && a <= 255 ==> ((a << 47) | l) >= 0x8000_0000_0000u64) by (bit_vector);
    assert(a <= 255 && (l <= 0x7fff_ffff_ffffu64 || (l & (1u64 << 55) != 0 && l & !((1u64 << 55) | 0x7fff_ffff_ffffu64) == 0)) ==> ((a << 47) | l) <= 0xff_ffff_ffff_ffffu64) by (bit_vector);
    assert(l > 0x7fff_ffff_ffffu64 && l & !((1u64 << 55) | 0x7fff_ffff_ffffu64) == 0 ==> l & (1u64 << 55) != 0) by (bit_vector);
}
pub open spec fn vnum(v: u64) -> u64 { v | (1u64 << 55) }
pub proof fn lemma_vnum(v: u64)
    requires v <= 0x7fff_ffff_ffffu64
    ensures vnum(v) & (1u64 << 55) != 0, vnum(v) & !((1u64 << 55) | 0x7fff_ffff_ffffu64) == 0, low47(vnum(v)) == v, vnum(v) > 0x7fff_ffff_ffffu64
{
    assert(v <= 0x7fff_ffff_ffffu64 ==> (v | (1u64 << 55)) & (1u64 << 55) != 0 && (v | (1u64 << 55)) & !((1u64 << 55) | 0x7fff_ffff_ffffu64) == 0
           && (v | (1u64 << 55)) & 0x7fff_ffff_ffffu64 == v && (v | (1u64 << 55)) > 0x7fff_ffff_ffffu64) by (bit_vector);
}

// ---- the invariant of the shared state (established by import(): root = 1 with next_inode = 2; kept by do_lookup [C08.lookup.inv];
//      forget only removes).  Other threads are assumed to keep it (Lg::lock_step).
pub open spec fn gen_wf(lg: Lg) -> bool {
    lg.k_next != lg.k_virt /* two distinct atomics */ && lg.c8.contains_key(lg.k_uid) && lg.c64.contains_key(lg.k_virt) && lg.c64.contains_key(lg.k_next) && lg.c8[lg.k_uid] >= 1
    && (forall|k: DevMntIDPair| #[trigger] lg.devmap.contains_key(k) ==> 1 <= lg.devmap[k] < lg.c8[lg.k_uid])
    && (forall|k: DevMntIDPair, l: DevMntIDPair| #![trigger lg.devmap[k], lg.devmap[l]] lg.devmap.contains_key(k) && lg.devmap.contains_key(l) && lg.devmap[k] == lg.devmap[l] ==> k == l) // [C08.alloc.prefix_injective]
}
// a number the generator may have produced for a virtual inode so far
pub open spec fn vshape(lg: Lg, n: u64) -> bool { is_virtual(n) && low47(n) < lg.c64[lg.k_virt] }
pub open spec fn hshape(lg: Lg, n: u64, id: InodeId) -> bool { id.ino <= 0x7fff_ffff_ffffu64 && lg.devmap.contains_key(pair_of(id)) && n == enc(lg.devmap[pair_of(id)], id.ino) }
// the shape of the number of an inode with identity `id` when host inode numbers are used
pub open spec fn shape(lg: Lg, n: u64, id: InodeId) -> bool { if id.ino <= 0x7fff_ffff_ffffu64 { hshape(lg, n, id) } else { vshape(lg, n) } }
pub open spec fn inv(lg: Lg) -> bool {
    lg.store.wf_h() && gen_wf(lg)
    // numbers allocated from next_inode: everything on record (live or remembered) is below the counter
    && (!lg.use_host_ino ==> (forall|i: Inode| #[trigger] lg.store.data@.contains_key(i) ==> i < lg.c64[lg.k_next])
         && (forall|k: InodeId| #[trigger] lg.store.by_id@.contains_key(k) ==> lg.store.by_id@[k] < lg.c64[lg.k_next])
         && (forall|k: Arc<FileHandle>| #[trigger] lg.store.by_handle@.contains_key(k) ==> lg.store.by_handle@[k] < lg.c64[lg.k_next]))
    // numbers derived from the host's: a live inode other than the root carries the number of its identity and, for a host-encoded
    // number, is on record under its id; a remembered number of a forgotten inode is a virtual one
    && (lg.use_host_ino ==> (forall|i: Inode| #[trigger] lg.store.data@.contains_key(i) ==> i == 1 || (shape(lg, i, lg.store.data@[i].id)
                && (lg.store.data@[i].id.ino <= 0x7fff_ffff_ffffu64 ==> lg.store.by_id@.contains_key(lg.store.data@[i].id) && lg.store.by_id@[lg.store.data@[i].id] == i)))
         && (forall|k: InodeId| #[trigger] lg.store.by_id@.contains_key(k) ==> lg.store.live(lg.store.by_id@[k]) || vshape(lg, lg.store.by_id@[k]))
         && (forall|k: Arc<FileHandle>| #[trigger] lg.store.by_handle@.contains_key(k) ==> lg.store.live(lg.store.by_handle@[k]) || vshape(lg, lg.store.by_handle@[k])))
}
// ---- the number allocate_inode returns for the file (id, h) when no live inode denotes it (store `s` = lg0.store, under the write lock)
pub open spec fn alloc_result(o: Lg, n: Lg, id: InodeId, h: Option<FileHandle>, num: u64) -> bool {
    let rem = o.store.remembered(id, h);
    if !o.use_host_ino { if rem is Some { num == rem->Some_0 && n.same_alloc(o) } else { num == o.c64[o.k_next] && n.c64 == o.c64.insert(o.k_next, wrap64(num)) && n.c8 == o.c8 && n.devmap == o.devmap } }
    else if id.ino > 0x7fff_ffff_ffffu64 && rem is Some { num == rem->Some_0 && n.same_alloc(o) }
    else { gen_post(o, n, id, num) }
}
pub proof fn lemma_mono_inv(o: Lg, n: Lg)
    requires inv(o), n.store == o.store, gen_wf(n), alloc_mono(o, n), o.c64[o.k_next] < u64::MAX,
    ensures inv(n),                                                                        // the allocation state only grows
{
    let s = o.store;
    assert forall|i: Inode| #[trigger] n.store.data@.contains_key(i) && n.use_host_ino && i != 1 implies shape(n, i, n.store.data@[i].id) by {
        assert(shape(o, i, s.data@[i].id));
    }
}
pub proof fn lemma_alloc(o: Lg, n: Lg, id: InodeId, h: Option<FileHandle>, num: u64)
    requires inv(o), o.store.alt(id, h) is None, n.store == o.store, n.same_cfg(o), gen_wf(n), alloc_mono(o, n), alloc_result(o, n, id, h, num),
    ensures !(o.use_host_ino && h is Some && id.ino <= 0x7fff_ffff_ffffu64) ==> !o.store.live(num),    // [C08.alloc.not_live] the number is not in use
            !o.use_host_ino && num < u64::MAX ==> num < n.c64[n.k_next],
            o.use_host_ino ==> shape(n, num, id) && num != 1,
{
    broadcast use axiom_hkey, axiom_hkey_arc;
    let s = o.store;
    assert(forall|x: u64| x & (1u64 << 55) != 0 ==> x != 1) by (bit_vector);
    if o.use_host_ino && id.ino > 0x7fff_ffff_ffffu64 && s.remembered(id, h) is Some {
        // a remembered number whose inode is gone is a virtual one
        match h {
            Some(hh) => { assert(s.by_handle@.contains_key(hkey(hh))); assert(s.by_h(hh) is None); assert(!s.live(num)); assert(vshape(o, num)); }
            None => { assert(s.by_id@.contains_key(id)); assert(s.by_i(id) is None); assert(!s.live(num)); assert(vshape(o, num)); }
        }
        assert(vshape(n, num));
    }
    if o.use_host_ino && !(id.ino > 0x7fff_ffff_ffffu64 && s.remembered(id, h) is Some) {
        let p = n.devmap[pair_of(id)];
        assert(p >= 1);
        if id.ino <= 0x7fff_ffff_ffffu64 {
            lemma_enc(p, id.ino, p, id.ino);
            if s.live(num) && !(h is Some) {
                let d = s.data@[num];
                assert(num != 1);
                assert(hshape(o, num, d.id)) by { lemma_enc(p, id.ino, p, id.ino); }
                lemma_enc(o.devmap[pair_of(d.id)], d.id.ino, p, id.ino);
                assert(d.id == id);
                assert(s.by_i(id) == Some(d));
                assert(false);
            }
        } else {
            let v = o.c64[o.k_virt];
            lemma_vnum(v);
            lemma_enc(p, vnum(v), p, vnum(v));
            assert(is_virtual(num) && low47(num) == v);
            assert(vshape(n, num));
            if s.live(num) {
                let d = s.data@[num];
                if d.id.ino <= 0x7fff_ffff_ffffu64 { lemma_enc(o.devmap[pair_of(d.id)], d.id.ino, p, vnum(v)); }
                assert(false);
            }
        }
    }
}
// ---- the state import() builds (the root under number 1, next_inode = 2, an empty prefix table with next_unique_id = 1) satisfies it
pub proof fn lemma_import(lg: Lg, d: Arc<InodeData>)
    requires d.inode == 1, lg.store.data@ == Map::<Inode, Arc<InodeData>>::empty().insert(1, d), lg.store.by_id@ == Map::<InodeId, Inode>::empty().insert(d.id, 1),
             d.handle is Handle ==> lg.store.by_handle@ == Map::<Arc<FileHandle>, Inode>::empty().insert(d.handle->Handle_0.handle, 1),
             !(d.handle is Handle) ==> lg.store.by_handle@ == Map::<Arc<FileHandle>, Inode>::empty(),
             lg.k_next != lg.k_virt, lg.c64.contains_key(lg.k_next), lg.c64.contains_key(lg.k_virt), lg.c8.contains_key(lg.k_uid),
             lg.c64[lg.k_next] == 2, lg.c8[lg.k_uid] == 1, lg.devmap == Map::<DevMntIDPair, u8>::empty(),
    ensures inv(lg),                                                                      // [C08.inv.initial]
{ }
// ---- inserting the new inode keeps the invariant
pub proof fn lemma_insert(o: Lg, n: Lg, d: Arc<InodeData>, h: Option<FileHandle>)
    requires inv(o), o.store.alt(d.id, h) is None, n.same_alloc(o),
             (match h { Some(hh) => d.handle is Handle && d.handle->Handle_0.handle == hkey(hh), None => !(d.handle is Handle) }),
             n.store.data@ == o.store.data@.insert(d.inode, d), n.store.by_id@ == o.store.by_id@.insert(d.id, d.inode),
             d.handle is Handle ==> n.store.by_handle@ == o.store.by_handle@.insert(d.handle->Handle_0.handle, d.inode),
             !(d.handle is Handle) ==> n.store.by_handle@ == o.store.by_handle@,
             !o.use_host_ino ==> d.inode < o.c64[o.k_next],
             o.use_host_ino ==> shape(o, d.inode, d.id) && d.inode != 1,
    ensures inv(n),                                                                       // [C08.lookup.inv]
{
    broadcast use axiom_hkey, axiom_hkey_arc;
    let s = o.store; let t = n.store;
    assert forall|i: Inode| #[trigger] t.data@.contains_key(i) implies t.data@[i].inode == i
            && (t.data@[i].handle is Handle ==> t.by_handle@.contains_key(t.data@[i].handle->Handle_0.handle) && t.by_handle@[t.data@[i].handle->Handle_0.handle] == i)
            && (!(t.data@[i].handle is Handle) ==> t.by_id@.contains_key(t.data@[i].id) && t.by_id@[t.data@[i].id] == i) by {
        if i != d.inode {
            let e = s.data@[i];
            assert(s.data@.contains_key(i));
            if e.handle is Handle && h is Some && e.handle->Handle_0.handle == hkey(h->Some_0) { assert(s.by_h(h->Some_0) == Some(e)); assert(false); }
            if !(e.handle is Handle) && e.id == d.id { assert(s.by_i(d.id) == Some(e)); assert(false); }
        }
    }
    if o.use_host_ino {
        assert forall|i: Inode| #[trigger] t.data@.contains_key(i) && i != 1 implies shape(n, i, t.data@[i].id)
                && (t.data@[i].id.ino <= 0x7fff_ffff_ffffu64 ==> t.by_id@.contains_key(t.data@[i].id) && t.by_id@[t.data@[i].id] == i) by {
            if i != d.inode {
                let e = s.data@[i];
                assert(s.data@.contains_key(i));
                assert(shape(o, i, e.id));
                if e.id == d.id && e.id.ino <= 0x7fff_ffff_ffffu64 { assert(i == d.inode); }
            }
        }
        assert forall|k: InodeId| #[trigger] t.by_id@.contains_key(k) implies t.live(t.by_id@[k]) || vshape(n, t.by_id@[k]) by {
            if k != d.id { assert(s.by_id@.contains_key(k)); assert(s.live(s.by_id@[k]) || vshape(o, s.by_id@[k])); }
        }
        assert forall|k: Arc<FileHandle>| #[trigger] t.by_handle@.contains_key(k) implies t.live(t.by_handle@[k]) || vshape(n, t.by_handle@[k]) by {
            if !(d.handle is Handle && k == d.handle->Handle_0.handle) { assert(s.by_handle@.contains_key(k)); assert(s.live(s.by_handle@[k]) || vshape(o, s.by_handle@[k])); }
        }
    } else {
        assert forall|k: InodeId| #[trigger] t.by_id@.contains_key(k) implies t.by_id@[k] < n.c64[n.k_next] by { if k != d.id { assert(s.by_id@.contains_key(k)); } }
        assert forall|k: Arc<FileHandle>| #[trigger] t.by_handle@.contains_key(k) implies t.by_handle@[k] < n.c64[n.k_next] by {
            if !(d.handle is Handle && k == d.handle->Handle_0.handle) { assert(s.by_handle@.contains_key(k)); } }
        assert forall|i: Inode| #[trigger] t.data@.contains_key(i) implies i < n.c64[n.k_next] by { if i != d.inode { assert(s.data@.contains_key(i)); } }
    }
}
impl<S: BitmapSlice + Send + Sync> PassthroughFs<S> {
    // the token speaks about this file system's counters and configuration
    pub open spec fn tok(&self, lg: Lg) -> bool {
        lg.use_host_ino == self.cfg.use_host_ino && lg.k_next == self.next_inode && lg.k_virt == self.ino_allocator.next_virtual_inode && lg.k_uid == self.ino_allocator.next_unique_id
    }
    // ---- the host file a lookup of (parent, name) denotes: the root's ".." is the root itself (opened as ".")
    pub open spec fn lk_name(parent: Inode, name: Seq<u8>) -> Seq<u8> { if parent == 1 && name == seq![46u8, 46u8] { seq![46u8] } else { name } }
    pub open spec fn lk_fd(parent: Inode, name: Seq<u8>) -> i32 { host_open(fd_of(parent), Self::lk_name(parent, name)) }
    pub open spec fn lk_st(parent: Inode, name: Seq<u8>) -> StatExt { host_statx(Self::lk_fd(parent, name)) }
    pub open spec fn lk_id(parent: Inode, name: Seq<u8>) -> InodeId { spec_id(Self::lk_st(parent, name)) }
    pub open spec fn lk_h(&self, parent: Inode, name: Seq<u8>) -> Option<FileHandle> { if self.cfg.inode_file_handles { host_fh(Self::lk_fd(parent, name)) } else { None } }
    // ---- C08 as capabilities: what a lookup of the host file (id, h) may do to the shared state last seen as `b`
    pub open spec fn lookup_caps(&self, id: InodeId, h: Option<FileHandle>) -> bool {
        // the count of the inode that denotes the file goes from c > 0 to c + 1 (saturating): zero is never resurrected
        &&& forall|b: InodeStore, a: &AtomicU64, c: u64, n: u64| #[trigger] cas_allowed(b, a, c, n) <==> b.alt(id, h) is Some && *a == b.alt(id, h)->Some_0.refcount && c > 0 && n == sat_inc(c)
        &&& forall|b: InodeStore, a: &AtomicU64, n: u64| #[trigger] add_allowed(b, a, n) <==> b.alt(id, h) is Some && *a == b.alt(id, h)->Some_0.refcount && n == 1
        // a NEW inode: only if no live inode denotes the file; for this file, with exactly one reference
        &&& forall|b: InodeStore, d: Arc<InodeData>| #[trigger] insert_allowed(b, d) <==> b.alt(id, h) is None && d.id == id && d.refcount.init() == 1
                && (match h { Some(hh) => d.handle is Handle && d.handle->Handle_0.handle == hkey(hh), None => !(d.handle is Handle) })
    }
}
pub open spec fn is_one_ref(ev: RcEv, a: AtomicU64) -> bool {
    ev.atom == a && match ev.op { RcOp::Cas { cur, new } => cur > 0 && new == sat_inc(cur), RcOp::Add { n } => n == 1 }
}
// "the references held for each file equal the entries returned to the client for it": between `o` and `n` this request gave
// exactly ONE reference, to inode `ino`: one count went up by one on that inode's data, or the inode was created with count 1
pub open spec fn granted(o: Lg, n: Lg, ino: Inode) -> bool {
    ||| (n.ins == o.ins && n.rc.len() == o.rc.len() + 1 && n.rc.drop_last() =~= o.rc && n.store == n.base
         && n.base.live(ino) && n.base.data@[ino].inode == ino && is_one_ref(n.rc.last(), n.base.data@[ino].refcount))
    ||| (n.rc == o.rc && n.ins.len() == o.ins.len() + 1 && n.ins.drop_last() =~= o.ins
         && n.ins.last().inode == ino && n.ins.last().refcount.init() == 1 && n.store.data@ == n.base.data@.insert(ino, n.ins.last()))
}
pub open spec fn no_grant(o: Lg, n: Lg) -> bool { n.rc == o.rc && n.ins == o.ins && n.store == n.base }

// the callbacks of readdir / readdirplus: between `o` and `n` exactly one lookup gave one reference, to `ino` (`grants` is written
// where do_lookup returns Ok, i.e. where `granted` is proved), this request wrote no other count, and forgot exactly `forgot`
pub open spec fn lookup_then(o: Lg, n: Lg, ino: Inode, forgot: Seq<(Inode, u64)>) -> bool {
    n.grants == o.grants.push(ino) && n.rc.len() + n.ins.len() == o.rc.len() + o.ins.len() + 1 && n.fg =~= o.fg + forgot
}
// ---- allocation: what UniqueInodeGenerator::get_unique_inode does to the generator state, and the number it returns
pub open spec fn wrap64(v: u64) -> u64 { if v == u64::MAX { 0u64 } else { (v + 1) as u64 } }
pub open spec fn devmap_step(o: Lg, n: Lg, p: DevMntIDPair) -> bool {
    if o.devmap.contains_key(p) { n.devmap == o.devmap && n.c8 == o.c8 }
    else { o.c8[o.k_uid] < 255 && n.devmap == o.devmap.insert(p, o.c8[o.k_uid]) && n.c8 == o.c8.insert(o.k_uid, (o.c8[o.k_uid] + 1) as u8) }
}
pub open spec fn gen_post(o: Lg, n: Lg, id: InodeId, num: u64) -> bool {
    devmap_step(o, n, pair_of(id)) && n.devmap.contains_key(pair_of(id))
    && (if id.ino <= 0x7fff_ffff_ffffu64 { n.c64 == o.c64 && num == enc(n.devmap[pair_of(id)], id.ino) }       // same id => same number, always
        else { o.c64[o.k_virt] <= 0x7fff_ffff_ffffu64 && n.c64 == o.c64.insert(o.k_virt, (o.c64[o.k_virt] + 1) as u64)
               && num == enc(n.devmap[pair_of(id)], vnum(o.c64[o.k_virt])) })                                  // a virtual number never handed out before
}
// the allocation state only grows: prefixes are kept, counters do not go back
pub open spec fn alloc_mono(o: Lg, n: Lg) -> bool {
    n.same_cfg(o) && n.c64.dom() =~= o.c64.dom() && n.c8.dom() =~= o.c8.dom()
    && (forall|k: DevMntIDPair| #[trigger] o.devmap.contains_key(k) ==> n.devmap.contains_key(k) && n.devmap[k] == o.devmap[k])
    && n.c64[o.k_virt] >= o.c64[o.k_virt] && (n.c64[o.k_next] >= o.c64[o.k_next] || o.c64[o.k_next] == u64::MAX)
}
'''


# ---------------------------------------------------------------------------------------------------------------------------------
# PassthroughFs::do_lookup(parent, name): the contract, from the property
ID = 'Self::lk_id(parent, name@)'
HH = 'self.lk_h(parent, name@)'
LOOKUP_REQ = [
    'self.tok(*old(lg))', 'inv(*old(lg))',
    # the capabilities of a lookup of the host file (parent, name) denotes - see PassthroughFs::lookup_caps
    'self.lookup_caps(%s, %s) // [C08.lookup.caps]' % (ID, HH),
    # the only name-based open: the parent directory's descriptor and the client's name, the root's ".." being opened as "."
    'forall|fd: i32, nm: Seq<u8>| #[trigger] open_allowed(fd, nm) <==> fd == fd_of(parent) && nm == Self::lk_name(parent, name@) // [C08.lookup.root_parent]',
]
LOOKUP_ENS = [
    'final(lg).fg == old(lg).fg && final(lg).same_cfg(*old(lg))',
    # "errors add no reference"
    'res is Err ==> no_grant(*old(lg), *final(lg)) && final(lg).grants == old(lg).grants // [C08.lookup.err_no_ref]',
    # "the references held for each file equal the entries returned to the client for it": exactly one, to the inode returned
    'res is Ok ==> granted(*old(lg), *final(lg), res->Ok_0.inode) // [C08.lookup.one_ref]',
    # (bookkeeping for the readdir callbacks: the inode each successful lookup of this request gave a reference to)
    'res is Ok ==> final(lg).grants == old(lg).grants.push(res->Ok_0.inode) // [C08.lookup.grant_log]',
    # "a host file has one inode number": an inode that denotes the file is re-used, and only then
    'res is Ok && final(lg).base.alt(%s, %s) is Some ==> res->Ok_0.inode == final(lg).base.alt(%s, %s)->Some_0.inode && final(lg).ins == old(lg).ins // [C08.lookup.found]' % (ID, HH, ID, HH),
    'res is Ok && final(lg).base.alt(%s, %s) is None ==> final(lg).rc == old(lg).rc && final(lg).ins.last().id == %s // [C08.lookup.new]' % (ID, HH, ID),
    # "an inode number denotes one host file": a new inode never takes the number of a live one
    'res is Ok && final(lg).base.alt(%s, %s) is None && !(self.cfg.use_host_ino && %s is Some && %s.ino <= 0x7fff_ffff_ffffu64) ==> !final(lg).base.live(res->Ok_0.inode) // [C08.lookup.one_file]' % (ID, HH, HH, ID),
    'res is Ok && final(lg).base.alt(%s, %s) is None && (self.cfg.use_host_ino && %s is Some && %s.ino <= 0x7fff_ffff_ffffu64) ==> !final(lg).base.live(res->Ok_0.inode) // [C08.lookup.one_file.hostino_handles]' % (ID, HH, HH, ID),
    # "a file looked up again after being forgotten gets the same number"
    'res is Ok && final(lg).base.alt(%s, %s) is None && final(lg).base.remembered(%s, %s) is Some && (!self.cfg.use_host_ino || %s.ino > 0x7fff_ffff_ffffu64) '
    '==> res->Ok_0.inode == final(lg).base.remembered(%s, %s)->Some_0 // [C08.lookup.same_number]' % (ID, HH, ID, HH, ID, ID, HH),
    'res is Ok && final(lg).base.alt(%s, %s) is None && self.cfg.use_host_ino && %s.ino <= 0x7fff_ffff_ffffu64 '
    '==> hshape(*final(lg), res->Ok_0.inode, %s) // [C08.lookup.same_number.hostino]' % (ID, HH, ID, ID),
    'res is Ok ==> res->Ok_0.attr == Self::lk_st(parent, name@).st // [C08.lookup.attr]',
    # the invariant of the shared state is kept (the counter cannot wrap before 2^64 allocations)
    'old(lg).c64[old(lg).k_next] < u64::MAX ==> inv(*final(lg)) // [C08.lookup.inv]',
]
LOOP_INV = '''
                invariant_except_break
                    found is None, lg.rc == old(lg).rc,
                invariant
                    lg.ins == old(lg).ins, lg.fg == old(lg).fg, lg.grants == old(lg).grants, lg.same_alloc(*old(lg)), inv(*lg), lg.store == lg.base,
                    self.tok(*old(lg)), self.lookup_caps(id, handle_opt), id == %s, handle_opt == %s,
                ensures
                    found is None ==> lg.rc == old(lg).rc && lg.store == lg.base,
                    found is Some ==> lg.store == lg.base && lg.base.alt(id, handle_opt) is Some && found == Some(lg.base.alt(id, handle_opt)->Some_0.inode)
                        && lg.rc.len() == old(lg).rc.len() + 1 && lg.rc.drop_last() =~= old(lg).rc && is_one_ref(lg.rc.last(), lg.base.alt(id, handle_opt)->Some_0.refcount),
            {''' % (ID, HH)
LOOKUP_SPLICES = [
    ('^', 'after', '''broadcast use axiom_cstr_no_nul, axiom_hkey, axiom_hkey_arc; let ghost name0 = name@; let ghost b0 = name@.push(0u8); let ghost mut lg0 = *lg; let ghost mut lg1 = *lg;
        proof {
            axiom_cstr_no_nul(name);
            let dd = seq![46u8, 46u8]; let pp = seq![46u8, 46u8, 0u8];
            if name0 == dd { assert(b0 =~= pp); assert(b0.subrange(0, 3) =~= b0); }
            if pp.is_prefix_of(b0) {
                assert(b0.subrange(0, 3)[0] == b0[0] && b0.subrange(0, 3)[1] == b0[1] && b0.subrange(0, 3)[2] == b0[2]);
                if name0.len() > 2 { assert(name0[2] == b0[2]); }
                assert(name0 =~= dd);
            }
            assert(pp.is_prefix_of(b0) <==> name0 == dd);
        }'''),
    # the name test: `..\\0` is a prefix of the NUL-terminated name exactly when the name is ".."
    ('let dir = self.inode_map.get(parent', 'before', '''proof {
            assert(seq![46u8, 0u8].drop_last() =~= seq![46u8]);
        }'''),
    ("'search: loop {", 'replace', "'search: loop" + LOOP_INV),
    ('let inode = self.allocate_inode(', 'before', 'proof { lg0 = *lg; }'),
    ('if inode > VFS_MAX_INO {', 'before', 'proof { lemma_alloc(lg0, *lg, id, handle_opt, inode); lg1 = *lg; }'),
    ('Ok(Entry {', 'before', 'proof { lg.grants = lg.grants.push(inode); }'),
    ('let (entry_timeout, attr_timeout) =', 'before', 'proof { if found is None && lg.ins.len() == old(lg).ins.len() + 1 { lemma_insert(lg1, *lg, lg.ins.last(), handle_opt); } }'),
]


def _fn_of(unit, name):
    """the Fn object `name` of another unit (its contract is imported, not copied)"""
    def walk(items):
        for it in items:
            if isinstance(it, Group):
                r = walk(it.items)
                if r:
                    return r
            elif isinstance(it, Fn) and it.name == name:
                return it
    r = walk(unit.items)
    if r is None:
        raise KeyError(name)
    return r


def unit(root='/repo'):
    inu = IN.unit(root)
    ins_ens = ''.join('%s,\n                ' % c.split('//')[0].strip().rstrip(',').replace('\n', ' ') for c in _fn_of(inu, 'insert').ensures)
    pre = PRE.replace('INSERT_ENSURES', ins_ens)
    S = 'impl InodeStore'
    IM = 'impl InodeMap'

    def tok(fn, callees=(), path_callees=(), extra_rules=()):
        fn.rules = ('R23',) + tuple(extra_rules)
        fn.ghost_token = dict(TOK, callees=list(callees), path_callees=list(path_callees))
        return fn

    LOCK_POST = 'final(lg).lock_step(*old(lg))'
    # ---- the callbacks PassthroughFs::readdir / readdirplus hand to do_readdir (R17 / R17' closure lifting)
    CB_REQ = [c.replace('(parent', '(inode').replace('name@', 'dir_entry.name@') for c in LOOKUP_REQ]
    CSTR = (r'unsafe\s*\{\s*CStr::from_bytes_with_nul_unchecked\(\s*std::slice::from_raw_parts\(\s*&dir_entry\.name\[0\],\s*dir_entry\.name\.len\(\) \+ 1,?\s*\)\s*\)\s*\}',
            'cstr_of_dirent_name(dir_entry.name)', 'the entry name as &CStr: the unsafe expression relies on do_readdir having produced the name with CStr::to_bytes (model cstr_of_dirent_name)')
    DE = "DirEntry<'b>"
    readdir_cb = Lifted(PTS, FSIMPL, 'readdir', 0,
                        "fn readdir_entry<'b>(&self, inode: Inode, mut dir_entry: %s, _dir: RawFd, Tracked(lg): Tracked<&mut Lg>) -> (res: io::Result<%s>)" % (DE, DE), 'add_entry',
                        props=['C08'], canary=True,
                        requires=CB_REQ + [
                            # the one thing this callback may forget: the reference its own lookup has just taken, once
                            'forall|g: Lg, i: Inode, c: u64| #[trigger] forget_allowed(g, i, c) <==> c == 1 && g.grants == old(lg).grants.push(i) && g.fg == old(lg).fg // [C08.readdir.forget_cap]'],
                        ensures=['res is Err ==> final(lg).rc == old(lg).rc && final(lg).ins == old(lg).ins && final(lg).fg == old(lg).fg && final(lg).grants == old(lg).grants // [C08.readdir.err_no_ref]',
                                 # "readdir forgets its temporary reference": one reference taken, exactly that one given back, once
                                 'res is Ok ==> lookup_then(*old(lg), *final(lg), res->Ok_0.ino, seq![(res->Ok_0.ino, 1u64)]) // [C08.readdir.temp_ref]',
                                 'res is Ok ==> res->Ok_0.name == dir_entry.name && res->Ok_0.offset == dir_entry.offset && res->Ok_0.type_ == dir_entry.type_'])
    readdir_cb.body_resub = [CSTR]
    readdir_cb.ghost_token = dict(TOK, callees=['do_lookup', 'get_map_mut', 'forget_one'])
    readdirplus_cb = Lifted(PTS, FSIMPL, 'readdirplus', 0,
                            "fn readdirplus_entry<'b>(&self, inode: Inode, mut dir_entry: %s, _dir: RawFd, cont_res: io::Result<usize>, Tracked(lg): Tracked<&mut Lg>) -> (res: io::Result<(Option<(%s, Entry)>, io::Result<usize>)>)" % (DE, DE), 'add_entry',
                            props=['C08'], canary=True,
                            requires=CB_REQ + [
                                # "readdirplus forgets entries that did not fit": the looked-up inode, once, and only when add_entry said 0 (or failed)
                                'forall|g: Lg, i: Inode, c: u64| #[trigger] forget_allowed(g, i, c) <==> c == 1 && !(cont_res is Ok && cont_res->Ok_0 > 0) && g.grants == old(lg).grants.push(i) && g.fg == old(lg).fg // [C08.readdirplus.forget_cap]'],
                            ensures=['res is Err ==> final(lg).rc == old(lg).rc && final(lg).ins == old(lg).ins && final(lg).fg == old(lg).fg && final(lg).grants == old(lg).grants // [C08.readdirplus.err_no_ref]',
                                     # the entry handed to add_entry is the one the reference was taken for; the callback's result is add_entry's
                                     'res is Ok ==> res->Ok_0.0 is Some && res->Ok_0.1 == cont_res && res->Ok_0.0->Some_0.0.ino == res->Ok_0.0->Some_0.1.attr.st_ino // [C08.readdirplus.entry]',
                                     # delivered (n > 0): the reference stays with the client
                                     'res is Ok && cont_res is Ok && cont_res->Ok_0 > 0 ==> lookup_then(*old(lg), *final(lg), res->Ok_0.0->Some_0.1.inode, Seq::empty()) // [C08.readdirplus.keep_delivered]',
                                     # did not fit (0): the reference is given back, entry.inode (not attr.st_ino), count 1
                                     'res is Ok && cont_res is Ok && cont_res->Ok_0 == 0 ==> lookup_then(*old(lg), *final(lg), res->Ok_0.0->Some_0.1.inode, seq![(res->Ok_0.0->Some_0.1.inode, 1u64)]) // [C08.readdirplus.forget_undelivered]',
                                     # add_entry failed: nothing was delivered either ("entries actually delivered")
                                     'res is Ok && cont_res is Err ==> lookup_then(*old(lg), *final(lg), res->Ok_0.0->Some_0.1.inode, seq![(res->Ok_0.0->Some_0.1.inode, 1u64)]) // [C08.readdirplus.err_undelivered]'])
    readdirplus_cb.rules = ('R31',)
    readdirplus_cb.body_resub = [CSTR]
    readdirplus_cb.ghost_token = dict(TOK, callees=['do_lookup', 'get_map_mut', 'forget_one'])
    readdirplus_cb.cont_param = 'cont_res'
    REM = 'inodes.remembered(*id, opt_h(handle_opt))'
    ALLOC_ENS = [
        'final(lg).store == old(lg).store && final(lg).base == old(lg).base && final(lg).same_logs(*old(lg))',
        'gen_wf(*final(lg)) && alloc_mono(*old(lg), *final(lg)) // [C08.alloc.monotone]',
        'inv(*old(lg)) && old(lg).c64[old(lg).k_next] < u64::MAX ==> inv(*final(lg)) // [C08.alloc.inv]',
        # "a file looked up again after being forgotten gets the same number": the record forget keeps is consulted first
        'r is Ok && !self.cfg.use_host_ino && %s is Some ==> r->Ok_0 == %s->Some_0 && final(lg).same_alloc(*old(lg)) // [C08.alloc.same_number]' % (REM, REM),
        # otherwise a number never handed out before
        'r is Ok && !self.cfg.use_host_ino && %s is None ==> r->Ok_0 == old(lg).c64[self.next_inode] '
        '&& final(lg).c64 == old(lg).c64.insert(self.next_inode, wrap64(r->Ok_0)) && final(lg).c8 == old(lg).c8 && final(lg).devmap == old(lg).devmap // [C08.alloc.fresh]' % REM,
        'r is Ok && self.cfg.use_host_ino && id.ino > 0x7fff_ffff_ffffu64 && %s is Some ==> r->Ok_0 == %s->Some_0 && final(lg).same_alloc(*old(lg)) // [C08.alloc.same_number.virtual]' % (REM, REM),
        'r is Ok && self.cfg.use_host_ino && !(id.ino > 0x7fff_ffff_ffffu64 && %s is Some) ==> gen_post(*old(lg), *final(lg), *id, r->Ok_0) // [C08.alloc.host_encoding]' % REM,
    ]
    items = [
        Raw(pre),
        ByteConst(VMOD, 'CURRENT_DIR_CSTR'), ByteConst(VMOD, 'PARENT_DIR_CSTR'),
        Copy(VMOD, r'pub const VFS_MAX_INO\b'),
        Copy(FSMOD, r'pub struct Context\b', prefix='#[derive(Clone, Copy)]', subst=[('libc::uid_t', 'u32'), ('libc::gid_t', 'u32'), ('libc::pid_t', 'i32')]),
        Group('pub mod fuse {', [Copy(ABI, r'pub const ROOT_ID\b'), Copy(ABI, r'pub const FUSE_ATTR_DAX\b')]),
        Copy(PT, r'const MAX_HOST_INO\b'),
        Copy(UTIL, r'const VIRTUAL_INODE_FLAG\b'),
        Copy(UTIL, r'struct DevMntIDPair\b', prefix='#[derive(Clone, Copy, PartialEq, Eq)]', subst=[('libc::dev_t', 'u64')]),
        Copy(UTIL, r'pub struct UniqueInodeGenerator\b',
             subst=[('next_unique_id: AtomicU8', 'next_unique_id: Counter8'), ('next_virtual_inode: AtomicU64', 'next_virtual_inode: Counter64')]),
        Copy(STORE, r'pub struct InodeId\b', prefix='#[derive(Clone, Copy, PartialEq, Eq)]', subst=[('libc::ino64_t', 'u64'), ('libc::dev_t', 'u64')]),
        Copy(STATX, r'pub struct StatExt\b', subst=[('libc::stat64', 'stat64')]),
        Copy(PT, r'pub struct InodeData\b'),
        Copy(PT, r'enum InodeHandle\b'),
        Copy(FH, r'pub struct OpenableFileHandle\b'),
        Copy(STORE, r'pub struct InodeStore\b'),
        Copy(PT, r'struct InodeMap\b'),
        Copy(FSMOD, r'pub struct Entry\b', prefix='#[derive(Clone, Copy)]'),
        Copy(FSMOD, r'pub struct DirEntry\b', prefix='#[derive(Clone, Copy)]', subst=[('ino64_t', 'u64')]),
        Copy(CFG, r'pub enum CachePolicy\b', prefix='#[derive(Clone, Copy, PartialEq, Eq)]'),
        Copy(CFG, r'pub struct Config\b'),
        Copy(PT, r'pub struct PassthroughFs\b', subst=[('next_inode: AtomicU64', 'next_inode: Counter64')]),
        Raw(SPEC),
        Fn(UTIL, None, 'is_dir', ensures=['r == (mode & 0o170000u32 == 0o040000u32)'], props=['C08']),
        Fn(UTIL, None, 'ebadf', ensures=['r.os_code() == Some(9i32)'], props=['C08']),
        Group('impl InodeId {', [Fn(STORE, 'impl InodeId', 'from_stat', ensures=['r == spec_id(*st)'], props=['C08'])]),
        Group('impl OpenableFileHandle {', [_fn_of(inu, 'file_handle')]),
        Group('impl InodeData {', [Fn(PT, 'impl InodeData', 'new', props=['C08'],
                                      ensures=['r.inode == inode && r.handle == f && r.id == id && r.mode == mode', 'r.refcount.init() == refcount // [C08.inodedata.new]'])]),
        Group('impl InodeHandle {', [Fn(PT, 'impl InodeHandle', 'file_handle', props=['C08'],
                                        ensures=['match r { Some(h) => self is Handle && hkey(*h) == self->Handle_0.handle, None => !(self is Handle) }'],
                                        body_resub=[(r'h\.file_handle\(\)\.deref\(\)', '&**h.file_handle()', '<Arc<T> as Deref>::deref(x) is &**x (vstd has no specification for the explicit call)')],
                                        splices=[('^', 'after', 'broadcast use axiom_hkey, axiom_hkey_arc;')])]),
        Group('impl InodeStore {', [
            _fn_of(inu, 'get'), _fn_of(inu, 'inode_by_id'), _fn_of(inu, 'get_by_id'),
            Fn(STORE, S, 'inode_by_handle', props=['C08'],
               body_resub=[(r'self\.by_handle\.get\(handle\)', 'self.by_handle.get_borrowed(handle)', 'BTreeMap::get through Borrow<FileHandle> (key Arc<FileHandle>, probe &FileHandle) -> model get_borrowed')],
               ensures=['match r { Some(v) => self.by_handle@.contains_key(hkey(*handle)) && *v == self.by_handle@[hkey(*handle)], None => !self.by_handle@.contains_key(hkey(*handle)) }']),
            Fn(STORE, S, 'get_by_handle', props=['C08'],
               ensures=['match r { Some(v) => self.by_h(*handle) == Some(*v), None => self.by_h(*handle) is None } // [C08.store.by_handle]']),
        ]),
        Group('impl InodeMap {', [
            tok(Fn(PT, IM, 'get', props=['C08'],
                   ensures=[LOCK_POST,
                            'match r { Ok(d) => final(lg).store.live(inode) && d == final(lg).store.data@[inode], Err(_) => !final(lg).store.live(inode) } // [C08.map.get]'],
                   splices=[('^', 'after', 'broadcast use axiom_arc_cloned;')]), callees=['read']),
            Fn(PT, IM, 'get_inode_locked', props=['C08'],
               ensures=['r == inodes.remembered(*id, opt_h(handle)) // [C08.map.remembered]']),
            Fn(PT, IM, 'get_alt_locked', props=['C08'], canary=True,
               ensures=['r == inodes.alt(*id, opt_h(handle)) // [C08.map.alt]'],
               splices=[('^', 'after', 'broadcast use axiom_arc_cloned;'),
                        ('|h|', 'closure', '|h: &FileHandle| -> (q: Option<&Arc<InodeData>>) ensures (match q { Some(v) => inodes.by_h(*h) == Some(*v), None => inodes.by_h(*h) is None })'),
                        ('.or_else(||', 'closure', '.or_else(|| -> (q: Option<&Arc<InodeData>>) ensures (match q { Some(v) => inodes.by_i(*id) == Some(*v) && (handle is None || !(v.handle is Handle)), None => inodes.by_i(*id) is None || !(handle is None || !(inodes.by_i(*id)->Some_0.handle is Handle)) })'),
                        ('|data|', 'closure', '|data: &&Arc<InodeData>| -> (b: bool) ensures b == (handle is None || !(data.handle is Handle))')]),
            tok(Fn(PT, IM, 'get_alt', props=['C08'],
                   ensures=[LOCK_POST, 'r == final(lg).store.alt(*id, opt_h(handle)) // [C08.map.alt]']), callees=['read']),
            tok(Fn(PT, IM, 'get_map_mut', props=['C08'], ensures=[LOCK_POST, 'r.st == final(lg).store']), callees=['write']),
            tok(Fn(PT, IM, 'insert_locked', props=['C08'],
                   requires=['*old(inodes) == old(lg).store', 'insert_allowed(old(lg).base, data)'],
                   ensures=[c.split('//')[0].strip().rstrip(',').replace('final(self)', 'final(inodes)').replace('old(self)', 'old(inodes)') for c in _fn_of(inu, 'insert').ensures]
                   + ['final(lg).store == *final(inodes) && final(lg).base == old(lg).base && final(lg).ins == old(lg).ins.push(data)',
                      'final(lg).rc == old(lg).rc && final(lg).fg == old(lg).fg && final(lg).grants == old(lg).grants && final(lg).same_alloc(*old(lg))']), callees=['insert']),
        ]),
        Group('impl UniqueInodeGenerator {', [
            tok(Fn(UTIL, 'impl UniqueInodeGenerator', 'get_unique_inode', props=['C08'], canary=True,
                   sig_subst=[('io::Result<libc::ino64_t>', 'io::Result<u64>')],
                   body_resub=[(r'io::Error::other\(\s*"[^"]*",?\s*\)', 'io::Error::other(fmt_opaque())', 'every: the text of an error message (opaque string)')],
                   requires=['gen_wf(*old(lg))', 'old(lg).k_virt == self.next_virtual_inode && old(lg).k_uid == self.next_unique_id'],
                   ensures=['final(lg).store == old(lg).store && final(lg).base == old(lg).base && final(lg).same_logs(*old(lg))',
                            'gen_wf(*final(lg)) // [C08.alloc.prefix_injective] prefixes stay distinct per (dev, mnt)',
                            'alloc_mono(*old(lg), *final(lg)) // [C08.alloc.monotone]',
                            'r is Ok ==> gen_post(*old(lg), *final(lg), *id, r->Ok_0) // [C08.alloc.host_encoding] same (dev, mnt, ino) => same number; large inos get a never-used virtual number',
                            ],
                   ), callees=['entry', 'insert', 'load', 'fetch_add']),
        ]),
        Group(IMPL + ' {', [
            # system-call wrappers: capability in, uninterpreted result out (bodies not extracted)
            Fn(PT, IMPL, 'open_file_restricted', external_body=True, props=['C08'],
               requires=['open_allowed(dir.sfd(), pathname@) // [open]'],
               ensures=['r is Ok ==> r->Ok_0.sfd() == host_open(dir.sfd(), pathname@)']),
            Fn(PT, IMPL, 'to_openable_handle', external_body=True, props=['C08'],
               ensures=['r is Ok ==> r->Ok_0.handle == hkey(fh)']),
            Fn(PT, IMPL, 'open_file_and_handle', props=['C08'],
               requires=['open_allowed(dir.sfd(), name@) // [open]'],
               ensures=['r is Ok ==> ({ let fd = host_open(dir.sfd(), name@); r->Ok_0.0.sfd() == fd && r->Ok_0.2 == host_statx(fd) '
                        '&& r->Ok_0.1 == (if self.cfg.inode_file_handles { host_fh(fd) } else { None::<FileHandle> }) }) // [C08.lookup.opened]']),
            tok(Fn(PT, IMPL, 'allocate_inode', props=['C08'], canary=True,
                   requires=['self.tok(*old(lg))', 'gen_wf(*old(lg))'],
                   ensures=ALLOC_ENS,
                   splices=[('^', 'after', 'let ghost o = *lg; proof { assert forall|n: Lg| n.store == o.store && gen_wf(n) && #[trigger] alloc_mono(o, n) && inv(o) && o.c64[o.k_next] < u64::MAX implies inv(n) by { lemma_mono_inv(o, n); } }')]),
                callees=['fetch_add', 'get_unique_inode'], extra_rules=('R32',)),
            tok(Fn(PT, IMPL, 'do_lookup', props=['C08'], canary=True, ret_name='res',
                   attrs=['#[verifier::exec_allows_no_decreases_clause]'],
                   requires=LOOKUP_REQ, ensures=LOOKUP_ENS, splices=LOOKUP_SPLICES),
                callees=['get', 'get_alt', 'compare_exchange', 'fetch_add', 'get_map_mut', 'allocate_inode'], path_callees=['insert_locked']),
            # forget_one: its own contract ([C08.forget.*]) is proved on the real text in unit `inodes`; here capability-guarded + logged
            tok(Fn(PT, IMPL, 'forget_one', external_body=True, props=['C08'],
                   requires=['*old(inodes) == old(lg).store // [seq]', 'forget_allowed(*old(lg), inode, count) // [forget]'],
                   ensures=['final(lg).fg == old(lg).fg.push((inode, count)) && final(lg).rc == old(lg).rc && final(lg).ins == old(lg).ins && final(lg).grants == old(lg).grants && final(lg).same_alloc(*old(lg))',
                            'final(lg).store == *final(inodes) && final(lg).base == old(lg).base',
                            _fn_of(inu, 'forget_one').ensures[1].split('//')[0]])),
            readdir_cb, readdirplus_cb,
            # the FORGET / BATCH_FORGET entry points: "minus the counts the client has forgotten" - every (inode, count) pair is applied, once, in order.
            # Stated over the NON-ROOT part of the forget log (the root can never be forgotten: whether the guard sits in forget_one or in its callers is immaterial)
            tok(Fn(PTS, FSIMPL, 'forget', props=['C08'], canary=True,
                   requires=['self.tok(*old(lg))', 'forall|g: Lg, i: Inode, c: u64| #[trigger] forget_allowed(g, i, c) <==> (i == inode && c == count && g.fg == old(lg).fg) // [C08.forget.cap]'],
                   ensures=['nonroot(final(lg).fg) =~= nonroot(old(lg).fg.push((inode, count))) // [C08.forget.applied]'],
                   splices=[('^', 'after', 'proof { lemma_nonroot_push(old(lg).fg, (inode, count)); }')]),
                callees=['get_map_mut', 'forget_one']),
            tok(Fn(PTS, FSIMPL, 'batch_forget', props=['C08'], canary=True,
                   requires=['self.tok(*old(lg))',
                             'forall|g: Lg, i: Inode, c: u64| #[trigger] forget_allowed(g, i, c) <==> (exists|k: int| 0 <= k < requests@.len() && nonroot(g.fg) =~= nonroot(old(lg).fg + requests@.take(k)) && requests@[k] == (i, c)) // [C08.batch_forget.cap]'],
                   ensures=['nonroot(final(lg).fg) =~= nonroot(old(lg).fg + requests@) // [C08.batch_forget.all] every pair of the request is applied exactly once, in order'],
                   body_resub=[(r'for \(inode, count\) in requests \{', 'for pair_ in it_: requests.iter() { let (inode, count) = *pair_;', 'for (a, b) in VEC by value -> by reference + copy of the Copy pair (tuple patterns in `for` are not supported)')],
                   splices=[('^', 'after', 'proof { assert(old(lg).fg + requests@.take(0) =~= old(lg).fg); assert(requests@.take(requests@.len() as int) =~= requests@); }'),
                            ('for pair_ in it_: requests.iter() {', 'replace', '''for pair_ in it_: requests.iter()
                invariant nonroot(lg.fg) =~= nonroot(old(lg).fg + requests@.take(it_.index@)), inodes.st == lg.store, self.tok(*lg),
                    forall|g: Lg, i: Inode, c: u64| #[trigger] forget_allowed(g, i, c) <==> (exists|k: int| 0 <= k < requests@.len() && nonroot(g.fg) =~= nonroot(old(lg).fg + requests@.take(k)) && requests@[k] == (i, c)),
            {'''),
                            ('let (inode, count) = *pair_;', 'after', '''proof {
                let k = it_.index@;
                assert(requests@.take(k + 1) =~= requests@.take(k).push(requests@[k]));
                assert(old(lg).fg + requests@.take(k + 1) =~= (old(lg).fg + requests@.take(k)).push(requests@[k]));
                lemma_nonroot_push(old(lg).fg + requests@.take(k), requests@[k]); lemma_nonroot_push(lg.fg, requests@[k]);
            }'''),
                            ]),
                callees=['get_map_mut', 'forget_one']),
        ]),
    ]
    return Unit('ptlookup', items, preludes=['base.rs', 'stdmodel.rs'],
                generic_tags={'cas': ['C08'], 'add': ['C08'], 'insert': ['C08'], 'open': ['C08'], 'seq': ['C08'], 'forget': ['C08']})
