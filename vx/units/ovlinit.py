"""Unit `ovlinit` (C12, overlay side).
(1) OverlayFs::init against the same contract as PassthroughFs::init (unit ptinit, vx/units/ptinit.py::build): every behaviour switch may only be
    turned ON, only when the feature was offered by the client and is wanted by the configuration, and the returned option word requests the
    feature under exactly that condition.
(2) OverlayFs::create: "switches on writeback behaviour only when that feature was actually negotiated" - the open flags handed on to
    do_create (and through it to the layer) are the client's, with the overlay's own O_NOFOLLOW / !O_DIRECT, and are rewritten for the writeback
    cache (O_WRONLY -> O_RDWR, O_APPEND removed) exactly when the `writeback` switch that init sets is on.  The callees are contract-only here
    (lookup_node, do_create, do_lookup are verified for C10 / C11 in unit ovl_ops); OverlayFs::open carries the same clause in unit ovl_ops."""
from vx.api import Copy, Raw, Fn
from vx.units import ptinit
from vx import flagsmodel

OVS = 'src/overlayfs/sync_io.rs'
OVL = 'src/overlayfs/mod.rs'
OCFG = 'src/overlayfs/config.rs'
PCFG = 'src/passthrough/config.rs'
ABI = 'src/abi/fuse_abi_linux.rs'
FSMOD = 'src/api/filesystem/mod.rs'
FSI = 'impl FileSystem for OverlayFs'

DECLS = '''
pub type Result<T> = io::Result<T>; pub use io::Error;        // `use std::io::{Error, Result}` in src/overlayfs/sync_io.rs
pub type Inode = u64;
pub type Handle = u64;
pub struct OverlayInode { pub whiteout: AtomicBool }
// OverlayFs: the configuration and the five behaviour switches (the other fields are the layers and the inode / handle tables)
pub struct OverlayFs { pub config: Config, pub writeback: AtomicBool, pub no_open: AtomicBool, pub no_opendir: AtomicBool,
    pub killpriv_v2: AtomicBool, pub perfile_dax: AtomicBool }
// the open flags a CREATE hands on: the client\'s, never following a final symlink, never O_DIRECT; for the writeback cache (the kernel reads back
// what it wrote and appends by itself) write-only becomes read-write and O_APPEND is dropped.  Values of x86_64 linux (fcntl.h).
pub open spec fn sp_create_flags(f: u32, wb: bool) -> u32 {
    let g = ((f as i32) | libc::O_NOFOLLOW) & !libc::O_DIRECT;
    if wb {
        let h = if g & libc::O_ACCMODE == libc::O_WRONLY { (g & !libc::O_ACCMODE) | libc::O_RDWR } else { g };
        (if h & libc::O_APPEND != 0 { h & !libc::O_APPEND } else { h }) as u32
    } else { g as u32 }
}
#[verifier::external_body] pub fn cstr_to_string(name: &CStr) -> (r: String) { unimplemented!() }      // name.to_string_lossy().to_string()
impl OverlayFs {
    // import(): loads the root node from the layers - not extracted, no contract
    #[verifier::external_body] pub fn import(&self) -> (r: io::Result<()>) { unimplemented!() }
    #[verifier::external_body] pub fn lookup_node(&self, ctx: &Context, inode: Inode, name: &str) -> (r: Result<Arc<OverlayInode>>) { unimplemented!() }
    pub uninterp spec fn create_flags_ok(&self, f: u32) -> bool;
    #[verifier::external_body] pub fn do_create(&self, ctx: &Context, parent_node: &Arc<OverlayInode>, name: &str, args: CreateIn) -> (r: Result<Option<Handle>>)
        requires self.create_flags_ok(args.flags), // [C12.ovl.create.writeback_negotiated]
    { unimplemented!() }
    #[verifier::external_body] pub fn do_lookup(&self, ctx: &Context, parent: Inode, name: &str) -> (r: Result<Entry>) { unimplemented!() }
}
'''


def unit(root='/repo'):
    create = Fn(OVS, FSI, 'create', props=['C12'], canary=True,
                requires=['forall|f: u32| #[trigger] self.create_flags_ok(f) <==> f == sp_create_flags(args.flags, self.writeback.cur())'],
                body_resub=[(r'name\.to_string_lossy\(\)\.to_string\(\)', 'cstr_to_string(name)', 'the name as a String: opaque model call'),
                            (r'\bopts \|= (OpenOptions::\w+)', r'opts = opts | \1', 'every: `x |= F` -> `x = x | F` on a bitflags value')],
                splices=[
                         ('hargs.flags = flags as u32;', 'before', '''proof {
            assert(flags as u32 == sp_create_flags(args.flags, self.writeback.cur())); // [C12.ovl.create.writeback_negotiated]
        }''')])
    return ptinit.build(root, 'ovlinit', OVS, FSI, 'self.config', 'ovl',
                        flagsmodel.items(root, ABI, 'OpenOptions') + [
        Copy(PCFG, r'pub enum CachePolicy\b', prefix='#[derive(Clone, Copy, PartialEq, Eq)]'),
        Copy(OCFG, r'pub struct Config\b'),
        Copy(ABI, r'pub struct CreateIn\b', prefix='#[derive(Clone, Copy)]'),
        Copy(FSMOD, r'pub struct Context\b', prefix='#[derive(Clone, Copy)]', subst=[('libc::uid_t', 'u32'), ('libc::gid_t', 'u32'), ('libc::pid_t', 'i32')]),
        Copy(FSMOD, r'pub struct Entry\b', prefix='#[derive(Clone, Copy)]'),
        Raw(DECLS)], 'impl OverlayFs {', dax_want='self.cfg.perfile_dax',      # the overlay has a configuration switch for per-file DAX
        more=[create])
