"""Unit `virtiofsw_async` (C17, C04; feature async-io ON for this unit only): the async entry points of VirtioFsWriter that reach guest
memory (src/transport/virtiofs/mod.rs, `mod async_io`): async_write, async_write2, async_write3, async_write_from_at, async_commit, and
IoBuffers::prepare_mut_io_buf (src/transport/mod.rs) which hands the reply space to the async file read.

async_write_from_at does NOT go through consume_for_write: it calls `mark_dirty(cnt)` and `mark_used(cnt)` itself, so the order and the
amounts are its own responsibility.  It is verified against THE CONTRACT OF ITS SYNC TWIN write_from_at (same clause builder,
virtiofsw.parts()['wr_contract']): on Ok(cnt) the log grows by exactly the first cnt addresses in front of the old cursor and the cursor
moves over exactly those; on Err nothing moves and nothing is marked.  async_write{,2,3} call the sync `write` (assumed here with the
contract proved in unit `virtiofsw`).  `async fn` / `.await` are read sequentially (rule R18)."""
from vx.api import Unit, Fn, Copy, Raw, Group
from vx.units import iobuffers as IO
from vx.units import virtiofsw as VW

T, V = VW.T, VW.V

ASYNC_MODEL = r'''
// crate::file_buf::FileVolatileBuf: (address, bytes already valid, capacity); an async read fills [address + size, address + cap)
#[verifier::external_body] #[derive(Clone, Copy)] pub struct FileVolatileBuf { _p: usize }
impl FileVolatileBuf {
    pub uninterp spec fn addr(&self) -> int;
    pub uninterp spec fn size(&self) -> nat;
    pub uninterp spec fn cap(&self) -> nat;
    pub open spec fn room(&self) -> nat { if self.cap() >= self.size() { (self.cap() - self.size()) as nat } else { 0 } }
}
// the addresses a list of buffers offers to a reader, in order
pub open spec fn bcells(b: Seq<FileVolatileBuf>) -> Seq<int> decreases b.len() {
    if b.len() == 0 { Seq::<int>::empty() } else { range(b[0].addr() + b[0].size(), b[0].room()) + bcells(b.skip(1)) }
}
pub proof fn lemma_bcells_push(b: Seq<FileVolatileBuf>, v: FileVolatileBuf)
    ensures bcells(b.push(v)) =~= bcells(b) + range(v.addr() + v.size(), v.room())
    decreases b.len()
{
    if b.len() == 0 { assert(b.push(v).skip(1) =~= Seq::<FileVolatileBuf>::empty()); reveal_with_fuel(bcells, 2); }
    else { assert(b.push(v).skip(1) =~= b.skip(1).push(v)); lemma_bcells_push(b.skip(1), v); }
}
// `FileVolatileBuf::from_raw_ptr(X.ptr_guard_mut().as_ptr(), SIZE, CAP)` with X a VolatileSlice is abstracted (ABSTRACT, logged) by this
// call: a buffer at X's address; `SIZE <= CAP` is the assert! of from_raw_ptr, `CAP <= X.len()` keeps the reader inside the slice.
#[verifier::external_body]
pub fn vx_buf_of_slice<'a, S: BitmapSlice>(s: &VolatileSlice<'a, S>, size: usize, cap: usize) -> (r: FileVolatileBuf)
    requires size <= cap, cap <= s.slen(), // [C04.prepare_mut_io_buf.in_bounds]
    ensures r.addr() == s.addr(), r.size() == size, r.cap() == cap
{ unimplemented!() }
// crate::file_traits::AsyncFileReadWriteVolatile: a dependency, modelled like the sync read_vectored_at_volatile.  ASSUMED: Ok(n) => n <= the
// room offered (and, for C17, that exactly the first n offered bytes were filled, nothing on Err)
pub trait AsyncFileReadWriteVolatile {
    fn async_read_vectored_at_volatile(&self, bufs: Vec<FileVolatileBuf>, offset: u64) -> (r: (io::Result<usize>, Vec<FileVolatileBuf>))
        ensures r.0 is Ok ==> r.0->Ok_0 <= bcells(bufs@).len();
}
'''

OLDW, NO_OVF, STAYS, UNMARKED = VW.OLDW, VW.NO_OVF, VW.STAYS, VW.UNMARKED


def multi_contract(op, total):
    """async_write2/3: one space check for the total, then several sync writes in a row"""
    return [# whatever happens the log grows by exactly what the cursor moved over
            '''%s ==> ({ let n = final(self).buffers.bytes_consumed - old(self).buffers.bytes_consumed;
                        0 <= n <= %s.len() && cells(final(self).buffers.buffers@) =~= %s.skip(n)
                        && final(dm).marked =~= old(dm).marked + %s.subrange(0, n) && (r is Ok ==> n == r->Ok_0) }) // [C17.%s.written_marked_exactly]'''
            % (NO_OVF, OLDW, OLDW, OLDW, op),
            # "the bytes placed by writers are exactly the concatenation written": all of it or an error
            'r is Ok && %s ==> r->Ok_0 == %s // [C04.%s.amount]' % (NO_OVF, total, op),
            # "an operation that would exceed the remaining space fails without writing": the check covers the TOTAL, so nothing has moved
            '%s && %s > %s.len() ==> r is Err && %s && %s // [C04.%s.exceeds_fails]' % (NO_OVF, total, OLDW, STAYS, UNMARKED, op)]


STEPS = '''let ghost all = cells(self.buffers.buffers@);
        proof { assert forall|k: int, n: int| 0 <= k && 0 <= n && k + n <= all.len() implies #[trigger] all.skip(k).subrange(0, n) =~= all.subrange(k, k + n)
                    && all.subrange(0, k) + all.subrange(k, k + n) =~= all.subrange(0, k + n) && #[trigger] all.skip(k).skip(n) =~= all.skip(k + n) by { }
                assert(all.skip(0) =~= all); assert(all.subrange(0, 0) =~= Seq::<int>::empty()); }'''


def unit(root='/repo'):
    P = VW.parts()
    SW = "impl<'a, S: BitmapSlice> VirtioFsWriter<'a, S>"
    SIO = "impl<S: BitmapSlice> IoBuffers<'_, S>"

    def atok(f, callees=()):
        f = P['tok'](f, ['write'] + list(callees))
        f.rules = ('R18', 'R23')
        return f
    prep = Fn(T, SIO, 'prepare_mut_io_buf', props=['C04'], canary=True,
              sig_subst=[('unsafe fn', 'fn')],          # `unsafe` marker of the declaration dropped: its only unsafe operation is the abstracted from_raw_ptr
              ensures=['bcells(r@) =~= cells(self.buffers@).subrange(0, minn(count as int, cells(self.buffers@).len() as int)) // [C04.prepare_mut_io_buf.prefix]'],
              body_resub=[(r'FileVolatileBuf::from_raw_ptr\((?:\s*//[^\n]*\n)*\s*(\w+)\.ptr_guard_mut\(\)\.as_ptr\(\),\s*((?:[^,()]|\([^()]*\))+?),\s*((?:[^,()]|\([^()]*\))+?),?\s*\)(?=\s*\))',
                           r'vx_buf_of_slice(&\1, \2, \3)', 'raw window over a VolatileSlice -> model call (same address, inside the slice)')],
              splices=[('let mut bufs = Vec::with_capacity(self.buffers.len());', 'after', 'let ghost all = cells(self.buffers@); proof { assert(self.buffers@.take(0) =~= Seq::empty()); assert(self.buffers@.take(self.buffers@.len() as int) =~= self.buffers@); }'),
                       ('for buf in self.buffers.iter() {', 'replace', IO._prefix_loop('bcells(bufs@)', 'C04.prepare_mut_io_buf.loop') + ' let ghost b0 = bufs@;'),
                       ('rem -= local_buf.len() as usize;', 'before', 'proof { lemma_bcells_push(b0, bufs@[bufs@.len() - 1]); assert(bufs@ =~= b0.push(bufs@[bufs@.len() - 1])); }')])
    prep.rules = ('R21',)
    UNSAFE_CALL = (r'unsafe\s*\{(?:\s*//[^\n]*\n)*\s*(self\.buffers\.prepare_mut_io_buf\(\w+\))\s*\}', r'\1',
                   'unsafe block around the call of the (extracted) unsafe fn prepare_mut_io_buf: marker dropped')
    writer = [VW.as_external(f) for f in P['writer'] if f.name in ('available_bytes', 'bytes_written', 'check_available_space', 'write', 'commit')]
    asyncs = [
        atok(Fn(V, SW, 'async_write', ensures=P['wr_contract']('async_write', 'data@.len()'), props=['C17'], canary=True)),
        atok(Fn(V, SW, 'async_write2', ensures=multi_contract('async_write2', 'data@.len() + data2@.len()'), props=['C17'], canary=True,
                splices=[('^', 'after', STEPS)])),
        atok(Fn(V, SW, 'async_write3', ensures=multi_contract('async_write3', 'data@.len() + data2@.len() + data3@.len()'), props=['C17'], canary=True,
                splices=[('^', 'after', STEPS)])),
        # the sync twin's contract, clause for clause
        atok(Fn(V, SW, 'async_write_from_at', ensures=P['wr_contract']('async_write_from_at'), props=['C17'], canary=True,
                body_resub=[UNSAFE_CALL])),
    ]
    # no token: a function without it cannot reach the bitmap at all
    acommit = Fn(V, SW, 'async_commit', ensures=['r == Ok::<usize, io::Error>(0usize) && %s // [C17.async_commit.noop]' % STAYS], props=['C17'])
    acommit.rules = ('R18',)
    asyncs.append(acommit)
    items = [
        Raw(IO.MODEL),
        Copy(T, r"struct IoBuffers<'a, S>", prefix='#[verifier::reject_recursive_types(S)]'),
        Copy(V, r"pub struct VirtioFsWriter<'a, S", subst=[('S = ()', 'S')], prefix='#[verifier::reject_recursive_types(S)]'),
        Raw(IO.SPEC),
        Raw(VW.MODEL2),
        Raw(ASYNC_MODEL),
        # proved in unit `iobuffers` (same clause text), assumed here; prepare_mut_io_buf is verified here
        Group("impl<'a, S: BitmapSlice> IoBuffers<'a, S> {", P['io_group'] + [prep]),
        # sync functions: proved in unit `virtiofsw`, assumed here
        Group("impl<'a, S: BitmapSlice> VirtioFsWriter<'a, S> {", writer + asyncs),
    ]
    u = Unit('virtiofsw_async', items, preludes=['base.rs'])
    u.cfg_features = {'async-io'}
    return u
